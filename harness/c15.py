"""C15 — generated names never collide; name fixing yields unique names only; bulk renaming is
all-or-nothing (DESIGN.md section 5, C15).

Part A (name authority, graph level).  Random replayable histories on a real `ir.Graph` (optionally behind an
`ir.Function`): constructor (inputs, outputs, initializers, nodes with inputs), `append/extend/insert_*`,
`Node(graph=g)`, `remove`, re-add (renamed while detached), `inputs/outputs` append/insert/pop,
`initializers.add / [key]=unnamed / pop`, `value.name=` / `node.name=` on objects in the graph, `clone()`.  Explicit
names come from a pool with `val_k` / `node_<op>_k` shapes.  Every way a name reaches the graph's NameAuthority is
mirrored as one op of the Lean graph-level model (`names.ghist`; the authority-level `names.hist` is cross-checked);
compared: every object's name, both counters, both seen sets, ownership.  Oracle (does not look at the authority):
a generated name differs from every name any object owned by the graph carries or carried; explicit names are kept.

Part B (NameFixPass).  Random specs built into real models: nesting, GRAPH/GRAPHS/reference attributes, functions
(with initializers in the underlying graph), forward references and forward captures, ill-scoped and shared-object
streams, many duplicates (two-digit counters), non-ASCII names; compared: all names, dictionaries (order), flags,
`modified`, raise; the Lean-evaluated hypotheses (scopedB, Closed, ownership rule) against Python restatements.
Oracle: the postcondition on the real objects (per scope list and per ownership), identity snapshot of everything else.

Part B+ (NameFixPass with custom generators and backing tensors, `names.fixx`).  The same specs with a tensor
configuration (own / shared tensors, tensors on plain values, tensors refusing a name) and a generator: default,
constant, name.upper(), the docstring example (op_type / type based), a stateful counter, and one answering the empty
string (outside the hypothesis: model vs implementation only).  The real generator's answers are recorded and the model
is run on the recorded table; compared: names, dictionaries, tensor names, flags, raise, and the sequence of generator
calls.  Oracle in every outcome (also after a raise): initializers keyed by their names, tensors follow their values.

Part C (rename_values).  Exhaustive small assignments + random ones with repeated pairs, shared and refusing
backing tensors (rollback), values owned by no graph, scalar arguments; compared with `names.rename`; oracle:
all-or-nothing including tensor names.
"""
from __future__ import annotations

from harness.common import Ctx, lean_batch_parallel, load_corpus

THEOREMS = [
    "IrVerif.Names.C15_fresh",
    "IrVerif.Names.C15_monotone",
    "IrVerif.Names.C15_loop_terminates",
    "IrVerif.Names.C15_carried",
    "IrVerif.Names.C15_graph_fresh",
    "IrVerif.Names.C15_explicit_kept",
    "IrVerif.Names.C15_namefix_total",
    "IrVerif.Names.C15_namefix_post",
    "IrVerif.Names.C15_namefix_keeps_unique",
    "IrVerif.Names.C15_namefix_idempotent",
    "IrVerif.Names.C15_namefix_call_total",
    "IrVerif.Names.C15_namefix_call_post",
    "IrVerif.Names.C15_namefix_call_keeps_unique",
    "IrVerif.Names.C15_namefix_call_idempotent",
    "IrVerif.Names.C15_scoped_of_well_owned",
    "IrVerif.Names.C15_rename_values_atomic",
    "IrVerif.Names.C15_rename_values_succeeds",
    "IrVerif.Names.C15_first_holder_keeps",
    "IrVerif.Names.C15_namefix_call_first_holder_keeps",
    "IrVerif.Names.C15_gen_step_fresh",
    "IrVerif.Names.C15_gen_ikey_preserved",
    "IrVerif.Names.C15_gen_tensor_follows",
    "IrVerif.Names.C15_gen_refines_default",
    "IrVerif.Names.C15_gen_nonempty_necessary",
    "IrVerif.Names.C15_gen_total_needs_scoping",
    "IrVerif.Names.C15_scoping_necessary",
    "IrVerif.Names.C15_gen_post",
    "IrVerif.Names.C15_gen_untouched",
    "IrVerif.Names.C15_gen_default_raises_only_on_refusal",
    "IrVerif.Names.C15_illscoped_nodes",
    "IrVerif.Names.C15_illscoped_values",
    "IrVerif.Names.C15_illscoped_first_holder",
]
ASSUMPTIONS = [
    "Python set/dict membership, dict insertion order and f-string decimal printing of int are modelled by list "
    "membership, association lists and Nat.repr",
    "a NameGenerator is modelled as a function of (kind, object, the object's current name): every object is handed "
    "to the generator at most once per run, so the answers of a stateful generator during one run are such a function "
    "too; the harness records the answers of the real generator object, runs the model on the recorded table and "
    "requires the model's sequence of generator calls to be the recorded one; generators that raise or answer a "
    "non-str are outside the typed model",
    "for custom generators the full postcondition (no exception, non-empty, unique per scope, unique names kept, first "
    "holder keeps; values and nodes) is proved (C15_gen_post) under: the generator never answers '' (NameGen.NonEmpty, "
    "decided by the driver on the recorded answer table), PassWF (the scoping rule included: necessary for a custom "
    "generator even for 'does not raise'), no tensor that backs a value refuses a name; the driver evaluates the "
    "hypotheses and the conclusion on every names.fixx case (x_gen_post_hyp); proved for every generator, every scoping "
    "and every outcome: freshness of every naming step, I_key preservation, tensor write-through, objects the generator "
    "was never asked about are untouched (C15_gen_untouched); the default generator's theorems apply to the general "
    "model through C15_gen_refines_default, and the default generator raises only because of a refusing backing tensor "
    "(C15_gen_default_raises_only_on_refusal)",
    "NameFixPass / rename_values theorems assume InitsOk (initializer dictionaries keyed by the current non-empty "
    "names: kernel invariant I_key, property C01) of the INPUT only; its preservation is proved (C15_namefix_total, "
    "C15_gen_ikey_preserved: every generator, refusing tensors, also when the pass raises); "
    "post/keeps_unique/first_holder/idempotent additionally assume the scoping rule "
    "scopedB, node objects occurring once, and top-level graphs sharing no values (PassWF); scopedB is implied "
    "(theorem C15_scoped_of_well_owned) by the ownership rule: every value a node uses is owned by its graph or an "
    "enclosing graph, wherever it is defined (unsorted graphs and forward captures included); excluded are values "
    "owned by a sibling / unrelated graph or by no graph; the harness evaluates these hypotheses on every model",
    "a subgraph-local name is compared with all names owned by its enclosing graphs (also later-defined ones) but "
    "a name first met inside a nested graph that is owned by no enclosing graph is not compared with anything outside",
    "graph-level authority model: ownership (value.graph is g) of every tracked object is observed on the real "
    "objects and fed to the model as drop events; attach events are derived from the API call made",
    "'nothing but names changed' is structural in the model (the object tree is an input only); on the real objects "
    "it is checked by the oracle (identity snapshot of graphs, nodes, values, uses, attributes, backing tensors)",
    "backing tensors are modelled for rename_values (shared tensors, tensors refusing a name, rollback) and for "
    "NameFixPass (write-through inside Value.name=, shared tensors, a refusing tensor stops the pass in the middle: "
    "names.fixx); 'a tensor none of whose values was handed to the generator keeps its name' is a theorem "
    "(C15_gen_untouched) whose conclusion the driver evaluates on every case and the oracle checks on the real objects; "
    "values that have a producer and are registered as initializers are not modelled",
    "TypeError paths of rename_values (non-Value / non-str arguments, length mismatch) are outside the typed model",
]



class _Timeout(BaseException):
    """a call of the implementation did not return within the CPU / wall-clock guard (not an Exception: neither the
    code under test nor an `except Exception` of the harness may swallow it)"""


_ITEM_CPU_S = float(__import__("os").environ.get("C15_ITEM_CPU_S", "5"))     # one item takes milliseconds
_ITEM_WALL_S = float(__import__("os").environ.get("C15_ITEM_WALL_S", "120"))  # a blocked (not spinning) call
# circuit breaker: after this many items of one stream ran into the guard the rest of that stream is not executed
# (the check has failed already; thousands of looping items x the guard time would amount to a hanging check)
_NONTERM_MAX = 3
_nonterm: dict = {}


def _tripped(ctx, stream: str) -> bool:
    if _nonterm.get(stream, 0) >= _NONTERM_MAX:
        ctx.count(f"skipped_after_nontermination={stream}")
        return True
    return False


def _timed_out(ctx, stream: str, sig: str, what: str, case) -> None:
    _nonterm[stream] = _nonterm.get(stream, 0) + 1
    ctx.fail(sig, what, case)


@__import__("contextlib").contextmanager
def _guard():
    """CPU-time and wall-clock interval timers around one item of a stream: a naming loop of a modified implementation
    that does not terminate becomes a `nontermination:*` failure instead of a hanging check.  Not re-entrant."""
    import signal
    import threading

    if threading.current_thread() is not threading.main_thread():
        yield
        return

    def _h(signum, frame):
        raise _Timeout("CPU guard" if signum == signal.SIGVTALRM else "wall-clock guard")

    old_v = signal.signal(signal.SIGVTALRM, _h)
    old_r = signal.signal(signal.SIGALRM, _h)
    signal.setitimer(signal.ITIMER_VIRTUAL, _ITEM_CPU_S)
    signal.setitimer(signal.ITIMER_REAL, _ITEM_WALL_S)
    try:
        yield
    finally:
        signal.setitimer(signal.ITIMER_VIRTUAL, 0)
        signal.setitimer(signal.ITIMER_REAL, 0)
        signal.signal(signal.SIGVTALRM, old_v)
        signal.signal(signal.SIGALRM, old_r)


OPS = ["Add", "Mul", "Add_1", ""]
VAL_POOL = [f"val_{k}" for k in range(6)] + ["x", "y", "", "val_01", "val_10"]
NODE_POOL = [f"node_{op}_{k}" for op in ("Add", "Mul", "Add_1", "") for k in range(4)] + ["n", "", "node_Add_1_0"]


# --------------------------------------------------------------------------- part A


class _Exec:
    """Executes a history *script* (pure data, replayable) on a real `ir.Graph` (optionally wrapped in an
    `ir.Function`), mirrors every way a name reaches the graph's NameAuthority as one graph-level model op
    (`names.ghist`) and evaluates an oracle that does NOT look at the authority: a name the graph generates must
    differ from every name any value / node owned by the graph carries or carried at an earlier step."""

    def __init__(self, ir):
        self.ir = ir
        self.values: list = []  # tracked values, creation order = model ids
        self.nodes: list = []
        self.vinit: list = []  # names at creation (model input)
        self.ninit: list = []
        self.gops: list[list] = []  # model ops
        self.ever = {"v": set(), "n": set()}  # oracle: names carried by owned objects, at any step so far
        self.oracle_failures: list[tuple[str, str]] = []
        self.g = None  # the Graph
        self.api = None  # Graph or Function: node-level API
        self.detached: list = []
        self.vowned: set[int] = set()
        self.nowned: set[int] = set()
        self.implicit = 0
        self.gop_after: dict[int, str | None] = {}  # gop index of a registration -> the object's name afterwards

    # -- tracking
    def V(self, v):
        for i, x in enumerate(self.values):
            if x is v:
                return i
        self.values.append(v)
        self.vinit.append(v.name)
        return len(self.values) - 1

    def N(self, n):
        for i, x in enumerate(self.nodes):
            if x is n:
                return i
        self.nodes.append(n)
        self.ninit.append(n.name)
        for v in n.outputs:
            self.V(v)
        return len(self.nodes) - 1

    def new_value(self, name):
        v = self.ir.Value(name=name)
        self.V(v)
        return v

    def node(self, spec):
        ir = self.ir
        ins = [None if i is None or i >= len(self.values) else self.values[i] for i in spec.get("ins", [])]
        n = ir.Node("", spec["op"], inputs=ins, outputs=[ir.Value(name=x) for x in spec["outs"]], name=spec["name"])
        self.N(n)
        return n

    def snapshot(self):
        return [v.name for v in self.values], [n.name for n in self.nodes]

    def reg_nodes(self, nodes):
        for n in nodes:
            self.gops.append(["rn", self.N(n), n.op_type])
            for v in n.outputs:
                self.gops.append(["rv", self.V(v)])

    def finish(self, opname, before, user_set=()):
        """after one real operation: ownership diff -> drop ops; oracle on generated / explicit names"""
        g = self.g
        vb, nb = before
        vown = {i for i, v in enumerate(self.values) if v.graph is g}
        nown = {i for i, n in enumerate(self.nodes) if n.graph is g}
        attached = {op[1] for op in self.gops[self._mark:] if op[0] in ("rv", "nv")}
        for k in range(self._mark, len(self.gops)):
            if self.gops[k][0] == "rv":
                self.gop_after[k] = self.values[self.gops[k][1]].name
            elif self.gops[k][0] == "rn":
                self.gop_after[k] = self.nodes[self.gops[k][1]].name
        for i in sorted(self.vowned - vown):
            self.gops.append(["dv", i])
        for i in sorted(self.nowned - nown):
            self.gops.append(["dn", i])
        self.implicit += len([i for i in vown - self.vowned - attached if self.values[i].name is not None])
        self.vowned, self.nowned = vown, nown
        # oracle (independent of the authority)
        gen_now = {"v": set(), "n": set()}
        for kind, objs, old in (("v", self.values, vb), ("n", self.nodes, nb)):
            for i, o in enumerate(objs):
                was = old[i] if i < len(old) else (self.vinit if kind == "v" else self.ninit)[i]
                if (kind, i) in user_set:
                    continue
                if was is None and o.name is not None:
                    if o.name in self.ever[kind] or o.name in gen_now[kind]:
                        self.oracle_failures.append((f"authority:{opname}:generated-name-collides",
                                                     f"generated {o.name!r} is/was carried by an object of the graph"))
                    gen_now[kind].add(o.name)
                elif was is not None and o.name != was:
                    self.oracle_failures.append((f"authority:{opname}:explicit-name-changed", f"{was!r} -> {o.name!r}"))
        for i in vown:
            if self.values[i].name is not None:
                self.ever["v"].add(self.values[i].name)
        for i in nown:
            if self.nodes[i].name is not None:
                self.ever["n"].add(self.nodes[i].name)

    def step(self, op):
        ir, g, api = self.ir, self.g, self.api
        kind = op[0]
        self._mark = len(self.gops)
        user_set = set()
        if kind == "Graph":
            _, in_names, init_names, node_specs, out_specs, as_function = op
            inputs = [self.new_value(n) for n in in_names]
            inits = [self.new_value(n) for n in init_names]
            nodes = [self.node(sp) for sp in node_specs]
            outs = []
            for o in out_specs:
                if o[0] == "new":
                    outs.append(self.new_value(o[1]))
                elif o[1] < len(nodes) and o[2] < len(nodes[o[1]].outputs):
                    outs.append(nodes[o[1]].outputs[o[2]])
            before = self.snapshot()
            self.g = ir.Graph(inputs, outs, nodes=nodes, initializers=inits, name="g")
            self.api = ir.Function("d", "f", "", graph=self.g, attributes=[]) if as_function else self.g
            # the constructor fills inputs, outputs, initializers (each value joining a container is recorded),
            # then names / registers inputs and initializers, then adds the nodes
            for v in inputs + outs + inits:
                self.gops.append(["nv", self.V(v)])
            for v in inputs + inits:
                self.gops.append(["rv", self.V(v)])
            self.reg_nodes(nodes)
            self.finish("Graph", before)
            return
        if kind in ("append", "extend", "insert_before", "insert_after", "node-graph"):
            if kind == "append":
                ns = [self.node(op[1])]
            elif kind == "extend":
                ns = [self.node(sp) for sp in op[1]]
            elif kind == "node-graph":
                ns = []
            else:
                ns = [self.node(sp) for sp in op[2]]
            before = self.snapshot()
            if kind == "append":
                api.append(ns[0])
            elif kind == "extend":
                api.extend(ns)
            elif kind == "node-graph":  # Node(..., graph=g) adds itself
                sp = op[1]
                ins = [None if i is None or i >= len(self.values) else self.values[i] for i in sp.get("ins", [])]
                n = ir.Node("", sp["op"], inputs=ins, outputs=[ir.Value(name=x) for x in sp["outs"]], name=sp["name"], graph=g)
                ni = self.N(n)  # tracked after construction: the names it was created with are the model's input
                self.ninit[ni] = sp["name"]
                for v, x in zip(n.outputs, sp["outs"]):
                    self.vinit[self.V(v)] = x
                before = (before[0] + [x for x in sp["outs"]], before[1] + [sp["name"]])
                ns = [n]
            else:
                getattr(api, kind)(list(g)[op[1]], ns[0] if op[3] else ns)
            self.reg_nodes(ns)
            self.finish(kind, before)
        elif kind == "remove":
            before = self.snapshot()
            n = list(g)[op[1]]
            api.remove(n)
            self.detached.append(n)
            self.finish(kind, before)
        elif kind == "readd":
            _, idx, rename, which, anchor = op
            n = self.detached.pop(idx)
            if rename is not None:  # rename while detached: not owned, so only the re-add registers the new names
                before = self.snapshot()
                n.name = rename["name"]
                self.gops.append(["sn", self.N(n), rename["name"]])
                user_set.add(("n", self.N(n)))
                for v, (do, nm) in zip(n.outputs, rename["outs"]):
                    if do:
                        v.name = nm
                        self.gops.append(["sv", self.V(v), nm])
                        user_set.add(("v", self.V(v)))
                self.finish("rename-detached", before, user_set)
                self._mark = len(self.gops)
            before = self.snapshot()
            if which == "append":
                api.append(n)
            elif which == "extend":
                api.extend([n])
            else:
                api.insert_after(list(g)[anchor], n)
            self.reg_nodes([n])
            self.finish("re-" + which, before)
        elif kind == "append-present":  # re-adding a node that is already in the graph registers its names again
            before = self.snapshot()
            n = list(g)[op[1]]
            api.append(n)
            self.reg_nodes([n])
            self.finish(kind, before)
        elif kind in ("in-append", "in-insert", "out-append"):
            v = self.new_value(op[1]) if op[2] is None or op[2] >= len(self.values) else self.values[op[2]]
            before = self.snapshot()
            lst = g.outputs if kind == "out-append" else g.inputs
            try:
                if kind == "in-insert":
                    lst.insert(0, v)
                else:
                    lst.append(v)
                self.gops.append(["nv", self.V(v)])
            except ValueError:  # e.g. a produced value cannot be a graph input: rejected, nothing registered
                pass
            self.finish(kind, before)
        elif kind in ("in-pop", "out-pop"):
            before = self.snapshot()
            lst = g.outputs if kind == "out-pop" else g.inputs
            if len(lst):
                lst.pop(op[1] % len(lst))
            self.finish(kind, before)
        elif kind == "init-add":  # graph.initializers.add(named value)
            v = self.new_value(op[1])
            before = self.snapshot()
            if op[1] not in g.initializers:
                g.initializers.add(v)
                self.gops.append(["nv", self.V(v)])
            self.finish(kind, before)
        elif kind == "init-set":  # graph.initializers[key] = unnamed value: the container names it
            v = self.new_value(None)
            before = self.snapshot()
            if op[1] not in g.initializers:
                g.initializers[op[1]] = v
                self.gops.append(["sv", self.V(v), op[1]])
                self.gops.append(["nv", self.V(v)])
                user_set.add(("v", self.V(v)))
            self.finish(kind, before, user_set)
        elif kind == "init-pop":
            before = self.snapshot()
            keys = list(g.initializers)
            if keys:
                g.initializers.pop(keys[op[1] % len(keys)])
            self.finish(kind, before)
        elif kind == "set-value":
            cand = [i for i, v in enumerate(self.values) if not v.is_initializer()]
            before = self.snapshot()
            if cand:
                i = cand[op[1] % len(cand)]
                self.values[i].name = op[2]
                self.gops.append(["sv", i, op[2]])
                user_set.add(("v", i))
            self.finish(kind, before, user_set)
        elif kind == "set-node":
            before = self.snapshot()
            if self.nodes:
                i = op[1] % len(self.nodes)
                self.nodes[i].name = op[2]
                self.gops.append(["sn", i, op[2]])
                user_set.add(("n", i))
            self.finish(kind, before, user_set)
        else:
            raise ValueError(kind)

    def impl(self):
        auth = self.g._name_authority  # observation only, for the correspondence (not for the oracle)
        return {
            "vnames": [v.name for v in self.values],
            "nnames": [n.name for n in self.nodes],
            "vc": auth._value_counter,
            "nc": auth._node_counter,
            "vseen": sorted(auth._value_names),
            "nseen": sorted(auth._node_names),
            "vown": sorted(self.vowned),
            "nown": sorted(self.nowned),
        }

    def request(self):
        nv, nn = len(self.values), len(self.nodes)
        return {"m": "names.ghist", "vnames": self.vinit[:nv], "nnames": self.ninit[:nn], "ops": self.gops}


def _pick_name(rng, pool, p_none=0.5):
    return None if rng.random() < p_none else rng.choice(pool)


def _node_spec(rng, nvals=0):
    ins = [rng.randrange(nvals) if nvals and rng.random() < 0.8 else None for _ in range(rng.choice([0, 0, 1, 2]))]
    return {"op": rng.choice(OPS), "name": _pick_name(rng, NODE_POOL), "ins": ins,
            "outs": [_pick_name(rng, VAL_POOL) for _ in range(rng.choice([0, 1, 1, 1, 2, 3]))]}


def _one_history(ctx: Ctx, ir, size: int, script=None):
    """generate a script step by step (choices depend only on the sizes of the tracked lists)"""
    rng = ctx.rng
    ex = _Exec(ir)
    script = [] if script is None else script

    def do(op):
        script.append(op)
        ex.step(op)

    init_names = [rng.choice([x for x in VAL_POOL if x]) for _ in range(rng.choice([0, 0, 1, 2]))]
    if len(set(init_names)) != len(init_names):
        init_names = init_names[:1]
    n_in = rng.choice([0, 1, 2, 3])
    node_specs = [_node_spec(rng, n_in + len(init_names)) for _ in range(rng.choice([0, 1, 2, 3]))]
    outs = []
    for _ in range(rng.choice([0, 0, 1, 2])):
        if node_specs and rng.random() < 0.6:
            k = rng.randrange(len(node_specs))
            if node_specs[k]["outs"]:
                outs.append(["nodeout", k, rng.randrange(len(node_specs[k]["outs"]))])
                continue
        outs.append(["new", _pick_name(rng, VAL_POOL, 0.2)])
    do(["Graph", [_pick_name(rng, VAL_POOL) for _ in range(n_in)], init_names, node_specs, outs, rng.random() < 0.15])
    for _ in range(size):
        live = len(ex.g)
        nv = len(ex.values)
        r = rng.random()
        if r < 0.18:
            do(["append", _node_spec(rng, nv)])
        elif r < 0.28:
            do(["extend", [_node_spec(rng, nv) for _ in range(rng.choice([0, 1, 2, 3]))]])
        elif r < 0.40 and live:
            specs = [_node_spec(rng, nv) for _ in range(rng.choice([1, 1, 2]))]
            do([rng.choice(["insert_before", "insert_after"]), rng.randrange(live), specs,
                len(specs) == 1 and rng.random() < 0.5])
        elif r < 0.45:
            do(["node-graph", _node_spec(rng, nv)])
        elif r < 0.57 and live:
            do(["remove", rng.randrange(live)])
        elif r < 0.67 and ex.detached:
            idx = rng.randrange(len(ex.detached))
            rename = None
            if rng.random() < 0.3:
                rename = {"name": _pick_name(rng, NODE_POOL, 0.3),
                          "outs": [[rng.random() < 0.5, _pick_name(rng, VAL_POOL, 0.3)] for _ in ex.detached[idx].outputs]}
            which = rng.choice(["append", "extend", "insert_after"]) if live else "append"
            do(["readd", idx, rename, which, rng.randrange(live) if live else 0])
        elif r < 0.70 and live:
            do(["append-present", rng.randrange(live)])
        elif r < 0.78:
            do([rng.choice(["in-append", "in-insert", "out-append"]), _pick_name(rng, VAL_POOL, 0.2),
                rng.randrange(nv) if nv and rng.random() < 0.3 else None])
        elif r < 0.81:
            do([rng.choice(["in-pop", "out-pop"]), rng.randrange(4)])
        elif r < 0.86:
            do(["init-add", rng.choice([x for x in VAL_POOL if x])])
        elif r < 0.89:
            do(["init-set", rng.choice([x for x in VAL_POOL if x])])
        elif r < 0.91:
            do(["init-pop", rng.randrange(4)])
        elif r < 0.97:
            do(["set-value", rng.randrange(64), _pick_name(rng, VAL_POOL, 0.1)])
        else:
            do(["set-node", rng.randrange(64), _pick_name(rng, NODE_POOL, 0.1)])
    return ex, script


def _hist_ops(ex):
    """the authority-level view (`names.hist`, model function `run`): every registration is a call with the
    name the object has at that moment; record-only registrations are calls with an explicit name"""
    names = {"v": list(ex.vinit), "n": list(ex.ninit)}
    own = {"v": set(), "n": set()}
    ops = []
    for idx, op in enumerate(ex.gops):
        k, i = op[0], op[1]
        if k == "rv":
            ops.append(["v", names["v"][i]]); own["v"].add(i)
            names["v"][i] = ex.gop_after.get(idx, names["v"][i])
        elif k == "rn":
            ops.append(["n", names["n"][i], op[2]]); own["n"].add(i)
            names["n"][i] = ex.gop_after.get(idx, names["n"][i])
        elif k == "nv":
            own["v"].add(i)
            if names["v"][i] is not None:
                ops.append(["v", names["v"][i]])
        elif k == "sv":
            if names["v"][i] != op[2]:
                names["v"][i] = op[2]
                if i in own["v"] and op[2] is not None:
                    ops.append(["v", op[2]])
        elif k == "sn":
            names["n"][i] = op[2]
            if i in own["n"] and op[2] is not None:
                ops.append(["n", op[2], ""])
        elif k == "dv":
            own["v"].discard(i)
        elif k == "dn":
            own["n"].discard(i)
    return ops


def _check_authority_case(ctx, ex, script, out, out_hist=None):
    gen = sum(1 for op in ex.gops if op[0] in ("rv", "rn"))
    shaped = sum(1 for n in ex.vinit + ex.ninit if n is not None and (n.startswith("val_") or n.startswith("node_")))
    case = {"part": "authority", "script": script}
    kinds = {op[0] for op in script}
    ctx.case(
        case,
        nontrivial=gen > 0,
        sample={"part": "authority", "script": script[:5], "gops": ex.gops[:14]},
        part="authority",
        model_ops=min(len(ex.gops) // 8 * 8, 64),
        explicit_generated_shape=min(shaped // 4 * 4, 32),
        counter_ge_10=ex.g._name_authority._value_counter >= 10,
        via_function=script[0][5],
    )
    for k in kinds:
        ctx.count(f"authority_op={k}")
    if ex.implicit:
        ctx.count("authority_implicit_attach", ex.implicit)
    for sig, what in ex.oracle_failures:
        ctx.fail(sig, what, case)
    impl = ex.impl()
    model = {k: (sorted(out.get(k, [])) if k in ("vseen", "nseen", "vown", "nown") else out.get(k)) for k in impl}
    if model != impl and not ex.oracle_failures:
        ctx.disagree("names.ghist model != Graph/NameAuthority", case, model, impl)
    if out_hist is not None and not ex.oracle_failures:
        h = {"vc": out_hist.get("vc"), "nc": out_hist.get("nc"), "vseen": sorted(out_hist.get("vnames", [])),
             "nseen": sorted(out_hist.get("nnames", []))}
        hi = {k: impl[k] for k in h}
        # the rename hook records the *new* name with an empty op_type: only seen sets / counters are comparable
        if h != hi:
            ctx.disagree("names.hist (authority level) != NameAuthority", case, h, hi)


def _replay_authority(ctx, ir, script):
    ex = _Exec(ir)
    try:
        with _guard():
            for op in script:
                ex.step(op)
    except _Timeout as e:
        ctx.fail("nontermination:authority", f"a graph / name-authority call did not return ({e})", {"part": "authority", "script": script})
        return
    except Exception as e:  # noqa: BLE001
        ctx.disagree(f"authority: the implementation raised {type(e).__name__} where the harness expects none",
                     {"part": "authority", "script": script}, None, repr(e)[:200])
        return
    out, out_hist = lean_batch_parallel([ex.request(), {"m": "names.hist", "ops": _hist_ops(ex)}])
    _check_authority_case(ctx, ex, script, out, out_hist)


def _clone_case(ctx, ir, ex, script):
    """Graph.clone(): the clone's authority is seeded by the constructor with the cloned names; then add unnamed nodes"""
    try:
        g2 = ex.g.clone()
    except Exception:  # the graph uses values it does not own (detached nodes' outputs): clone refuses
        ctx.count("authority_clone_rejected")
        return None
    ex2 = _Exec(ir)
    ex2.g = ex2.api = g2
    for v in list(g2.inputs) + list(g2.outputs) + list(g2.initializers.values()):
        ex2.gops.append(["nv", ex2.V(v)])
    for v in list(g2.inputs) + list(g2.initializers.values()):
        ex2.gops.append(["rv", ex2.V(v)])
    for n in g2:
        ex2.N(n)
    # the model's input = the names the clone's objects were created with = the names of the originals
    g = ex.g
    for a, b2 in list(zip(g.inputs, g2.inputs)) + list(zip(g.outputs, g2.outputs)) + \
            list(zip(g.initializers.values(), g2.initializers.values())) + \
            [(x, y) for n1, n2 in zip(g, g2) for x, y in zip(n1.outputs, n2.outputs)]:
        ex2.vinit[ex2.V(b2)] = a.name
    for n1, n2 in zip(g, g2):
        ex2.ninit[ex2.N(n2)] = n1.name
    ex2.reg_nodes(list(g2))
    user_set = set()
    for n1, n2 in zip(g, g2):  # the cloner resets the name of a node that was anonymous in the original
        if n1.name is None:
            ex2.gops.append(["sn", ex2.N(n2), None])
            user_set.add(("n", ex2.N(n2)))
    ex2._mark = 0
    ex2.finish("clone", (list(ex2.vinit), list(ex2.ninit)), user_set)
    for _ in range(2):
        ex2.step(["append", _node_spec(ctx.rng, len(ex2.values))])
    return ex2


def _run_authority(ctx: Ctx, ir) -> None:
    for c in load_corpus("C15"):
        if c.get("part") == "authority":
            _replay_authority(ctx, ir, c["script"])
    runs = []
    for i in range(ctx.pick(1500, 20000)):
        size = ctx.rng.choice([2, 4, 8, 16]) if i % 10 else 40
        script = []
        if _tripped(ctx, "authority"):
            break
        try:
            with _guard():
                ex, script = _one_history(ctx, ir, size, script)
                ex2 = _clone_case(ctx, ir, ex, script) if i % 7 == 0 else None
        except _Timeout as e:
            _timed_out(ctx, "authority", "nontermination:authority", f"a graph / name-authority call did not return ({e})",
                       {"part": "authority", "script": script})
            continue
        except Exception as e:  # noqa: BLE001 - the harness' stubs met an implementation that behaves differently
            ctx.disagree(f"authority: the implementation raised {type(e).__name__} where the harness expects none",
                         {"part": "authority", "script": script}, None, repr(e)[:200])
            continue
        runs.append((ex, script))
        if ex2 is not None:
            runs.append((ex2, script + [["clone+2 appends"]]))
    reqs = []
    for ex, _ in runs:
        reqs += [ex.request(), {"m": "names.hist", "ops": _hist_ops(ex)}]
    outs = lean_batch_parallel(reqs)
    for k, (ex, script) in enumerate(runs):
        if script[-1] == ["clone+2 appends"]:
            ctx.count("authority_op=clone")
            case = {"part": "authority", "script": script}
            for sig, what in ex.oracle_failures:
                ctx.fail(sig.replace("authority:", "authority:clone:"), what, case)
            impl = ex.impl()
            out = outs[2 * k]
            model = {kk: (sorted(out.get(kk, [])) if kk in ("vseen", "nseen", "vown", "nown") else out.get(kk)) for kk in impl}
            if model != impl and not ex.oracle_failures:
                ctx.disagree("names.ghist model != Graph.clone()+append", case, model, impl)
            continue
        _check_authority_case(ctx, ex, script, outs[2 * k], outs[2 * k + 1])


# --------------------------------------------------------------------------- part B (NameFixPass)

VNAMES = ["t", "t", "t_1", "t_2", "t_1_1", "v", "v_1", "v_2", "w", "w_1", None, None, ""]
NNAMES = ["n", "n", "n_1", "n_2", "node", "node_1", "node_2", None, None, ""]
INAMES = ["t", "t_1", "t_2", "t_1_1", "v", "v_1", "w", "w_1", "w_2"]


class _SpecGen:
    """Random model *specifications* (JSON): the same object is sent to the Lean model and built
    into real IR objects.  Ids are creation indices.  `fwd` = probability that a node input is a
    *forward* reference (a value defined later in the same or an enclosing graph: unsorted graphs, forward
    captures); `wild` = probability of an ill-scoped reference (any value, sibling scopes included)."""

    def __init__(self, rng, max_depth, wild, fwd=0.0, vpool=None, npool=None):
        self.rng, self.max_depth, self.wild, self.fwd = rng, max_depth, wild, fwd
        self.vpool, self.npool = vpool or VNAMES, npool or NNAMES
        self.vnames: list = []
        self.nnames: list = []
        self.init_of: list = []
        self.dicts: list = []
        self.all_vals: list[int] = []
        self.built_graphs: list = []

    def value(self, name, init_of=None):
        self.vnames.append(name)
        self.init_of.append(init_of)
        self.all_vals.append(len(self.vnames) - 1)
        return len(self.vnames) - 1

    def graph(self, depth, visible, outer_all, n_nodes=None):
        rng = self.rng
        g = len(self.dicts)
        self.dicts.append([])
        ins = [self.value(rng.choice(self.vpool)) for _ in range(rng.choice([0, 1, 1, 2]))]
        d = []
        for k in rng.sample(INAMES, rng.choice([0, 0, 1, 2, 3])):
            if rng.random() < 0.15 and ins and self.init_of[ins[-1]] is None and self.vnames[ins[-1]] not in [x[0] for x in d]:
                v = ins[-1]  # a graph input that is also an initializer
                if not self.vnames[v]:
                    self.vnames[v] = k
                self.init_of[v] = g
                d.append([self.vnames[v], v])
            elif k not in [x[0] for x in d]:
                d.append([k, self.value(k, g)])
        self.dicts[g] = d
        inits = [e[1] for e in d if e[1] not in ins]
        if n_nodes is None:
            n_nodes = rng.choice([0, 1, 2, 2, 3])
        node_outs = [[self.value(rng.choice(self.vpool)) for _ in range(rng.choice([0, 1, 1, 1, 2]))] for _ in range(n_nodes)]
        own_all = ins + inits + [v for o in node_outs for v in o]
        own = ins + inits
        nodes = []
        for k in range(n_nodes):
            cand = visible + own
            inputs = []
            for _ in range(rng.choice([0, 1, 1, 2])):
                r = rng.random()
                if r < 0.1:
                    inputs.append(None)
                elif r < 0.1 + self.wild and self.all_vals:
                    inputs.append(rng.choice(self.all_vals))  # deliberately ill-scoped
                elif r < 0.1 + self.wild + self.fwd and (own_all or outer_all):
                    inputs.append(rng.choice(own_all + outer_all))  # possibly defined later (forward capture)
                elif cand:
                    inputs.append(rng.choice(cand))
                else:
                    inputs.append(None)
            attrs = []
            if depth < self.max_depth and rng.random() < 0.45:
                for _ in range(rng.choice([1, 1, 2])):
                    r = rng.random()
                    if r < 0.05:
                        attrs.append(["ref", None])  # a reference attribute of graph type: no graph to visit
                    elif self.wild and r < 0.1 and self.built_graphs:
                        attrs.append(["g", rng.choice(self.built_graphs)])  # the same Graph object held twice
                    elif r < 0.6:
                        attrs.append(["g", self.graph(depth + 1, visible + own, outer_all + own_all)])
                    else:
                        attrs.append(["gs", [self.graph(depth + 1, visible + own, outer_all + own_all)
                                             for _ in range(rng.choice([0, 1, 2]))]])
            self.nnames.append(rng.choice(self.npool))
            nodes.append({"n": len(self.nnames) - 1, "ins": inputs, "outs": node_outs[k], "attrs": attrs})
            own = own + node_outs[k]
        outs = [rng.choice(own_all) for _ in range(rng.choice([0, 1, 1, 2]))] if own_all else []
        res = {"g": g, "isGraph": True, "ins": ins, "outs": outs, "nodes": nodes}
        self.built_graphs.append(res)
        return res

    def spec(self, n_nodes=None, n_funcs=None, func_nodes=None):
        rng = self.rng
        tops = [self.graph(0, [], [], n_nodes)]
        for _ in range(rng.choice([0, 0, 1, 2]) if n_funcs is None else n_funcs):
            tops.append(self.graph(0, [], [], func_nodes))  # a function: its underlying graph may hold initializers too
        self.built_graphs = []
        return {"vnames": self.vnames, "nnames": self.nnames, "initOf": self.init_of, "dicts": self.dicts, "tops": tops}


def _subgraphs(n):
    for kind, x in n["attrs"]:
        if kind == "g":
            yield x
        elif kind == "gs":
            yield from x


def _lean_graph(g):
    # every graph-like has an initializer dictionary to visit (a Function: the one of its underlying graph)
    return {"g": g["g"], "isGraph": True, "ins": g["ins"], "outs": g["outs"], "nodes": [_lean_node(n) for n in g["nodes"]]}


def _lean_node(n):
    return {"n": n["n"], "ins": n["ins"], "outs": n["outs"], "subs": [_lean_graph(x) for x in _subgraphs(n)]}


def _fix_request(spec):
    return {"m": "names.fix", "vnames": spec["vnames"], "nnames": spec["nnames"], "initOf": spec["initOf"],
            "dicts": spec["dicts"], "tops": [_lean_graph(t) for t in spec["tops"]]}


class _Built:
    """Real IR objects built from a spec."""

    def __init__(self, ir, spec):
        self.ir, self.spec = ir, spec
        nv = len(spec["vnames"])
        self.values = [ir.Value(name=f"__tmp_{i}") for i in range(nv)]
        # backing tensors: by default every initializer has its own tensor carrying its name; a spec may give
        # `constOf` (tensor index per value or None: shared tensors, tensors on plain values), `tnames`, `frozen`
        const_of = spec.get("constOf")
        self.tensors = []
        if const_of is not None:
            self.tensors = [_FrozenTensor(n) if t in spec.get("frozen", ()) else ir.tensor([1.0], name=n)
                            for t, n in enumerate(spec["tnames"])]
        for d in spec["dicts"]:
            for k, v in d:
                # initializers carry a backing tensor whose name must follow the value's name
                if const_of is None:
                    self.values[v] = ir.Value(name=k, const_value=ir.tensor([1.0], name=k))
                else:
                    self.values[v] = ir.Value(name=k, const_value=None if const_of[v] is None else self.tensors[const_of[v]])
        self.nodes = [None] * len(spec["nnames"])
        self.graphs = [None] * len(spec["dicts"])  # the Graph per gid (for a function: its underlying graph)
        tops = [self.build_graph(t) for t in spec["tops"]]
        funcs = [ir.Function("d", f"f{i}", "", graph=g, attributes=[]) for i, g in enumerate(tops[1:])]
        self.model = ir.Model(tops[0], ir_version=10, functions=funcs)
        # names as specified (construction auto-names everything that is None)
        for i, v in enumerate(self.values):
            if spec["initOf"][i] is None:
                v.name = spec["vnames"][i]
        for i, n in enumerate(self.nodes):
            n.name = spec["nnames"][i]
        if const_of is not None:  # tensors of plain values are attached after naming (the setter writes through)
            for i, v in enumerate(self.values):
                if spec["initOf"][i] is None and const_of[i] is not None:
                    v.const_value = self.tensors[const_of[i]]

    def tnames(self):
        return [t.name for t in self.tensors]

    def build_graph(self, g):
        ir = self.ir
        if self.graphs[g["g"]] is not None:  # the same Graph object held by two attributes
            return self.graphs[g["g"]]
        nodes = []
        for n in g["nodes"]:
            attrs = []
            for j, (kind, x) in enumerate(n["attrs"]):
                if kind == "g":
                    attrs.append(ir.AttrGraph(f"a{j}", self.build_graph(x)))
                elif kind == "ref":
                    attrs.append(ir.RefAttr(f"a{j}", "outer_attr", ir.AttributeType.GRAPH))
                else:
                    attrs.append(ir.AttrGraphs(f"a{j}", [self.build_graph(y) for y in x]))
            node = ir.Node("", "Op", [None if v is None else self.values[v] for v in n["ins"]], attrs,
                           outputs=[self.values[v] for v in n["outs"]], name=f"__tmpn_{n['n']}")
            self.nodes[n["n"]] = node
            nodes.append(node)
        inits = [self.values[v] for _, v in self.spec["dicts"][g["g"]]]
        graph = ir.Graph([self.values[v] for v in g["ins"]], [self.values[v] for v in g["outs"]], nodes=nodes,
                         initializers=inits, name=f"g{g['g']}")
        self.graphs[g["g"]] = graph
        return graph

    # ---- observations
    def state(self):
        ir = self.ir
        vid = {id(v): i for i, v in enumerate(self.values)}
        dicts = []
        for g in self.graphs:
            if isinstance(g, ir.Graph):
                dicts.append([[k, vid.get(id(v), -1)] for k, v in g.initializers.items()])
            else:
                dicts.append([])
        init_of = []
        gid = {id(g): i for i, g in enumerate(self.graphs)}
        for v in self.values:
            init_of.append(gid.get(id(v.graph), -1) if v.is_initializer() else None)
        return {"vnames": [v.name for v in self.values], "nnames": [n.name for n in self.nodes],
                "initOf": init_of, "dicts": dicts}

    def const_names_ok(self):
        return all(v.const_value is None or v.const_value.name == v.name for v in self.values)

    def structure(self):
        """everything but names (identity-based), for 'nothing but names changed'"""
        ir = self.ir
        vid = {id(v): i for i, v in enumerate(self.values)}
        nid = {id(n): i for i, n in enumerate(self.nodes)}
        gid = {id(g): i for i, g in enumerate(self.graphs)}
        out = []
        for g in self.graphs:
            out.append(("graph", [vid[id(v)] for v in g.inputs], [vid[id(v)] for v in g.outputs], [nid[id(n)] for n in g],
                        sorted(vid[id(v)] for v in g.initializers.values()) if isinstance(g, ir.Graph) else []))
        for n in self.nodes:
            attrs = []
            for a in n.attributes.values():
                if a.is_ref():
                    attrs.append((a.name, "ref", a.ref_attr_name))
                elif a.type == ir.AttributeType.GRAPH:
                    attrs.append((a.name, "g", gid[id(a.value)]))
                else:
                    attrs.append((a.name, "gs", [gid[id(x)] for x in a.value]))
            out.append(("node", n.op_type, n.domain, [None if v is None else vid[id(v)] for v in n.inputs],
                        [vid[id(v)] for v in n.outputs], attrs, gid.get(id(n.graph), -1)))
        for v in self.values:
            p = v.producer()
            out.append(("value", None if p is None else nid[id(p)], v.index(), v.is_graph_input(), v.is_graph_output(),
                        v.is_initializer(), gid.get(id(v.graph), None), sorted((nid[id(u)], k) for u, k in v.uses()),
                        id(v.const_value)))
        return out


def _scope_lists(spec, dicts_now):
    """Independent restatement of the scoping rule on the spec structure: for every graph the list
    of values that must carry pairwise different names (values recorded in enclosing scopes before
    the graph is entered + the graph's own values) and the list of its nodes; `scoped` says whether
    every value is only ever met where it is visible.  On entering a graph its inputs, outputs,
    initializers and the outputs of its own nodes are recorded."""
    lists, nodelists = [], []
    ok = [True]

    def graph(g, vis, seen):
        vis = list(vis)

        def meet(v):
            if v in seen and v not in vis:
                ok[0] = False
            seen.add(v)
            if v not in vis:
                vis.append(v)

        for v in g["ins"] + g["outs"] + [v for _, v in dicts_now[g["g"]]] + [v for n in g["nodes"] for v in n["outs"]]:
            meet(v)
        for n in g["nodes"]:
            for v in n["ins"] + n["outs"]:
                if v is not None:
                    meet(v)
            for sub in _subgraphs(n):
                graph(sub, vis, seen)
        lists.append(vis)
        nodelists.append([n["n"] for n in g["nodes"]])

    owner = {}
    for i, t in enumerate(spec["tops"]):
        k = len(lists)
        graph(t, [], set())
        for L in lists[k:]:  # a value shared between the main graph and a function / two functions is ill-scoped
            for v in L:
                if owner.setdefault(v, i) != i:
                    ok[0] = False
    return ok[0], lists, nodelists


def _rec_lists(spec, dicts_now):
    """Independent restatement of `recScopes` (no scoping rule): for every graph occurrence the values recorded in the
    enclosing scopes before it was entered followed by the values FIRST met in the graph itself (a value met before -
    wherever - is skipped).  One `seen` set per top-level graph / function."""
    lists = []

    def graph(g, vis, seen):
        vis = list(vis)

        def meet(v):
            if v not in seen:
                seen.add(v)
                vis.append(v)

        for v in g["ins"] + g["outs"] + [v for _, v in dicts_now[g["g"]]] + [v for n in g["nodes"] for v in n["outs"]]:
            meet(v)
        for n in g["nodes"]:
            for v in n["ins"] + n["outs"]:
                if v is not None:
                    meet(v)
            for sub in _subgraphs(n):
                graph(sub, vis, seen)
        lists.append(vis)

    for t in spec["tops"]:
        graph(t, [], set())
    return lists


def _ownership(spec, dicts_now):
    """Ownership view, independent of any traversal order: every graph owns its inputs, outputs, initializers and
    the outputs of its nodes.  Returns (well_owned, [(owned values of G and of all its ancestors)]) where
    well_owned = every value has one owner, every node input is owned by the node's graph or an ancestor of it,
    no graph object occurs twice."""
    owner, ok, groups, seen_graphs = {}, [True], [], set()

    def own(g):
        return g["ins"] + g["outs"] + [v for _, v in dicts_now[g["g"]]] + [v for n in g["nodes"] for v in n["outs"]]

    def claim(g, top):
        if g["g"] in seen_graphs:
            if own(g) or g["nodes"]:  # (an empty graph object held twice owns nothing: harmless)
                ok[0] = False
            return
        seen_graphs.add(g["g"])
        for v in own(g):
            if owner.setdefault(v, (g["g"], top)) != (g["g"], top):
                ok[0] = False
        for n in g["nodes"]:
            for sub in _subgraphs(n):
                claim(sub, top)

    def walk(g, anc, anc_vals):
        mine = anc_vals + [v for v in own(g) if v not in anc_vals]
        groups.append(sorted(set(mine)))
        for n in g["nodes"]:
            for v in n["ins"]:
                if v is not None and (v not in owner or owner[v][0] not in anc + [g["g"]]):
                    ok[0] = False
            for sub in _subgraphs(n):
                walk(sub, anc + [g["g"]], mine)

    for i, t in enumerate(spec["tops"]):
        claim(t, i)
    for t in spec["tops"]:
        walk(t, [], [])
    return ok[0], groups


def _closed(spec):
    """independent restatement of `Closed`: an initializer mentioned under a top-level graph belongs to a Graph
    under that top-level graph"""
    for t in spec["tops"]:
        ment, graphs = set(), set()

        def walk(g):
            graphs.add(g["g"])
            ment.update(g["ins"] + g["outs"])
            for n in g["nodes"]:
                ment.update(v for v in n["ins"] + n["outs"] if v is not None)
                for sub in _subgraphs(n):
                    walk(sub)

        walk(t)
        if any(spec["initOf"][v] is not None and spec["initOf"][v] not in graphs for v in ment):
            return False
    return True


def _truthy(x):
    return bool(x)


def _namefix_oracle(ctx, spec, before, after, struct_before, struct_after, raised, second, case):
    """The postcondition of C15 on the real objects.  Returns the list of (signature, what)."""
    fails = []
    if raised is not None:
        if _closed(spec):
            fails.append((f"NameFixPass:raises:{raised}", "the pass raised on a model whose initializers are keyed by their names"))
        return fails, False, False
    if struct_before != struct_after:
        fails.append(("NameFixPass:structure-changed", "something other than names / initializer keys changed"))
    if not after.pop("const_ok", True):
        fails.append(("NameFixPass:const-tensor-name", "the backing tensor of a renamed initializer kept the old name"))
    scoped, lists, nodelists = _scope_lists(spec, after["dicts"])
    vn, nn = after["vnames"], after["nnames"]
    reach_v = sorted({v for L in lists for v in L})
    reach_n = sorted({n for L in nodelists for n in L})
    if any(not _truthy(vn[v]) for v in reach_v):
        fails.append(("NameFixPass:empty-value-name", "a value has no name after the pass"))
    if any(not _truthy(nn[n]) for n in reach_n):
        fails.append(("NameFixPass:empty-node-name", "a node has no name after the pass"))
    for g, d in enumerate(after["dicts"]):
        if any(vn[v] != k for k, v in d) or sorted(v for _, v in d) != sorted(v for _, v in before["dicts"][g]):
            fails.append(("NameFixPass:initializer-key", "initializers are not keyed by their current names"))
    if after["initOf"] != before["initOf"]:
        fails.append(("NameFixPass:initializer-flag", "is_initializer()/graph of a value changed"))
    for L in nodelists:
        names = [nn[n] for n in L]
        if len(set(names)) != len(names):
            fails.append(("NameFixPass:duplicate-node-name", f"node names {names} in one graph"))
        orig = [before["nnames"][n] for n in L]
        for n in L:
            o = before["nnames"][n]
            if _truthy(o) and orig.count(o) == 1 and nn[n] != o:
                fails.append(("NameFixPass:unique-node-name-changed", f"{o!r} -> {nn[n]!r}"))
        for k, n in enumerate(L):  # C15_first_holder_keeps, nodes: L is in visiting order
            o = before["nnames"][n]
            if _truthy(o) and n not in L[:k]:
                if o not in orig[:k] and nn[n] != o:
                    fails.append(("NameFixPass:first-node-holder-renamed", f"the first node named {o!r} became {nn[n]!r}"))
                if o in orig[:k] and nn[n] == o:
                    fails.append(("NameFixPass:later-node-holder-kept", f"a later node named {o!r} kept the name"))
    if scoped:
        for L in lists:
            names = [vn[v] for v in L]
            if len(set(names)) != len(names):
                fails.append(("NameFixPass:duplicate-value-name", f"value names {names} visible in one graph"))
            orig = [before["vnames"][v] for v in L]
            for k, v in enumerate(L):
                o = before["vnames"][v]
                if _truthy(o) and orig.count(o) == 1 and vn[v] != o:
                    fails.append(("NameFixPass:unique-value-name-changed", f"{o!r} -> {vn[v]!r} among {orig}"))
                if _truthy(o) and o not in orig[:k] and vn[v] != o:  # L is in visiting order (C15_first_holder_keeps)
                    fails.append(("NameFixPass:first-holder-renamed", f"the first value named {o!r} became {vn[v]!r}"))
                if _truthy(o) and o in orig[:k] and v not in L[:k] and vn[v] == o:
                    fails.append(("NameFixPass:later-holder-kept", f"a later value named {o!r} kept the name"))
    # ownership-based uniqueness, independent of traversal order and of the `scoped` restatement: the values owned
    # by a graph and by its enclosing graphs (wherever they are defined: forward captures included) differ pairwise
    well_owned, groups = _ownership(spec, after["dicts"])
    if well_owned:
        for G in groups:
            names = [vn[v] for v in G]
            if len(set(names)) != len(names):
                fails.append(("NameFixPass:duplicate-value-name-owned", f"values owned by a graph and its enclosing graphs: {names}"))
        if not scoped:
            fails.append(("NameFixPass:well-owned-but-not-scoped", "harness inconsistency: ownership rule vs scoping rule"))
    if second is not None and scoped:
        modified2, after2 = second
        if modified2 or after2 != after:
            fails.append(("NameFixPass:not-idempotent", "a second run changed names or reported modified=True"))
    return fails, scoped, well_owned


def _run_one_fix(ir, spec):
    from onnx_ir.passes.common import naming

    b = _Built(ir, spec)
    before, struct_before = b.state(), b.structure()
    raised, modified, second = None, None, None
    try:
        modified = bool(naming.NameFixPass()(b.model).modified)
    except Exception as e:  # noqa: BLE001
        raised = type(e).__name__
    after, struct_after = b.state(), b.structure()
    after["const_ok"] = b.const_names_ok()
    if raised is None:
        try:
            m2 = bool(naming.NameFixPass()(b.model).modified)
            second = (m2, b.state())
        except Exception as e:  # noqa: BLE001
            second = (f"raised {type(e).__name__}", None)
    return before, after, struct_before, struct_after, raised, modified, second


def _check_fix_case(ctx, ir, spec, out, origin):
    case = {"part": "namefix", "spec": spec}
    if _tripped(ctx, "namefix"):
        return
    try:
        with _guard():
            before, after, sb, sa, raised, modified, second = _run_one_fix(ir, spec)
    except _Timeout as e:
        _timed_out(ctx, "namefix", "nontermination:NameFixPass", f"NameFixPass did not return ({e})", case)
        return
    except Exception as e:  # the spec cannot be built as real IR (rejected by constructors)
        ctx.count(f"namefix_unbuildable={type(e).__name__}")
        return
    if before["vnames"] != spec["vnames"] or before["dicts"] != spec["dicts"] or before["initOf"] != spec["initOf"] \
            or before["nnames"] != spec["nnames"]:
        ctx.count("namefix_spec_not_realised")
        return
    fails, scoped, well_owned = _namefix_oracle(ctx, spec, before, after, sb, sa, raised, second, case)
    changed = sum(1 for a, b2 in zip(before["vnames"] + before["nnames"], after["vnames"] + after["nnames"]) if a != b2)
    depth = _depth(spec)
    # how many top-level scopes (main graph, functions) need a fix according to the MODEL (not the implementation)
    need = _tops_needing_fix(spec, out)
    ctx.case(case, nontrivial=changed > 0,
             sample={"part": "namefix", "vnames": spec["vnames"], "nnames": spec["nnames"], "after": after["vnames"]},
             part="namefix", origin=origin, scoped=scoped, well_owned=well_owned, depth=depth, tops=len(spec["tops"]),
             nested_inits=any(d for d in spec["dicts"][1:]), forward_ref=_has_forward(spec),
             values=min(len(spec["vnames"]) // 4 * 4, 24), renamed=min(changed, 8),
             inits=min(sum(len(d) for d in spec["dicts"]), 6), scopes_fixed=min(sum(need), 4),
             funcs_fixed=min(sum(need[1:]), 3), later_func_fixed=bool(len(need) > 2 and any(need[:-1]) and need[-1]))
    for sig, what in fails:
        ctx.fail(sig, what, case)
    # C15_illscoped_values: no scoping rule.  The model's recorded-scope lists against the Python restatement; the
    # conclusion on the model's output (driver) and on the real objects (oracle)
    rec = _rec_lists(spec, spec["dicts"])
    if sorted(sorted(set(L)) for L in rec) != sorted(sorted(set(L)) for L in (out.get("recLists") or [])):
        ctx.disagree("recScopes (Lean) != Python restatement", case, out.get("recLists"), rec)
    if out.get("initsOk") and out.get("closed") and out.get("nodup") and out.get("disjoint"):
        ctx.count("namefix_illscoped_values_hyp=" + str(not out.get("scoped")))
        if not out.get("recPost"):
            ctx.disagree("C15_illscoped_values contradicted by the driver", case, out, None)
        if raised is None:
            for L in rec:
                names = [after["vnames"][v] for v in L]
                if len(set(names)) != len(names) and not any(s0 == "NameFixPass:recorded-duplicate-value-name" for s0, _ in fails):
                    ctx.fail("NameFixPass:recorded-duplicate-value-name",
                             f"values recorded in one scope (no scoping rule needed) carry {names}", case)
    # C15_illscoped_nodes: no scoping rule - hypotheses and conclusion evaluated by the driver
    if out.get("initsOk") and out.get("closed") and out.get("nodup") and out.get("nodeDisjoint"):
        ctx.count("namefix_illscoped_nodes_hyp=" + str(not (out.get("scoped") and out.get("disjoint"))))
        if not out.get("nodesPost"):
            ctx.disagree("C15_illscoped_nodes contradicted by the driver", case, out, None)
    # the hypotheses of the Lean theorems (evaluated by the driver) against their Python restatement
    # The Python restatement `scoped` presupposes tops that share no graph / node (one object under two tops is a
    # generator corner: e.g. a function-body node holding the main graph as an attribute).  Where the driver's TopDisj
    # is false AND the tops of the spec do share an id, the restatement does not apply: counted, not compared.
    def _ids(tr, acc):
        acc.add(("g", tr["g"]))
        for nd in tr["nodes"]:
            acc.add(("n", nd["n"]))
            for kind, sub in nd["attrs"]:
                if kind == "g" and sub is not None:
                    _ids(sub, acc)
                elif kind == "gs":
                    for s1 in sub or []:
                        _ids(s1, acc)
        return acc

    _sets = [_ids(t, set()) for t in spec["tops"]]
    py_disjoint = all(not (_sets[i] & _sets[j]) for i in range(len(_sets)) for j in range(i + 1, len(_sets)))
    if raised is None and not out.get("disjoint") and not py_disjoint:
        ctx.count("namefix_tops_not_disjoint_scoping_not_compared")
    elif raised is None and (out.get("scoped") and out.get("disjoint")) != scoped:
        ctx.disagree("scoping rule: scopedB/disjoint (Lean) != Python restatement", case,
                     {"scoped": out.get("scoped"), "disjoint": out.get("disjoint")}, {"scoped": scoped})
    lean_owned = bool(out.get("wellOwned") and out.get("ownedDisjoint") and out.get("disjoint") and out.get("nodup"))
    if raised is None and lean_owned != well_owned:
        ctx.disagree("ownership rule: wellOwnedB/ownedLists (Lean) != Python restatement", case, lean_owned, well_owned)
    if lean_owned and not out.get("scoped"):
        ctx.disagree("C15_scoped_of_well_owned contradicted by the driver", case, out, None)
    if out.get("closed") != _closed(spec):
        ctx.disagree("Closed (Lean) != Python restatement", case, out.get("closed"), _closed(spec))
    ctx.count("namefix_PassWF=" + str(bool(out.get("scoped") and out.get("disjoint") and out.get("closed") and out.get("nodup"))))
    impl = {"vnames": after["vnames"], "nnames": after["nnames"], "dicts": after["dicts"], "initOf": after["initOf"],
            "modified": modified, "raised": raised is not None}
    model = {k: out.get(k) for k in ("vnames", "nnames", "dicts", "initOf", "modified", "raised")}
    if raised is not None:
        model["modified"] = impl["modified"] = None
    if model != impl and not fails:
        ctx.disagree("names.fix model != NameFixPass", case, model, impl)


def _tops_needing_fix(spec, out):
    """per top-level graph / function: does the model change a name of a value or node under it"""
    vn, nn = out.get("vnames") or spec["vnames"], out.get("nnames") or spec["nnames"]
    res = []
    for t in spec["tops"]:
        vals, nodes, done = set(), set(), set()

        def walk(g):
            if g["g"] in done:
                return
            done.add(g["g"])
            vals.update(g["ins"] + g["outs"] + [v for _, v in spec["dicts"][g["g"]]])
            for n in g["nodes"]:
                nodes.add(n["n"])
                vals.update(v for v in n["ins"] + n["outs"] if v is not None)
                for sub in _subgraphs(n):
                    walk(sub)

        walk(t)
        res.append(any(vn[v] != spec["vnames"][v] for v in vals) or any(nn[n] != spec["nnames"][n] for n in nodes))
    return res


def _depth(spec):
    def dg(g, seen=()):
        if g["g"] in seen:
            return 0
        return 1 + max([0] + [dg(s, seen + (g["g"],)) for n in g["nodes"] for s in _subgraphs(n)])
    return max(dg(t) for t in spec["tops"])


def _has_forward(spec):
    """some node (possibly in a nested graph) uses a value that is produced by a node visited later"""
    order, uses = {}, []

    def walk(g, done):
        if g["g"] in done:
            return
        for n in g["nodes"]:
            for v in n["ins"]:
                if v is not None:
                    uses.append((len(order), v))
            for sub in _subgraphs(n):
                walk(sub, done + (g["g"],))
            for v in n["outs"]:
                order.setdefault(v, len(order))

    for t in spec["tops"]:
        walk(t, ())
    return any(v in order and order[v] >= pos for pos, v in uses)


# main graph + two functions, each with a duplicated value name, a duplicated node name and missing names
MULTI_SPEC = {"vnames": ["t", "t", None, "t", "t", None, "t", "t", None], "nnames": ["n", "n", None, "n", "n", None, "n", "n", None],
              "initOf": [None] * 9, "dicts": [[], [], []],
              "tops": [{"g": g, "isGraph": True, "ins": [], "outs": [], "nodes": [
                  {"n": 3 * g + k, "ins": [], "outs": [3 * g + k], "attrs": []} for k in range(3)]} for g in range(3)]}
D30_SPEC = {"vnames": ["w", "w", "w_1"], "nnames": ["a"], "initOf": [None, 0, 0], "dicts": [[["w", 1], ["w_1", 2]]],
            "tops": [{"g": 0, "isGraph": True, "ins": [], "outs": [0], "nodes": [{"n": 0, "ins": [], "outs": [0], "attrs": []}]}]}
D31_SPEC = {"vnames": ["t", "t", "t_1"], "nnames": ["n", "n", "n_1"], "initOf": [None, None, None], "dicts": [[]],
            "tops": [{"g": 0, "isGraph": True, "ins": [], "outs": [], "nodes": [
                {"n": 0, "ins": [], "outs": [0], "attrs": []}, {"n": 1, "ins": [], "outs": [1], "attrs": []},
                {"n": 2, "ins": [], "outs": [2], "attrs": []}]}]}


# E1 / D221: [A{body: I(x)}, B -> x, C -> x] — the subgraph of A captures B's output, defined later
D221_SPEC = {"vnames": ["a", "x", "x", "i"], "nnames": ["A", "B", "C", "I"], "initOf": [None] * 4, "dicts": [[], []],
             "tops": [{"g": 0, "isGraph": True, "ins": [], "outs": [], "nodes": [
                 {"n": 0, "ins": [], "outs": [0], "attrs": [["g", {"g": 1, "isGraph": True, "ins": [], "outs": [3], "nodes": [
                     {"n": 3, "ins": [1], "outs": [3], "attrs": []}]}]]},
                 {"n": 1, "ins": [], "outs": [1], "attrs": []}, {"n": 2, "ins": [], "outs": [2], "attrs": []}]}]}
# E3: a function whose underlying graph holds an (unused) initializer x next to a node output x
E3_SPEC = {"vnames": ["x", "x", "x_1"], "nnames": ["n"], "initOf": [1, None, 1], "dicts": [[], [["x", 0], ["x_1", 2]]],
           "tops": [{"g": 0, "isGraph": True, "ins": [], "outs": [], "nodes": []},
                    {"g": 1, "isGraph": True, "ins": [], "outs": [1], "nodes": [{"n": 0, "ins": [], "outs": [1], "attrs": []}]}]}
UNICODE_V = ["t", "tä", "名", "名_1", "tä_1", None, "", "t"]
UNICODE_N = ["n", "nö", "節", "節_1", None, ""]


def _custom_generator_case(ctx, ir, spec):
    """A custom NameGenerator is outside the Lean model: the postcondition oracle alone is applied."""
    from onnx_ir.passes.common import naming

    class Gen:
        def generate_node_name(self, node):
            return f"{node.op_type}_node"

        def generate_value_name(self, value):
            return "zz" if not value.name else value.name.upper()

    try:
        b = _Built(ir, spec)
    except Exception:
        return
    before, sb = b.state(), b.structure()
    raised = None
    case = {"part": "namefix-custom-generator", "spec": spec}
    if _tripped(ctx, "namefix-custom"):
        return
    try:
        with _guard():
            try:
                naming.NameFixPass(name_generator=Gen())(b.model)
            except Exception as e:  # noqa: BLE001
                raised = type(e).__name__
    except _Timeout as e:
        _timed_out(ctx, "namefix-custom", "nontermination:NameFixPass(custom generator)", f"NameFixPass did not return ({e})", case)
        return
    after, sa = b.state(), b.structure()
    after["const_ok"] = b.const_names_ok()
    fails, scoped, _ = _namefix_oracle(ctx, spec, before, after, sb, sa, raised, None, case)
    ctx.case(case, nontrivial=True, part="namefix-custom-generator", scoped=scoped)
    for sig, what in fails:
        if "unique-" in sig:
            continue  # which duplicate keeps the name is still required; kept below
        ctx.fail(sig.replace("NameFixPass:", "NameFixPass(custom generator):"), what, case)


# ---- part B+ : NameFixPass with custom generators and backing tensors against the model `names.fixx`

GEN_KINDS = ["simple", "const", "upper", "counter", "optype", "empty"]


class _RecGen:
    """A NameGenerator of the given kind that records every call (kind, object, answer)."""

    def __init__(self, kind, built):
        self.kind, self.calls, self.k = kind, [], 0
        self.vid = {id(v): i for i, v in enumerate(built.values)}
        self.nid = {id(n): i for i, n in enumerate(built.nodes)}

    def _answer(self, is_node, obj):
        name = obj.name
        if self.kind == "simple":
            return name or ("node" if is_node else "v")
        if self.kind == "const":
            return "c"
        if self.kind == "upper":
            return name.upper() if name else "zz"
        if self.kind == "counter":  # stateful: the k-th call answers g<k>
            self.k += 1
            return f"g{self.k}"
        if self.kind == "optype":  # the docstring example of NameFixPass
            return f"custom_node_{obj.op_type}" if is_node else f"custom_value_{obj.type}"
        return ""  # "empty": violates the hypothesis `the generator returns non-empty names`

    def generate_node_name(self, node):
        a = self._answer(True, node)
        self.calls.append([True, self.nid.get(id(node), -1), a])
        return a

    def generate_value_name(self, value):
        a = self._answer(False, value)
        self.calls.append([False, self.vid.get(id(value), -1), a])
        return a


def _x_spec(rng, spec):
    """add a tensor configuration to a spec: own / shared tensors, tensors on plain values, refusing tensors"""
    nv = len(spec["vnames"])
    mode = rng.choice(["own", "own", "shared", "plain", "frozen", "frozen-shared"])
    const_of, tnames = [None] * nv, []
    for i in range(nv):
        has = spec["initOf"][i] is not None or (mode in ("plain", "frozen", "frozen-shared") and spec["vnames"][i] and rng.random() < 0.3)
        if not has:
            continue
        if mode in ("shared", "frozen-shared") and tnames and rng.random() < 0.4:
            const_of[i] = rng.randrange(len(tnames))
        else:
            const_of[i] = len(tnames)
            tnames.append(spec["vnames"][i])
    frozen = [t for t in range(len(tnames)) if mode.startswith("frozen") and rng.random() < 0.35]
    return dict(spec, constOf=const_of, tnames=tnames, frozen=frozen), mode


def _run_one_x(ir, xspec, kind):
    from onnx_ir.passes.common import naming

    b = _Built(ir, xspec)
    gen = _RecGen(kind, b)
    before, struct_before, tbefore = b.state(), b.structure(), b.tnames()
    raised, modified = None, None
    try:
        modified = bool(naming.NameFixPass(name_generator=gen)(b.model).modified)
    except Exception as e:  # noqa: BLE001
        raised = type(e).__name__
    after, struct_after = b.state(), b.structure()
    return b, gen, before, after, struct_before, struct_after, tbefore, b.tnames(), raised, modified


def _x_oracle(spec, kind, before, after, tbefore, tafter, raised, calls=()):
    """independent of the model, in EVERY outcome (also when the pass raised in the middle): initializers keyed by
    their current names, same values, same flags; an unshared backing tensor that carried its value's name still
    does; a tensor none of whose values was renamed keeps its name"""
    fails = []
    vn = after["vnames"]
    for g, d in enumerate(after["dicts"]):
        if any(vn[v] != k or not k for k, v in d) or sorted(v for _, v in d) != sorted(v for _, v in before["dicts"][g]):
            fails.append(("NameFixPass(x):initializer-key", f"graph {g}: initializers not keyed by their current names: {d}"))
    if after["initOf"] != before["initOf"]:
        fails.append(("NameFixPass(x):initializer-flag", "is_initializer()/graph of a value changed"))
    const_of = spec["constOf"]
    for t in range(len(tbefore)):
        users = [i for i, c in enumerate(const_of) if c == t]
        if len(users) == 1 and tbefore[t] == before["vnames"][users[0]] and tafter[t] != vn[users[0]]:
            fails.append(("NameFixPass(x):const-tensor-name", f"tensor {t} carries {tafter[t]!r}, its value {vn[users[0]]!r}"))
        if all(vn[i] == before["vnames"][i] for i in users) and tafter[t] != tbefore[t]:
            fails.append(("NameFixPass(x):const-tensor-touched", f"tensor {t} renamed although none of its values was"))
        if tafter[t] != tbefore[t] and not any(vn[i] == tafter[t] and vn[i] != before["vnames"][i] for i in users):
            fails.append(("NameFixPass(x):const-tensor-stray", f"tensor {t} carries a name that is not the new name of one of its values"))
    # C15_gen_untouched on the real objects: what the generator was never asked about is untouched
    asked_v = {i for is_node, i, _ in calls if not is_node}
    asked_n = {i for is_node, i, _ in calls if is_node}
    for i, (a, b) in enumerate(zip(before["vnames"], vn)):
        if a != b and i not in asked_v:
            fails.append(("NameFixPass(x):renamed-without-asking-generator", f"value {i}: {a!r} -> {b!r}"))
    for i, (a, b) in enumerate(zip(before["nnames"], after["nnames"])):
        if a != b and i not in asked_n:
            fails.append(("NameFixPass(x):renamed-without-asking-generator", f"node {i}: {a!r} -> {b!r}"))
    for t in range(len(tbefore)):
        if tafter[t] != tbefore[t] and not any(c == t and i in asked_v for i, c in enumerate(const_of)):
            fails.append(("NameFixPass(x):untouched-tensor-renamed", f"tensor {t}: none of its values was handed to the generator"))
    return fails


def _run_namefix_x(ctx: Ctx, ir, specs) -> None:
    rng = ctx.rng
    todo = [(D30_SPEC, "simple", "witness"), (D30_SPEC, "const", "witness"), (XRAISE_SPEC, "const", "witness"),
            (XRAISE_SPEC, "simple", "witness"), (D31_SPEC, "empty", "witness"), (D30_SPEC, "empty", "witness")]
    for c in load_corpus("C15"):
        if c.get("part") == "namefix-x":
            todo.append((c["spec"], c["gen"], "corpus"))
    runs = []
    for spec, kind, origin in todo:
        xs = spec if "constOf" in spec else _x_spec(random_for(spec), spec)[0]
        runs.append((xs, kind, origin, "given"))
    for i, (spec, origin) in enumerate(specs[: ctx.pick(1500, 12000)]):
        kind = rng.choice(["simple", "simple"] + GEN_KINDS[1:])
        xs, mode = _x_spec(rng, spec)
        runs.append((xs, kind, origin, mode))
    _exec_x_runs(ctx, ir, runs)


def _exec_x_runs(ctx: Ctx, ir, runs) -> None:
    results, reqs = [], []
    for xs, kind, origin, mode in runs:
        if _tripped(ctx, "namefix-x"):
            continue
        try:
            with _guard():
                res = _run_one_x(ir, xs, kind)
        except _Timeout as e:
            _timed_out(ctx, "namefix-x", f"nontermination:NameFixPass(gen={kind})", f"NameFixPass did not return ({e})",
                       {"part": "namefix-x", "spec": xs, "gen": kind})
            continue
        except Exception as e:  # the spec cannot be built as real IR
            ctx.count(f"namefix_x_unbuildable={type(e).__name__}")
            continue
        b, gen, before = res[0], res[1], res[2]
        if before["vnames"] != xs["vnames"] or before["dicts"] != xs["dicts"] or before["nnames"] != xs["nnames"] \
                or res[6] != xs["tnames"]:
            ctx.count("namefix_x_spec_not_realised")
            continue
        # the generator as the table of its recorded answers (a stateful generator is a table too)
        tv, tn, ambiguous = {}, {}, False
        for is_node, i, a in gen.calls:
            tab = tn if is_node else tv
            if i < 0 or tab.setdefault(i, a) != a:
                ambiguous = True
        if ambiguous:  # the same object met twice with different answers (a graph object held twice)
            ctx.count("namefix_x_ambiguous_table")
            continue
        req = dict(_fix_request(xs), m="names.fixx", constOf=xs["constOf"], tnames=xs["tnames"], frozen=xs["frozen"],
                   gen="simple" if kind == "simple" else {"v": sorted(map(list, tv.items())), "n": sorted(map(list, tn.items()))})
        reqs.append(req)
        results.append((xs, kind, origin, mode, res))
        if kind == "const":  # the closed form of the constant generator must agree with its table
            reqs.append(dict(req, gen={"const": "c"}))
            results.append(None)
    outs = lean_batch_parallel(reqs)
    prev = None
    for item, out in zip(results, outs):
        if item is None:
            if {k: out.get(k) for k in ("vnames", "nnames", "dicts", "raised", "tnames")} != \
                    {k: prev.get(k) for k in ("vnames", "nnames", "dicts", "raised", "tnames")}:
                ctx.disagree("names.fixx: constant generator as a function != as a recorded table", None, out, prev)
            continue
        prev = out
        xs, kind, origin, mode, (b, gen, before, after, sb, sa, tb, ta, raised, modified) = item
        case = {"part": "namefix-x", "spec": xs, "gen": kind}
        froze = raised == "RuntimeError"
        fails = _x_oracle(xs, kind, before, after, tb, ta, raised, gen.calls)
        # hypotheses of C15_gen_post as evaluated by the driver (generator table, PassWF, no refusing backing tensor)
        hyp = bool(out.get("genNonEmpty") and out.get("passWF") and out.get("noFz"))
        backing_frozen = any(c is not None and c in xs["frozen"] for c in xs["constOf"])
        scoped = well_owned = None
        if raised is None and kind != "empty":
            after2 = dict(after)
            f2, scoped, well_owned = _namefix_oracle(ctx, xs, before, after2, sb, sa, None, None, case)
            fails += [(sig.replace("NameFixPass:", f"NameFixPass(gen={kind}):"), what) for sig, what in f2]
        elif raised is not None and not froze and kind != "empty":
            wo, _ = _ownership(xs, after["dicts"])
            if kind == "simple" or wo:
                if _closed(xs):
                    fails.append((f"NameFixPass(gen={kind}):raises:{raised}", "raised without a refusing tensor on a well-owned model"))
            else:
                ctx.count("namefix_x_custom_gen_raise_ill_owned")
        if raised is not None and hyp and not any(s.startswith(f"NameFixPass(gen={kind}):raises") for s, _ in fails):
            fails.append((f"NameFixPass(gen={kind}):raises:{raised}", "raised under the hypotheses of C15_gen_post"))
        if raised is not None and kind == "simple" and not backing_frozen and _closed(xs) \
                and not any(s.startswith("NameFixPass(gen=simple):raises") for s, _ in fails):
            fails.append((f"NameFixPass(gen=simple):raises:{raised}", "the default generator raised without a refusing backing tensor"))
        if sb != sa:
            fails.append(("NameFixPass(x):structure-changed", "something other than names / initializer keys / tensor names changed"))
        changed = sum(1 for a, c in zip(before["vnames"] + before["nnames"], after["vnames"] + after["nnames"]) if a != c)
        shared = len([c for c in xs["constOf"] if c is not None]) > len(xs["tnames"])
        ctx.case(case, nontrivial=changed > 0 or raised is not None,
                 sample={"part": "namefix-x", "gen": kind, "vnames": xs["vnames"], "after": after["vnames"], "raised": raised},
                 part="namefix-x", gen=kind, x_tensors=mode, x_shared=shared, x_raised=raised or "no",
                 x_gen_calls=min(len(gen.calls), 6), x_initsOk=out.get("initsOk"), x_tensor_renamed=tb != ta,
                 x_model_raised=bool(out.get("raised")), x_frozen=bool(xs["frozen"]),
                 x_model_tensor_renamed=out.get("tnames") != xs["tnames"], x_gen_post_hyp=hyp,
                 x_gen_nonempty=bool(out.get("genNonEmpty")), x_passWF=bool(out.get("passWF")), x_noFz=bool(out.get("noFz")),
                 x_untouched_tensor=any(a == b2 for a, b2 in zip(out.get("tnames") or [], xs["tnames"])))
        if hyp and kind != "simple":
            ctx.count("x_gen_post_custom")
        if hyp and not out.get("postOk"):
            ctx.disagree("C15_gen_post contradicted by the driver", case, out, None)
        if not out.get("untouched"):
            ctx.disagree("C15_gen_untouched contradicted by the driver", case, out, None)
        if kind == "simple" and out.get("initsOk") and out.get("closed") and out.get("raised") and not backing_frozen:
            ctx.disagree("C15_gen_default_raises_only_on_refusal contradicted by the driver", case, out, None)
        for sig, what in fails:
            ctx.fail(sig, what, case)
        if not out.get("initsOk"):
            ctx.disagree("names.fixx: a generated world is not keyed by its names (InitsOk false)", case, out, None)
        if not out.get("initsOkAfter"):
            ctx.disagree("C15_gen_ikey_preserved contradicted by the driver", case, out, None)
        impl = {"vnames": after["vnames"], "nnames": after["nnames"], "dicts": after["dicts"], "initOf": after["initOf"],
                "modified": modified, "raised": raised is not None, "tnames": ta,
                "glog": [[bool(k), i] for k, i, _ in gen.calls]}
        model = {k: out.get(k) for k in impl}
        if raised is not None:
            model["modified"] = impl["modified"] = None
        if model != impl and not fails:
            ctx.disagree("names.fixx model != NameFixPass(name_generator=..., backing tensors)", case, model, impl)
        if kind == "simple" and not xs["frozen"]:
            ctx.count("x_refines_checked")
        if kind == "simple" and not xs["frozen"] and not out.get("plainEq"):
            ctx.disagree("C15_gen_refines_default contradicted by the driver (fixModelX simpleGen != fixModel)", case, out, None)


def random_for(spec):
    import random

    return random.Random(repr(sorted(spec.items(), key=lambda kv: kv[0])))


# two sibling subgraphs S1, S2; S2's initializers u "k1", v "k2"; S1 uses u next to its own "k1" (ill-scoped), S2 has an
# input "k2": with a constant generator u becomes "c" in S1's scope, later v becomes "c" in S2's scope -> the setter's
# guard raises; the default generator's counters are global, so it never raises (C15_namefix_total)
XRAISE_SPEC = {"vnames": ["k1", "k1", "k2", "k2", "o"], "nnames": ["A", "I1", "I2"], "initOf": [None, 2, 2, None, None],
               "dicts": [[], [], [["k1", 1], ["k2", 2]]],
               "tops": [{"g": 0, "isGraph": True, "ins": [], "outs": [], "nodes": [
                   {"n": 0, "ins": [], "outs": [4], "attrs": [
                       ["g", {"g": 1, "isGraph": True, "ins": [], "outs": [], "nodes": [{"n": 1, "ins": [1], "outs": [0], "attrs": []}]}],
                       ["g", {"g": 2, "isGraph": True, "ins": [3], "outs": [], "nodes": [{"n": 2, "ins": [], "outs": [], "attrs": []}]}]]}]}]}


def _run_namefix(ctx: Ctx, ir) -> None:
    specs = [(D30_SPEC, "witness"), (D31_SPEC, "witness"), (D221_SPEC, "witness"), (E3_SPEC, "witness"), (MULTI_SPEC, "witness")]
    for c in load_corpus("C15"):
        if c.get("part") == "namefix":
            specs.append((c["spec"], "corpus"))
    rng = ctx.rng
    for i in range(ctx.pick(2500, 30000)):
        depth = rng.choice([0, 1, 1, 2, 2, 3])
        if i % 5 == 0:
            specs.append((_SpecGen(rng, max(depth, 1), wild=0.5, fwd=0.1).spec(), "random-wild"))
        elif i % 5 in (1, 2):
            specs.append((_SpecGen(rng, max(depth, 1), wild=0.0, fwd=0.35).spec(), "random-forward"))
        elif i % 50 == 3:
            # counters >= 10: many duplicates of one base name in one graph
            specs.append((_SpecGen(rng, 0, wild=0.0, vpool=["t", "t", "t", "t_3", None], npool=["n", "n", None]).spec(n_nodes=14),
                          "many-duplicates"))
        elif i % 50 == 4:
            specs.append((_SpecGen(rng, depth, wild=0.0, fwd=0.1, vpool=UNICODE_V, npool=UNICODE_N).spec(), "non-ascii"))
        elif i % 25 == 8:
            # every top-level scope needs fixes: the main graph and 2-3 functions full of duplicates / missing names
            specs.append((_SpecGen(rng, min(depth, 1), wild=0.0, vpool=["t", "t", "t", None, None, "u", "u"],
                                   npool=["n", "n", None, None, "m", "m"]).spec(n_nodes=rng.choice([2, 3]), n_funcs=rng.choice([2, 2, 3]),
                                                                             func_nodes=rng.choice([2, 3])), "multi-scope"))
        else:
            specs.append((_SpecGen(rng, depth, wild=0.0).spec(), "random"))
    outs = lean_batch_parallel([_fix_request(s) for s, _ in specs])
    for (spec, origin), out in zip(specs, outs):
        _check_fix_case(ctx, ir, spec, out, origin)
    for spec, origin in specs[: ctx.pick(300, 3000)]:
        _custom_generator_case(ctx, ir, spec)
    _run_namefix_x(ctx, ir, specs[5:])


# --------------------------------------------------------------------------- part C (rename_values)

KINDS = ["plain", "init0", "init1", "input+init0", "free"]


class _FrozenTensor:
    """A tensor object whose name cannot be assigned (exercises the rollback of rename_values)."""

    def __init__(self, name):
        self._name = name

    @property
    def name(self):
        return self._name

    @name.setter
    def name(self, value):
        raise RuntimeError("this tensor's name is read-only")


def _rename_world(ir, kinds, names, tensors=None, frozen=(), tnames=None):
    """A real two-graph world: value i has kind kinds[i] and name names[i]; tensors[i] = index of its backing
    tensor (shared when equal) or None; `frozen` = tensor indices that refuse a new name."""
    if tensors is None:  # every initializer has its own backing tensor
        tensors, k = [], 0
        for kd in kinds:
            tensors.append(None if kd in ("plain", "free") else k)
            k += kd not in ("plain", "free")
    tobjs = {}
    for i, t in enumerate(tensors):
        if t is not None and t not in tobjs:
            tn = tnames[t] if tnames and t < len(tnames) and tnames[t] is not None else names[i]  # may be out of sync
            tobjs[t] = _FrozenTensor(tn) if t in frozen else ir.tensor([1.0], name=tn)
    values = [ir.Value(name=n, const_value=None if t is None else tobjs[t]) for n, t in zip(names, tensors)]
    plain = [v for v, k in zip(values, kinds) if k == "plain"]
    node = ir.Node("", "Op", [], outputs=plain, name="n")
    g0 = ir.Graph([v for v, k in zip(values, kinds) if k == "input+init0"], [], nodes=[node],
                  initializers=[v for v, k in zip(values, kinds) if k in ("init0", "input+init0")], name="g0")
    g1 = ir.Graph([], [], nodes=[], initializers=[v for v, k in zip(values, kinds) if k == "init1"], name="g1")
    for v, n in zip(plain, names_of(plain, values, names)):
        if v.name != n:
            v.name = n  # construction names unnamed values
    tlist = [tobjs[t] for t in sorted(tobjs)]
    tindex = {t: j for j, t in enumerate(sorted(tobjs))}
    const_of = [None if t is None else tindex[t] for t in tensors]
    return values, [g0, g1], tlist, const_of, sorted(tindex[t] for t in frozen if t in tindex)


def names_of(sub, values, names):
    idx = {id(v): i for i, v in enumerate(values)}
    return [names[idx[id(v)]] for v in sub]


def _rename_state(values, graphs, tlist):
    vid = {id(v): i for i, v in enumerate(values)}
    gid = {id(g): i for i, g in enumerate(graphs)}
    return {"vnames": [v.name for v in values],
            "initOf": [gid.get(id(v.graph), -1) if v.is_initializer() else None for v in values],
            "dicts": [[[k, vid.get(id(v), -1)] for k, v in g.initializers.items()] for g in graphs],
            "tnames": [t.name for t in tlist]}


def _rename_cases(ctx):
    """all assignments over <= n values (exhaustive), then random ones with repeated pairs, shared and
    refusing tensors, values owned by no graph, scalar arguments"""
    import itertools

    nmax = ctx.pick(3, 4)
    for n in range(1, nmax + 1):
        base = ["a", "b", "c", "d"][:n]
        kinds_all = KINDS[:4] if n <= 3 else KINDS[:3]
        targets = [None] + base + ["z", ""]
        for kinds in itertools.product(kinds_all, repeat=n):
            for assign in itertools.product(targets, repeat=n):
                pairs = [[i, t] for i, t in enumerate(assign) if t is not None]
                yield {"kinds": list(kinds), "names": base, "pairs": pairs}, "exhaustive"
    ctx.exhaustive_scopes.append(
        f"rename_values: every assignment of targets from (old names + 'z' + '') to <= {nmax} values x every kind vector "
        + ("over plain/initializer(g0)/initializer(g1)/input+initializer" if nmax <= 3 else
           "over plain/initializer(g0)/initializer(g1)/input+initializer for <= 3 values and over the first three kinds for 4 values"))
    rng = ctx.rng
    for _ in range(ctx.pick(4000, 40000)):
        n = rng.choice([1, 2, 3, 4, 4])
        kinds = [rng.choice(KINDS) for _ in range(n)]
        names = []
        for k in kinds:
            if k in ("plain", "free"):
                names.append(rng.choice(["a", "b", "c", "d", "a", None, ""]))
            else:
                names.append(rng.choice([x for x in ["a", "b", "c", "d", "e", "f"] if x not in names]))
        pairs = [[rng.randrange(n), rng.choice(["a", "b", "c", "d", "z", "", "e"])] for _ in range(rng.choice([1, 2, 3, 4, 5, 6]))]
        rng.shuffle(pairs)
        case = {"kinds": kinds, "names": names, "pairs": pairs}
        if rng.random() < 0.5:  # backing tensors: shared between values, on plain values too, some refusing a new name
            nt = rng.choice([1, 2, 3])
            case["tensors"] = [rng.randrange(nt) if (k not in ("plain", "free") or (nm is not None and rng.random() < 0.4)) else None
                               for k, nm in zip(kinds, names)]
            case["frozen"] = [t for t in range(nt) if rng.random() < 0.25]
            if rng.random() < 0.35:  # tensors whose names are out of sync with their values (const_value= does not rename)
                case["tnames"] = [rng.choice([None, "a", "b", "c", "d", "z", "e"]) for _ in range(nt)]
        if len(pairs) == 1 and rng.random() < 0.5:
            case["scalar"] = True  # rename_values(value, "name") with non-sequence arguments
        yield case, "random"
    # rename sets with a LATER value whose read-only tensor already carries the value's target name (value and tensor
    # out of sync): the refusal must still surface in the undoable phase, before anything is touched
    for _ in range(ctx.pick(300, 3000)):
        n = rng.choice([2, 3, 4])
        kinds = [rng.choice(["init0", "init0", "init1", "plain", "input+init0"]) for _ in range(n)]
        names = ["a", "b", "c", "d"][:n]
        order = list(range(n))
        rng.shuffle(order)
        k = rng.randrange(1, n)          # position (>= 1) of the pair with the refusing tensor
        targets = {}
        perm = names[:]                  # swaps / cycles among the earlier pairs, a fresh target for the refusing one
        rng.shuffle(perm)
        for pos, i in enumerate(order):
            targets[i] = "z" if pos == k else (perm[i] if rng.random() < 0.7 else rng.choice(["e", "f"]) + str(pos))
        victim = order[k]
        tensors = list(range(n))
        if kinds[victim] == "plain" and rng.random() < 0.5:
            kinds[victim] = "init0"
        tn = [names[i] for i in range(n)]
        tn[victim] = "z"                 # the refusing tensor already carries the target; its value does not
        yield {"kinds": kinds, "names": names, "pairs": [[i, targets[i]] for i in order], "tensors": tensors,
               "frozen": [victim], "tnames": tn}, "desync-frozen"


def _check_rename_case(ctx, ir, c, origin, out):
    kinds, names, pairs = c["kinds"], c["names"], c["pairs"]
    case = dict(c, part="rename")
    try:
        values, graphs, tlist, const_of, frozen = _rename_world(ir, kinds, names, c.get("tensors"), c.get("frozen", ()), c.get("tnames"))
    except Exception as e:  # noqa: BLE001
        ctx.count(f"rename_unbuildable={type(e).__name__}")
        return
    before = _rename_state(values, graphs, tlist)
    raised = None
    if _tripped(ctx, "rename"):
        return
    try:
        with _guard():
            try:
                if c.get("scalar"):
                    ir.convenience.rename_values(values[pairs[0][0]], pairs[0][1])
                else:
                    ir.convenience.rename_values([values[i] for i, _ in pairs], [t for _, t in pairs])
            except Exception as e:  # noqa: BLE001
                raised = type(e).__name__
    except _Timeout as e:
        _timed_out(ctx, "rename", "nontermination:rename_values", f"rename_values did not return ({e})", case)
        return
    after = _rename_state(values, graphs, tlist)
    fails = []
    if raised is not None:
        if after != before:  # names, dictionaries, flags AND tensor names (the rollback)
            fails.append((f"rename_values:partial-after-{raised}", f"raised but state changed: {before} -> {after}"))
    else:
        want = dict(enumerate(before["vnames"]))
        for i, t in pairs:
            want[i] = t
        if after["vnames"] != [want[i] for i in range(len(values))]:
            fails.append(("rename_values:assignment-not-applied", f"{after['vnames']} != requested"))
        if after["initOf"] != before["initOf"]:
            fails.append(("rename_values:initializer-flag", "is_initializer()/graph changed"))
        for d0, d1 in zip(before["dicts"], after["dicts"]):
            if sorted(v for _, v in d0) != sorted(v for _, v in d1) or any(after["vnames"][v] != k for k, v in d1):
                fails.append(("rename_values:initializer-key", "initializers not keyed by their names / a value lost"))
        for t in range(len(tlist)):  # a backing tensor follows the values it backs
            targets = {want[i] for i, ct in enumerate(const_of) if ct == t and want[i] != before["vnames"][i]}
            if len(targets) == 1 and after["tnames"][t] != next(iter(targets)):
                fails.append(("rename_values:const-tensor-name", "the backing tensor of a renamed value kept the old name"))
            if not targets and after["tnames"][t] != before["tnames"][t]:
                fails.append(("rename_values:const-tensor-name", "a tensor that backs no renamed value changed its name"))
    moved = sum(1 for a, b in zip(before["vnames"], after["vnames"]) if a != b)
    ctx.case(case, nontrivial=bool(pairs), part="rename", origin=origin, raised=raised is not None,
             n_values=len(kinds), n_pairs=min(len(pairs), 6), n_inits=sum(1 for k in kinds if k not in ("plain", "free")),
             permutes=moved >= 2, shared_tensor=len([t for t in const_of if t is not None]) > len(tlist),
             frozen_tensor=bool(frozen), rollback=bool(raised == "RuntimeError"), scalar_args=bool(c.get("scalar")),
             free_value="free" in kinds,
             # a LATER pair whose refusing tensor already carries the target while its value does not (out of sync)
             desync_frozen_target=any(k > 0 and const_of[i] is not None and const_of[i] in frozen
                                      and before["tnames"][const_of[i]] == t and before["vnames"][i] != t
                                      for k, (i, t) in enumerate(pairs)),
             desync_tensor=any(ct is not None and before["tnames"][ct] != before["vnames"][i] for i, ct in enumerate(const_of)))
    for sig, what in fails:
        ctx.fail(sig, what, case)
    model = {k: out.get(k) for k in ("vnames", "initOf", "dicts", "tnames", "raised")}
    impl = dict(after, raised=raised is not None)
    if model != impl and not fails:
        ctx.disagree("names.rename model != convenience.rename_values", case, model, impl)
    if not frozen and (out.get("raised0") != out.get("raised") or (not out.get("raised") and out.get("vnames0") != out.get("vnames"))):
        ctx.disagree("renameValues (tensor-free model) != renameValuesT", case, out.get("vnames0"), out.get("vnames"))


def _rename_request(ir, c):
    kinds, names = c["kinds"], c["names"]
    _, _, tlist, const_of, frozen = _rename_world(ir, kinds, names, c.get("tensors"), c.get("frozen", ()), c.get("tnames"))
    init_of = [None if k in ("plain", "free") else (1 if k == "init1" else 0) for k in kinds]
    dicts = [[[n, i] for i, (k, n) in enumerate(zip(kinds, names)) if k in ("init0", "input+init0")],
             [[n, i] for i, (k, n) in enumerate(zip(kinds, names)) if k == "init1"]]
    return {"m": "names.rename", "vnames": names, "initOf": init_of, "dicts": dicts, "pairs": c["pairs"],
            "constOf": const_of, "tnames": [t.name for t in tlist], "frozen": frozen}


def _run_rename(ctx: Ctx, ir) -> None:
    cases = list(_rename_cases(ctx))
    for c in load_corpus("C15"):
        if c.get("part") == "rename":
            cases.append(({k: v for k, v in c.items() if k not in ("part", "note")}, "corpus"))
    outs = lean_batch_parallel([_rename_request(ir, c) for c, _ in cases])
    for (c, origin), out in zip(cases, outs):
        _check_rename_case(ctx, ir, c, origin, out)


# required buckets of the input distribution (quick tier; thorough has >= 10x): an empty / thin bucket means the
# generators no longer reach what the evidence claims -> infrastructure error, not a silent pass
FLOORS = {
    "part=authority": 1000, "authority_op=in-append": 100, "authority_op=out-append": 100, "authority_op=init-add": 100,
    "authority_op=init-set": 100, "authority_op=set-value": 150, "authority_op=set-node": 100, "authority_op=readd": 100,
    "authority_op=node-graph": 150, "authority_op=clone": 20, "via_function=True": 80, "counter_ge_10=True": 100,
    "part=namefix": 1800, "scoped=False": 150, "forward_ref=True": 250, "nested_inits=True": 600,
    "origin=many-duplicates": 20, "origin=non-ascii": 20, "part=namefix-custom-generator": 150,
    "part=namefix-x": 1200, "gen=const": 120, "gen=counter": 120, "gen=upper": 120, "gen=optype": 120, "gen=empty": 120,
    "x_model_raised=True": 100, "x_frozen=True": 250, "x_shared=True": 200, "x_model_tensor_renamed=True": 400,
    "x_refines_checked": 200,
    "part=rename": 15000, "rollback=True": 30, "shared_tensor=True": 300, "scalar_args=True": 100, "free_value=True": 500,
    "permutes=True": 2000, "raised=True": 3000, "raised=False": 3000,
    # two or more top-level scopes needing fixes, incl. >= 2 functions (the model says so); a later function needing
    # a fix after an earlier scope did
    "scopes_fixed=3": 30, "funcs_fixed=2": 30, "later_func_fixed=True": 60, "origin=multi-scope": 60,
    # rename sets with a later value whose read-only tensor already carries the target name
    "desync_frozen_target=True": 250, "desync_tensor=True": 600,
    # C15_gen_post: hypotheses hold, custom generator
    "x_gen_post_hyp=True": 400, "x_gen_post_custom": 200, "namefix_illscoped_nodes_hyp=True": 100,
    "namefix_illscoped_values_hyp=True": 40,
}


def _check_floors(ctx):
    from harness.common import Infra

    drops = {k: v for k, v in ctx.dist.items() if k.startswith(("namefix_unbuildable", "namefix_spec_not_realised",
                                                                 "authority_clone_rejected", "authority_implicit_attach",
                                                                 "namefix_x_unbuildable", "namefix_x_spec_not_realised",
                                                                 "namefix_x_ambiguous_table"))}
    ctx.extra["dropped_cases"] = drops
    ctx.extra["coverage_floors"] = FLOORS
    if ctx.dist.get("namefix_spec_not_realised", 0) or ctx.dist.get("namefix_x_spec_not_realised", 0):
        raise Infra(f"{ctx.dist.get('namefix_spec_not_realised', 0) + ctx.dist.get('namefix_x_spec_not_realised', 0)} "
                    "generated models could not be realised as specified")
    thin = {k: ctx.dist.get(k, 0) for k, f in FLOORS.items() if ctx.dist.get(k, 0) < f}
    if any(n >= _NONTERM_MAX for n in _nonterm.values()):
        ctx.extra["streams_cut_after_nontermination"] = dict(_nonterm)  # failures are reported; floors are moot
        return
    if thin:
        raise Infra(f"coverage floor not reached: {thin} (floors {({k: FLOORS[k] for k in thin})})")


def run(ctx: Ctx) -> None:
    import onnx_ir as ir

    ctx.rule = (
        "a case is one history (authority), one model (NameFixPass) or one rename assignment; distinct by the "
        "canonical op list / model / assignment; non-trivial = at least one generated or changed name"
    )
    _run_authority(ctx, ir)
    _run_namefix(ctx, ir)
    _run_rename(ctx, ir)
    _check_floors(ctx)


def replay(ctx: Ctx, obj: dict) -> None:
    import onnx_ir as ir

    case = obj.get("case") or {}
    if isinstance(case, dict) and case.get("part") == "namefix":
        out = lean_batch_parallel([_fix_request(case["spec"])])[0]
        _check_fix_case(ctx, ir, case["spec"], out, "replay")
    elif isinstance(case, dict) and case.get("part") == "namefix-x":
        _exec_x_runs(ctx, ir, [(case["spec"], case["gen"], "replay", "given")])
    elif isinstance(case, dict) and case.get("part") == "authority":
        _replay_authority(ctx, ir, case["script"])
    elif isinstance(case, dict) and case.get("part") == "rename":
        out = lean_batch_parallel([_rename_request(ir, case)])[0]
        _check_rename_case(ctx, ir, case, "replay", out)
    else:
        run(ctx)

"""C18 — region extraction and capture analysis are exact (DESIGN.md section 5, C18).

Correspondence (model `IrVerif.Extract`, driver commands extract.*):
  * `onnx_ir.convenience.extract` on graphs / functions (with and without initializers) / views / nested graphs
    x cuts (by object and by name) vs `extract` of the model: raised-or-not, which raise statement, inputs,
    outputs, node list (order), initializer set, rewired boundary inputs of the result;
  * `_find_subgraph_bounded_by_values` directly (arbitrary parent graph) vs `findSubgraph`;
  * `_collect_all_external_values` vs `externalValues`; `create_value_mapping(include_subgraphs=False)` vs
    `valueMapping`; `analyze_implicit_usage` vs `analyze`.
The model's world is *observed from the real objects* (names, producer(), .graph, is_initializer(), node
inputs/outputs and the attribute list with each attribute's kind: reference / GRAPH / GRAPHS / other — the
model's `attrBodies` decides which graphs that gives), never taken from the generator's description.  The
driver also evaluates the decidable hypotheses of the theorems on every case (histogram keys hyp_*).

Round 3 streams: `byname` (few names, many clashes: one name on an initializer, a graph input and node values,
empty / None / missing names; `extract.resolve` compares lookup, precedence class and candidate list with the
real dict and an independent reading of the documented precedence), `views` (GraphView sources whose node list
is a slice, a non-contiguous subset, a list with repeated nodes, a shuffled list), `deep` (nesting depth 4..6
through GRAPH attributes and members of GRAPHS attributes, reference and plain attributes in between;
analyze_implicit_usage on every graph and on the Function object), `necessity` (the counterexamples of the
C18_*_needs_* theorems built on the real code: extract must be loud where a hypothesis fails).

Follow-up round: the model's pipeline is `extractO` (clone stage `cloneGO` with the ownership checks of the
clone's Graph(...) constructors; `extractOF` = the same after the proposed fix D460, chosen by probing the real
code once: request field `d460`).  Streams `ownership` (views whose boundary contains, by object, values that a
nested graph lists or defines) and `captured` (regions of a nested graph that reads enclosing values directly,
the captured values given by object / by name: D460).  Every cut that passes the argument checks carries the
instance of C18_extract_succeeds_iff / C18_extract_owned / C18_own_pass (decidable hypotheses `regionHypB`,
`ownStaticB`, `nrGB`; both sides of the equivalence), compared with the model's AND the real outcome, and the
instance of C18_clone_stage_C13_exact: the driver lays the view handed to the clone stage out as a heap of C13's
model and runs C13's scope walker on it - it must return / raise a clear error exactly when `cloneGO` does
(histogram clone_stage_vs_C13_walker).

Property oracle (independent of the model, on the real objects): a brute-force least fixed point from a
structural reading (no back pointers) gives the needed values/nodes/initializers and whether a required value
is uncovered; the result must have exactly those nodes in the original order, exactly those initializers,
share no object with the source (extended identity walk), be structurally the source's nodes, never make a
consumer read a recomputed boundary input, pass onnx.checker when the source does, and — for the evaluable op
set — `onnx.reference.ReferenceEvaluator` on the extracted graph must return the source's values at the
outputs (two input assignments) and the region's function of its inputs under perturbed boundary values
(independent interpreter).  The region search alone is checked on sorted and unsorted sources.  Implicit usage
is compared with a brute-force free-variable computation.

Independence clause, strengthened: stream `types` (gen_typed: values of Sequence / Optional / nested / sparse types
with denotations at every level, nodes in the style of SequenceAt / SequenceInsert / OptionalGetElement / SequenceMap
/ If, cuts in the middle at such values).  The identity walk descends into the `elem_type` objects nested in a type,
and `check_edit_independence` rebuilds the model, extracts the same cut, edits one side (dtype / denotation / shape[i] /
metadata, then type / shape replaced) and compares a deep snapshot (harness/c13.py `snapshot`) of the other side, in
both directions.
"""
from __future__ import annotations

import itertools
import json
import random

import numpy as np

import subprocess

from harness.common import Ctx, Infra, Part, load_corpus, pmap

P = "IrVerif.Extract."
THEOREMS = [
    P + "C18_nodes_exact",
    P + "C18_nodes_exact_free",
    P + "C18_values_exact",
    P + "C18_order",
    P + "C18_inits",
    P + "C18_raises_iff",
    P + "C18_external_free",
    P + "C18_eval",
    P + "C18_cover_of_clone",
    P + "C18_raises_of_uncovered",
    P + "C18_extract_eval",
    P + "C18_extract_unbounded_iff",
    P + "C18_captures_keys",
    P + "C18_captures_complete",
    P + "C18_captures_sound",
    P + "C18_independent",
    # round 3
    P + "C18_by_name_resolves",
    P + "C18_by_name_missing",
    P + "C18_order_view",
    P + "C18_nodes_exact_source",
    P + "C18_order_source",
    P + "C18_inits_source",
    P + "C18_eval_strong",
    P + "C18_extract_eval_strong",
    P + "C18_source_of_C01",
    P + "C18_eval_needs_sorted",
    P + "C18_eval_needs_closed",
    P + "C18_extract_eval_needs_scope",
    P + "C18_captures_exact",
    P + "C18_captures_any_root",
    P + "C18_attrs_bodies",
    # follow-up round
    P + "C18_clone_succeeds",
    P + "C18_extract_succeeds_iff",
    P + "C18_extract_owned",
    P + "C18_clone_stage_C13",
    P + "C18_extract_clone_C13",
    P + "C18_source_of_C01_nested",
    P + "C18_captures_needs_scoped",
    P + "C18_extract_D460",
    P + "C18_own_pass",
    P + "C18_extractO_succeeds_iff",
    P + "C18_clone_stage_C13_exact",
]
ASSUMPTIONS = [
    "Python sets are modelled as lists (iteration order of a set is hash order in Python, list order in the "
    "model); the theorems characterise the visited node/value/initializer sets exactly, so the result does "
    "not depend on that order; visited_values is internal state (C18_values_exact) and is tied to the code "
    "only through the results it determines",
    "the model transcribes the code after the fix: commits D34 (analyze_implicit_usage skips the analysed "
    "root), D47 (_collect_all_external_values collects every value captured from outside the nested graph), "
    "D152 (reference attributes of graph type hold no graph: observed as 'no body') and D153 (a boundary input "
    "that an extracted node produces again is rewired to the graph input: `rewired`, compared with the result)",
    "structural notions (FreeOf, DefInG, lexical free variables of the semantics) are independent of the "
    "`.graph` back pointers; the theorems that relate them to the code assume consistent back pointers "
    "(BackPtrOK), closed and well scoped nested graphs (BodiesOK), a single-assignment sorted source with "
    "consistent producer() pointers that produces no initializer (SourceOK), scoping of uses by owner "
    "(scopedGB) and distinct initializer names; every one of these is a decidable predicate evaluated by the "
    "driver on every generated case and the share of cases satisfying them is in the histogram (hyp_*)",
    "C18_independent is C13's fresh/closed/pure theorems instantiated at the call extract makes "
    "(GraphView.clone, allow_outer_scope_values=False); the D153 post-processing edits only objects of the "
    "result (C13_frame); the C18 harness compares the identity sets on the real objects (values, nodes, "
    "graphs, shape/type/metadata objects, graph-valued Attr objects, attribute containers, sharding-spec "
    "values); tensors and plain immutable Attr objects are shared by design; type objects are compared at EVERY nesting "
    "level (the elem_type objects inside Sequence / Optional types; stream types generates regions whose boundary "
    "inputs, initializers and node outputs carry such types), and on a fresh build of the model the oracle edits one "
    "side after the extraction (Value.dtype, the denotation of the type object at every level, shape[i] and dimension "
    "denotations, metadata_props / meta / doc_string of graphs, nodes and values, then Value.type / Value.shape "
    "replaced) and compares harness/c13.py's deep snapshot of the other side before and after, in both directions: "
    "every successful cut of the streams types / replay / necessity, the first two successful cuts of every other "
    "check_model call (histogram edit_oracle:*)",
    "a GraphView passed as graph-like may list its nodes in any order, a subset of them, or a node several "
    "times (node_index is a dict comprehension: the last position counts; C18_order_view / C18_order_source); "
    "boundary values given by object to a view may be values that a nested graph lists or defines: the ownership "
    "checks of the clone's Graph(...) constructors are modelled (cloneGO: generation of the clone a key maps to, "
    "clones owned by finished graphs; Err.cloneOwned) and compared on every run (stream ownership); the property "
    "oracle treats such cuts as correspondence only (a value of a nested scope is not a boundary of the region)",
    "the theorems about a returned view are stated for `extract` (pipeline without the constructor checks); "
    "C18_extract_owned transfers them to `extractO`, the pipeline the driver runs and the code implements "
    "(extractO returns => extract returns the same view; extractO returns iff extract returns and the ownership "
    "checks pass; other errors coincide); C18_own_pass gives a static sufficient condition (ownStaticB, share "
    "hyp_own_pass) and C18_extractO_succeeds_iff the outcome table of extractO",
    "C18_clone_stage_C13 / C18_extract_clone_C13 relate cloneGO to C13's scope walker and heap-level cloner for "
    "every C13 heap that represents the view (RepG), is regular (RegG) and has no re-bound node output (nrG, "
    "decidable: share hyp_clone_stage_C13; false on the D153 shapes where C13's walker makes no claim); the "
    "representation relation is Lean-only (like ofKernel): C13's own correspondence ties its heap model and "
    "walker to the real cloner, C18's ties cloneGO to the outcome of the real extract",
    "D460 (known finding): a boundary INPUT given by object that a node of the target graph reads directly from an "
    "enclosing graph is refused ('does not belong') although it covers a required value and the same value by "
    "name is accepted; the oracle reports it (extract:sub:byobject-captured-input-rejected); the model follows "
    "the code under test (extractO before, extractOF after the fix; C18_extract_D460 relates them)",
    "C18_source_of_C01_nested: for C01 kernel worlds with the graphs their node attributes hold (ofKernelN, "
    "Lean-only embedding; back pointer = the Value.graph property) consistent back pointers and closedness of "
    "every unfolded tree follow from Kernel.WF + KClosed (every graph output defined at the top level of its "
    "graph; necessary: a nested graph returning an outer value owns it - observed on the real objects in stream "
    "necessity); scoping of uses by owner is not implied and is necessary (C18_captures_needs_scoped, shape "
    "reader-above-owner rebuilt on the real code: the real analysis reports the non-free value)",
    "by-name resolution is modelled and proved (C18_by_name_resolves: lookups of create_value_mapping(graph, "
    "include_subgraphs=False) = first pair in the order initializer dict, graph inputs, node inputs then "
    "outputs in node order; the unique-names clause has the decidable hypothesis namesUniqueB, share in "
    "hyp_names_unique); the initializer dict is observed (keys as they are), not derived from value names",
    "hypotheses of the evaluation theorems after round 3: 'no initializer is produced' and 'distinct initializer "
    "names' are discharged (C18_eval_strong, C18_extract_eval_strong); duplicate-free node list, producer "
    "pointers consistent in both directions, covered captures and scoping follow from the C01 kernel invariant "
    "for graphs whose nodes hold no subgraph (C18_source_of_C01; the embedding ofKernel drops graph attributes and is Lean-only, C01's own "
    "correspondence ties the kernel to the code); topological order, closed nested graphs and the scoping "
    "hypothesis are necessary (C18_eval_needs_sorted, C18_eval_needs_closed, C18_extract_eval_needs_scope) and "
    "their counterexamples are rebuilt on the real code on every run (stream necessity: extract raises for the "
    "first two shapes and for a nested graph that is itself unsorted; it returns for the ill-scoped third one, "
    "whose source is not valid ONNX).  Follow-up round: consistent .graph back pointers on nested graphs are "
    "derived from C01 + closedness (C18_source_of_C01_nested) and scoping of uses by owner is shown necessary "
    "(C18_captures_needs_scoped); distinct identities of nested graphs (uniqueGidsB) and acyclic nesting stay "
    "plain decidable hypotheses",
    "the converse of C18_raises_of_uncovered is proved (C18_clone_succeeds, C18_extract_succeeds_iff: under "
    "RegionHyp - sorted single-assignment source, covered captures, scoping of required values, named and "
    "distinctly named initializers; share hyp_succeeds_iff - extract returns exactly when the arguments pass, "
    "the first output has a graph, every required value is covered and every required node is listed); the "
    "Err.initNoName branch is unreachable through the public API (an initializer cannot be nameless since D07) "
    "and is never exercised",
    "ReferenceEvaluator and onnx.checker are external oracles; evaluation is compared only on the evaluable op "
    "set (Add Sub Mul Neg Abs Identity Clip Greater Less Not Where If + a two-output custom op), with two input "
    "assignments per model and with perturbed values at boundary inputs cut in the middle (expected values from "
    "an independent interpreter of that op set on the source objects)",
    "exception kinds are compared via class, cause chain and the fixed part of the message (which raise "
    "statement fired), including calls that combine several error causes",
]


def lean_batch(requests: list[dict]) -> list[dict]:
    """common.lean_batch, retried while the driver executable is being relinked by a concurrent build"""
    import time

    from harness import common

    for attempt in range(40):
        try:
            return common.lean_batch(requests)
        except (Infra, OSError) as e:
            # the executable is missing / being replaced by a concurrent build: wait; a driver that ran and
            # failed (rc != 0, wrong number of answers) is deterministic: retry once, then report
            missing = isinstance(e, OSError) or "not built" in str(e)
            transient = missing or ("rc=" in str(e) and attempt < 1)
            if not transient or attempt == 39:
                if isinstance(e, OSError):
                    raise Infra(f"model driver not runnable: {e}") from e
                raise
            time.sleep(3)
    raise Infra("unreachable")


# --------------------------------------------------------------------------- building real objects


def _ir():
    import onnx_ir as ir

    return ir


def build_type(t: dict):
    """t = {"wrap": [[2|3, denotation]...] (2 = Sequence, 3 = Optional, outermost first), "leaf": 0 tensor | 1 sparse
    tensor, "dtype": n, "denot": s} (the description harness/c13.py uses); every call makes new objects"""
    ir = _ir()
    leaf_cls = ir.TensorType if t["leaf"] == 0 else ir.SparseTensorType
    ty = leaf_cls(ir.DataType(t["dtype"]), denotation=t.get("denot"))
    for k, dn in reversed(t["wrap"]):
        ty = (ir.SequenceType if k == 2 else ir.OptionalType)(ty, denotation=dn)
    return ty


def build(spec: dict):
    """spec -> real IR objects.  Returns dict with vals, nodes, graphs (index = id), root, target."""
    ir = _ir()
    vals = []
    for i, v in enumerate(spec["vals"]):
        t = v.get("t")
        if v.get("ty") is not None:
            # stream `types`: (nested) Sequence / Optional / sparse types, denotations, other dtypes
            ty = build_type(v["ty"])
            sh = v.get("shape", [1] if not v["ty"]["wrap"] else None)
            shape = None if sh is None else ir.Shape(sh, denotations=v.get("shape_denots"))
        else:
            # one type object per value (never shared inside the source: editing one value must not retype another)
            ty = ir.TensorType(ir.DataType.FLOAT) if t == "f" else ir.TensorType(ir.DataType.BOOL) if t == "b" else None
            shape = ir.Shape([1]) if t in ("f", "b") else None
        val = ir.Value(name=v.get("name"), type=ty, shape=shape)
        if v.get("init"):
            arr = np.array([v.get("data", 1.0)], dtype=np.float32 if t != "b" else np.bool_)
            val.const_value = ir.tensor(arr, name=v.get("name") or "")
        val.metadata_props["vid"] = str(i)
        vals.append(val)
    nodes: dict[int, object] = {}
    graphs: dict[int, object] = {}

    def mk_graph(gs: dict):
        ns = [mk_node(n) for n in gs["nodes"]]
        g = ir.Graph(
            [vals[i] for i in gs["inputs"]],
            [vals[i] for i in gs["outputs"]],
            nodes=ns,
            initializers=[vals[i] for i in gs["inits"]],
            name=f"g{gs['g']}",
            opset_imports={"": 18, "verif": 1},
        )
        g.metadata_props["gid"] = str(gs["g"])
        graphs[gs["g"]] = g
        return g

    def mk_node(ns: dict):
        attrs = []
        for b in ns.get("bodies", []):
            if b[0] == "ref":
                attrs.append(ir.RefAttr(b[1], b[2], ir.AttributeType.GRAPH if b[3] == "g" else ir.AttributeType.GRAPHS))
            elif b[0] == "x":
                attrs.append(ir.AttrInt64(b[1], 1))  # an attribute of another type: no graph to follow
            elif b[0] == "g":
                attrs.append(ir.AttrGraph(b[1], mk_graph(b[2])))
            else:
                attrs.append(ir.AttrGraphs(b[1], [mk_graph(x) for x in b[2]]))
        n = ir.Node(
            ns.get("dom", ""),
            ns["op"],
            [None if i is None else vals[i] for i in ns["ins"]],
            attrs,
            outputs=[vals[i] for i in ns["outs"]],
            name=f"n{ns['n']}",
        )
        n.metadata_props["nid"] = str(ns["n"])
        nodes[ns["n"]] = n
        return n

    root = mk_graph(spec["root"])
    tk = spec["target"]
    kind = tk["kind"]
    if kind == "graph":
        target = root
    elif kind == "function":
        target = ir.Function("verif", "fn", "", graph=root, attributes=[])
    elif kind == "sub":
        target = graphs[tk["gid"]]
    elif kind == "view":
        target = ir.GraphView(
            [vals[i] for i in tk["inputs"]],
            [vals[i] for i in tk["outputs"]],
            nodes=[nodes[i] for i in tk["nodes"]],
            initializers=[vals[i] for i in tk["inits"]],
            name="view",
            opset_imports={"": 18, "verif": 1},
        )
    else:
        raise ValueError(kind)
    return {"vals": vals, "nodes": nodes, "graphs": graphs, "root": root, "target": target, "kind": kind}


class Obs:
    """Observation of the real objects as the model's world (JSON)."""

    def __init__(self, objs: dict):
        ir = _ir()
        self.ir = ir
        self.objs = objs
        self.vid = {id(v): i for i, v in enumerate(objs["vals"])}
        self.nid = {id(n): i for i, n in objs["nodes"].items()}
        self.gid = {id(g): i for i, g in objs["graphs"].items()}
        nmax = max(objs["nodes"].keys(), default=-1) + 1
        self.vals_j = []
        for v in objs["vals"]:
            p = v.producer()
            g = v.graph
            self.vals_j.append(
                [v.name or "", None if p is None else self.nid[id(p)], None if g is None else self.gid[id(g)], bool(v.is_initializer())]
            )
        self.nodes_j = [self.node_j(objs["nodes"][i]) if i in objs["nodes"] else {"i": [], "o": [], "a": []} for i in range(nmax)]

    def v(self, val):
        return None if val is None else self.vid[id(val)]

    def bodies(self, node):
        ir = self.ir
        out = []
        for attr in node.attributes.values():
            if attr.is_ref():
                continue  # a reference attribute of graph type holds no graph (D152)
            if attr.type == ir.AttributeType.GRAPH:
                out.append(attr.as_graph())
            elif attr.type == ir.AttributeType.GRAPHS:
                out.extend(attr.as_graphs())
        return out

    def attrs_j(self, node) -> list:
        """the attribute list as the code reads it: reference attribute (whatever its declared type), GRAPH,
        GRAPHS, anything else — the model (`attrBodies`) decides what that means"""
        ir = self.ir
        out = []
        for attr in node.attributes.values():
            if attr.is_ref():
                out.append(["ref"])
            elif attr.type == ir.AttributeType.GRAPH:
                out.append(["g", self.graph_j(attr.as_graph())])
            elif attr.type == ir.AttributeType.GRAPHS:
                out.append(["gs", [self.graph_j(g) for g in attr.as_graphs()]])
            else:
                out.append(["x"])
        return out

    def node_j(self, node) -> dict:
        return {
            "i": [self.v(x) for x in node.inputs],
            "o": [self.v(x) for x in node.outputs],
            "a": self.attrs_j(node),
        }

    def graph_j(self, g) -> dict:
        return {
            "g": self.gid[id(g)],
            "i": [self.v(x) for x in g.inputs],
            "w": [self.v(x) for x in g.initializers.values()],
            "o": [self.v(x) for x in g.outputs],
            "n": [self.node_j(n) for n in g],
        }

    def world(self) -> dict:
        return {"vals": self.vals_j, "nodes": self.nodes_j}

    def target_j(self) -> dict:
        ir = self.ir
        t = self.objs["target"]
        kind = self.objs["kind"]
        graph = t.graph if isinstance(t, ir.Function) else t
        return {
            "kind": {"graph": "graph", "sub": "graph", "function": "function", "view": "view"}[kind],
            "gid": None if kind == "view" else self.gid[id(graph)],
            "inputs": [self.v(x) for x in graph.inputs],
            "inits": [[k, self.v(x)] for k, x in graph.initializers.items()],
            "nodes": [self.nid[id(n)] for n in t],
        }


# --------------------------------------------------------------------------- canonical result of the real extract


def tag_v(val):
    return None if val is None else int(val.metadata_props.get("vid", "-1"))


def canon_result(r) -> dict:
    return {
        "r": "ok",
        "inputs": [tag_v(v) for v in r.inputs],
        "outputs": [tag_v(v) for v in r.outputs],
        "nodes": [int(n.metadata_props.get("nid", "-1")) for n in r],
        "inits": sorted(tag_v(v) for v in r.initializers.values()),
        # boundary inputs that an extracted node produces again (D153: rewired to the graph input)
        "rewired": sorted({tag_v(o) for n in r for o in n.outputs} & {tag_v(v) for v in r.inputs}),
    }


def struct_node(obs_bodies, node):
    return [
        node.domain,
        node.op_type,
        [tag_v(x) for x in node.inputs],
        [tag_v(x) for x in node.outputs],
        [struct_graph(obs_bodies, g) for g in obs_bodies(node)],
    ]


def struct_graph(obs_bodies, g):
    return [
        g.metadata_props.get("gid"),
        [tag_v(x) for x in g.inputs],
        sorted(tag_v(x) for x in g.initializers.values()),
        [tag_v(x) for x in g.outputs],
        [struct_node(obs_bodies, n) for n in g],
    ]


_DATATYPE = None


def type_objects(t) -> list:
    """a type object and every type object nested in it (`elem_type` of Sequence / Optional types, any depth;
    the `elem_type` of a tensor type is a DataType, not an object of the graph)"""
    global _DATATYPE
    if _DATATYPE is None:
        _DATATYPE = _ir().DataType
    out = []
    while t is not None and not isinstance(t, _DATATYPE) and len(out) < 64:
        out.append(t)
        t = getattr(t, "elem_type", None)
    return out


def all_object_ids(obs: Obs, graph, acc: set, shared_ok: dict | None = None, kinds: dict | None = None) -> None:
    """identities of everything the graph holds at any depth: graphs, nodes, values, their shape / type /
    metadata objects, graph-valued Attr objects and the attribute containers, sharding-spec values.
    `shared_ok` collects the objects that are shared by design (tensors, plain immutable Attr objects)."""

    def value(v):
        acc.add(id(v))
        for o in (v.shape, v._metadata_props, v._metadata):
            if o is not None:
                acc.add(id(o))
        # the type object AND every type object nested in it (Sequence / Optional element types, any depth)
        for depth, t in enumerate(type_objects(v.type)):
            acc.add(id(t))
            if kinds is not None:
                kinds[id(t)] = "type object" if depth == 0 else f"nested element-type object (depth {depth})"
        if shared_ok is not None and v.const_value is not None:
            shared_ok.setdefault("tensor", set()).add(id(v.const_value))

    acc.add(id(graph))
    for o in (getattr(graph, "_metadata_props", None), getattr(graph, "_metadata", None)):
        if o is not None:
            acc.add(id(o))
    for v in itertools.chain(graph.inputs, graph.outputs, graph.initializers.values()):
        value(v)
    for n in graph:
        acc.add(id(n))
        acc.add(id(n.attributes))
        for o in (n._metadata_props, n._metadata):
            if o is not None:
                acc.add(id(o))
        for v in itertools.chain(n.inputs, n.outputs):
            if v is not None:
                value(v)
        for cfg in n.device_configurations or ():
            acc.add(id(cfg))
            for sp in getattr(cfg, "sharding_specs", ()) or ():
                acc.add(id(sp))
                if getattr(sp, "value", None) is not None:
                    acc.add(id(sp.value))
        for attr in n.attributes.values():
            graphish = (not attr.is_ref()) and attr.type in (obs.ir.AttributeType.GRAPH, obs.ir.AttributeType.GRAPHS)
            if graphish:
                acc.add(id(attr))
            elif shared_ok is not None:
                shared_ok.setdefault("plain_attr", set()).add(id(attr))
        for b in obs.bodies(n):
            all_object_ids(obs, b, acc, shared_ok, kinds)


# --------------------------------------------------------------------------- brute-force specification (independent)


class Brute:
    """Independent, structural reading of the real objects (does not use Value.graph / producer())."""

    def __init__(self, obs: Obs):
        self.obs = obs
        objs = obs.objs
        self.def_graph: dict[int, int] = {}  # id(value) -> id(graph) that defines it (input/initializer/node output)
        self.producer: dict[int, object] = {}  # id(value) -> node having it among its outputs
        self.owner: dict[int, int] = {}  # id(node) -> id(graph) whose node list holds it
        for g in objs["graphs"].values():
            for v in itertools.chain(g.inputs, g.initializers.values()):
                self.def_graph.setdefault(id(v), id(g))
            for n in g:
                self.owner[id(n)] = id(g)
                for v in n.outputs:
                    self.def_graph.setdefault(id(v), id(g))
                    self.producer.setdefault(id(v), n)

    def used_inside(self, g) -> list:
        out = []
        for n in g:
            out.extend(v for v in n.inputs if v is not None)
            for b in self.obs.bodies(n):
                out.extend(self.used_inside(b))
        return out

    def defined_inside(self, g) -> set:
        s = {id(v) for v in itertools.chain(g.inputs, g.initializers.values())}
        for n in g:
            s.update(id(v) for v in n.outputs)
            for b in self.obs.bodies(n):
                s |= self.defined_inside(b)
        return s

    def free_of_node(self, n) -> list:
        out = []
        for b in self.obs.bodies(n):
            d = self.defined_inside(b)
            out.extend(v for v in self.used_inside(b) if id(v) not in d)
        return out

    def region(self, target_nodes: list, ins: list, outs: list):
        """least set of needed values; returns (need values, needed nodes, uncovered values)"""
        inset = {id(v) for v in ins}
        need: dict[int, object] = {id(v): v for v in outs if id(v) not in inset}
        nodes: dict[int, object] = {}
        changed = True
        while changed:
            changed = False
            for v in list(need.values()):
                n = self.producer.get(id(v))
                if n is None or id(n) in nodes:
                    continue
                nodes[id(n)] = n
                changed = True
                for u in itertools.chain((x for x in n.inputs if x is not None), self.free_of_node(n)):
                    if id(u) not in inset and id(u) not in need:
                        need[id(u)] = u
        uncovered = [v for v in need.values() if id(v) not in self.producer and not v.is_initializer()]
        return need, nodes, uncovered


# --------------------------------------------------------------------------- evaluation oracle

_TWO = None


def new_ops():
    global _TWO
    if _TWO is None:
        from onnx.reference.op_run import OpRun

        class Two(OpRun):
            op_domain = "verif"

            def _run(self, x):  # type: ignore[override]
                return (x + np.float32(1), x * np.float32(2))

        _TWO = Two
    return [_TWO]


def evaluate(graph_like, feeds: dict, want: list[str]):
    """ReferenceEvaluator on a serialized graph; extra outputs are added on the proto (not on the IR)."""
    import onnx
    from onnx.reference import ReferenceEvaluator

    ir = _ir()
    gp = ir.serde.serialize_graph(graph_like)
    have = {o.name for o in gp.output}
    del gp.output[:]
    for nm in want:
        gp.output.append(onnx.ValueInfoProto(name=nm))
    del have
    mp = onnx.helper.make_model(gp, opset_imports=[onnx.helper.make_opsetid("", 18), onnx.helper.make_opsetid("verif", 1)], ir_version=9)
    sess = ReferenceEvaluator(mp, new_ops=new_ops())
    res = sess.run(None, feeds)
    return dict(zip(want, res))


def bits(a) -> str:
    a = np.asarray(a)
    return f"{a.dtype}:{a.shape}:{a.tobytes().hex()}"


# --------------------------------------------------------------------------- one model x many cuts


_D460 = None


def d460_fixed() -> bool:
    """does the code under test accept a by-object boundary INPUT that a node of the target graph reads directly
    from an enclosing graph (proposed fix D460)?  Probed once on the real code; the model driver runs the matching
    pipeline (`extractOF` when fixed, `extractO` otherwise), so applying the fix needs no change of the model."""
    global _D460
    if _D460 is None:
        ir = _ir()
        from onnx_ir.convenience import extract

        def V(n):
            return ir.Value(name=n, type=ir.TensorType(ir.DataType.FLOAT), shape=ir.Shape([1]))

        x, i, y, z = V("x"), V("i"), V("y"), V("z")
        m = ir.Node("", "Add", [x, i], outputs=[y], name="m")
        g1 = ir.Graph([i], [y], nodes=[m], name="g1", opset_imports={"": 18})
        n0 = ir.Node("verif", "Op", [x], [ir.AttrGraph("body", g1)], outputs=[z], name="n0")
        ir.Graph([x], [z], nodes=[n0], name="g0", opset_imports={"": 18, "verif": 1})
        try:
            extract(g1, [x, i], [y])
            _D460 = True
        except ValueError:
            _D460 = False
    return _D460


def resolve_real(objs, arg):
    return arg if isinstance(arg, str) else objs["vals"][arg]


def run_real(objs, ins, outs):
    from onnx_ir.convenience import extract

    try:
        r = extract(objs["target"], [resolve_real(objs, a) for a in ins], [resolve_real(objs, a) for a in outs])
    except Exception as e:  # noqa: BLE001
        return None, {"r": "raised", "py": type(e).__name__, "kind": error_kind(e)}
    return r, canon_result(r)


def error_kind(e: BaseException) -> str:
    """which raise statement fired (the model's `Err` constructors), from the exception class, its cause
    chain and the fixed part of the message"""
    msg = str(e)
    if isinstance(e, AssertionError):
        return "noParent"
    if isinstance(e, KeyError):
        return "sortKey"
    if isinstance(e, RuntimeError):
        c = e
        while c.__cause__ is not None:
            c = c.__cause__
        if isinstance(c, ValueError) and any(k in str(c) for k in (
                "is already owned by a different graph", "is already an output of a different graph",
                "is already an initializer of a different graph", "is produced by a node and cannot be")):
            return "cloneOwned"  # the Graph(...) constructor of the clone refused a value (ownership)
        return "cloneOutput" if isinstance(c, KeyError) else "cloneOuter" if isinstance(c, ValueError) else "clone?" + type(c).__name__
    if isinstance(e, ValueError):
        for key, kind in (("does not belong", "notOwned"), ("not found in the graph", "nameNotFound"),
                          ("At least one output", "noOutputs"), ("not properly bounded", "unbounded"),
                          ("Initializer must have a name", "initNoName")):
            if key in msg:
                return kind
    return "?" + type(e).__name__


def source_values(spec, objs, obs, k: int = 0):
    """values of every top-level value of the root graph under input assignment number `k` (evaluable specs):
    k = 0 the generated data, k = 1 floats negated and shifted, bools flipped (so that a condition computed by
    Greater/Less/Not usually takes the other branch).  Inputs that have a default (initializer) are not fed."""
    root = objs["root"]
    names = []
    for v in itertools.chain(root.inputs, root.initializers.values()):
        names.append(v.name)
    for n in root:
        names.extend(v.name for v in n.outputs)
    names = list(dict.fromkeys(names))
    feeds = {}
    for v in root.inputs:
        if v.is_initializer():
            continue
        sv = spec["vals"][obs.v(v)]
        if sv["t"] == "b":
            b = bool(sv.get("data", 1))
            feeds[v.name] = np.array([b if k == 0 else not b], dtype=np.bool_)
        else:
            x = sv.get("data", 1.0)
            feeds[v.name] = np.array([x if k == 0 else -x - 0.5], dtype=np.float32)
    return evaluate(root, feeds, names)


F32 = np.float32


def interp_region(obs, nodes: list, env: dict, frozen: set) -> None:
    """independent mini-interpreter of the evaluable op set on the *source* objects: runs `nodes` in order in
    `env` (id(value) -> array); a value in `frozen` (a boundary input) is never overwritten"""
    for n in nodes:
        a = [None if v is None else env[id(v)] for v in n.inputs]
        op = n.op_type
        if op == "Add":
            outs = [a[0] + a[1]]
        elif op == "Sub":
            outs = [a[0] - a[1]]
        elif op == "Mul":
            outs = [a[0] * a[1]]
        elif op == "Neg":
            outs = [-a[0]]
        elif op == "Abs":
            outs = [np.abs(a[0])]
        elif op == "Identity":
            outs = [a[0]]
        elif op == "Clip":
            x = a[0]
            if len(a) > 1 and a[1] is not None:
                x = np.maximum(x, a[1])
            if len(a) > 2 and a[2] is not None:
                x = np.minimum(x, a[2])
            outs = [x]
        elif op == "Two":
            outs = [a[0] + F32(1), a[0] * F32(2)]
        elif op == "Greater":
            outs = [a[0] > a[1]]
        elif op == "Less":
            outs = [a[0] < a[1]]
        elif op == "Not":
            outs = [np.logical_not(a[0])]
        elif op == "Where":
            outs = [np.where(a[0], a[1], a[2])]
        elif op == "If":
            branch = n.attributes["then_branch" if bool(a[0].reshape(-1)[0]) else "else_branch"].as_graph()
            for w in branch.initializers.values():
                env[id(w)] = w.const_value.numpy()
            interp_region(obs, list(branch), env, frozen)
            outs = [env[id(v)] for v in branch.outputs]
        else:
            raise NotImplementedError(op)
        for v, o in zip(n.outputs, outs):
            if id(v) not in frozen:
                env[id(v)] = np.asarray(o)


def checker_verdict(graph) -> str | None:
    """None when onnx.checker accepts the graph (wrapped in a model), else the message"""
    import onnx

    ir = _ir()
    try:
        mp = ir.serde.serialize_model(ir.Model(graph, ir_version=9))
        onnx.checker.check_model(mp, full_check=False)
    except Exception as e:  # noqa: BLE001
        return f"{type(e).__name__}: {e}"
    return None


def check_model(part, spec: dict, cuts: list, tag: str):
    """Run all `cuts` = [(ins, outs)] of one built model against model and oracle.
    Generator: yields the model requests, is sent the model's answers (see `drive`)."""
    objs = build(spec)
    obs = Obs(objs)
    ir = obs.ir
    world = obs.world()
    tj = obs.target_j()
    req = {"m": "extract.runmany", **world, "target": tj, "cuts": [[i, o] for i, o in cuts], "d460": d460_fixed()}
    outs_model = (yield [req])[0]
    if "err" in outs_model:
        part.disagree("model driver rejected the request", {"spec": spec}, outs_model, None)
        return
    outs_model = outs_model["r"]
    brute = Brute(obs)
    src_ids: set = set()
    src_shared: dict = {}
    all_object_ids(obs, objs["root"], src_ids, src_shared)
    src_ids.update(id(v) for v in objs["vals"])
    target = objs["target"]
    tnodes = list(target)
    tgraph = target.graph if isinstance(target, ir.Function) else target
    evaluable = bool(spec.get("evaluable")) and objs["kind"] in ("graph", "function", "view") and spec.get("sorted", True)
    depth = spec_depth(spec["root"])
    ev = {"src": {}, "usable": True, "source_valid": None}
    wf = spec.get("wellformed", True)
    edit_checked = 0
    for (ins, outs), mres in zip(cuts, outs_model):
        case = {"spec": spec, "ins": ins, "outs": outs}
        r, ires = run_real(objs, ins, outs)
        mcmp = {k: mres.get(k) for k in (("r", "py", "kind") if mres["r"] == "raised" else ("r", "inputs", "outputs", "nodes", "inits", "rewired"))}
        if mres["r"] == "raised":
            mcmp["kind"] = mres.get("kind", "").rsplit(".", 1)[-1]
        byname = any(isinstance(a, str) for a in ins + outs)
        part.case(
            [tag, spec["vals"], spec["root"], spec["target"], ins, outs],
            nontrivial=(len(ires.get("nodes", [])) >= 1) if ires["r"] == "ok"
            else ires.get("kind") in ("unbounded", "sortKey", "cloneOuter", "cloneOutput", "cloneOwned"),
            sample={"target": spec["target"]["kind"], "ins": ins, "outs": outs, "impl": ires},
            stream=tag,
            kind=objs["kind"],
            outcome=ires["r"] + (":" + mres.get("kind", "") if mres["r"] == "raised" else ""),
            byname=byname,
            nnodes=min(len(ires.get("nodes", [])), 6) if ires["r"] == "ok" else "-",
            depth=depth,
            shape=("sorted" if spec.get("sorted", True) else "unsorted"),
            viewshape=spec["target"].get("shape", "-"),
        )
        if mcmp != ires:
            part.disagree("extract: model != implementation", case, mres, ires)
        if mres["r"] == "ok" and isinstance(mres.get("hyp"), dict):
            h = mres["hyp"]
            part.count("hyp_extract_eval:" + ("all" if all(h.values()) else "missing:" + "+".join(k for k, v in h.items() if not v)))
            h2 = {k: v for k, v in h.items() if k != "names"}  # C18_extract_eval_strong needs no distinct names
            part.count("hyp_extract_eval_strong:" + ("all" if all(h2.values()) else "missing:" + "+".join(k for k, v in h2.items() if not v)))
        iff = mres.get("iff")
        if isinstance(iff, dict):
            # instance of C18_extract_succeeds_iff (on `extract`, the pipeline without the constructor's ownership
            # checks) and of C18_extract_owned, against the model AND against the real outcome
            part.count("hyp_succeeds_iff:" + ("all" if iff["hyp"] else "missing"))
            rhs = bool(iff["covered"] and iff["needed"])
            if iff["hyp"]:
                part.count("succeeds_iff:" + ("returns" if rhs else "raises"))
                if iff["plain"] != rhs:
                    part.disagree("C18_extract_succeeds_iff fails on the model", case, mres, iff)
                owned = mres["r"] == "raised" and mres.get("kind", "").endswith("cloneOwned")
                if not owned and (ires["r"] == "ok") != rhs:
                    part.disagree("C18_extract_succeeds_iff: the real extract returns / raises against the covered-and-needed verdict", case, iff, ires)
            if iff.get("own") is not None:
                # hypothesis of C18_own_pass (static: no value listed by two graphs of the view's tree) and its instance
                part.count("hyp_own_pass:" + ("all" if iff["own"] else "missing"))
                if iff["own"] and mres["r"] != "ok":
                    part.disagree("C18_own_pass fails on the model (static hypothesis holds, extractO raised)", case, mres, iff)
                if iff["own"] and iff["hyp"] and ires["r"] != "ok":
                    part.disagree("C18_extractO_succeeds_iff: hypotheses hold, region covered, the real extract raised", case, iff, ires)
            if iff.get("c13") is not None:
                # instance of C18_clone_stage_C13_exact: the view handed to the clone stage as a heap of C13's model
                # (built by the driver), C13's scope walker against cloneGO - both returning or both raising
                part.count("clone_stage_vs_C13_walker:" + iff["c13"])
                if iff["c13"].startswith("disagree"):
                    part.disagree("C18_clone_stage_C13_exact: cloneGO and C13's scope walker differ on the view as a heap", case, mres, iff)
            if mres["r"] == "ok" and not iff["plain"]:
                part.disagree("C18_extract_owned fails on the model (extractO returned, extract raised)", case, mres, iff)
        if mres["r"] == "ok" and "nr" in mres:
            # decidable hypothesis of C18_clone_stage_C13 (no node output is re-bound; false on the D153 shapes)
            part.count("hyp_clone_stage_C13:" + ("all" if mres["nr"] else "missing:rebinds"))
        if mres["r"] == "ok":
            # instance of C18_order_source evaluated by the driver: must hold on every successful cut
            if mres.get("orderOK") is not True:
                part.disagree("extract: the model's node list is not the filtered last occurrences of the source list", case, mres, ires)
            if mres.get("dupNodes"):
                part.count("ok_from_view_with_repeated_nodes")
        # ---------------- oracle (independent of the model)
        # resolve names the way a user would: first value with that name in inputs/initializers/nodes order
        try:
            ins_v = [oracle_resolve(objs, tgraph, tnodes, a) for a in ins]
            outs_v = [oracle_resolve(objs, tgraph, tnodes, a) for a in outs]
        except KeyError:
            if ires["r"] != "raised":
                part.fail("extract:unknown-name-accepted", "a name not present in the graph was accepted", case)
            continue
        byobj = [objs["vals"][a] for a in ins + outs if not isinstance(a, str)]
        if objs["kind"] != "view":
            # D460: a value of an ENCLOSING graph that a node of the target graph reads directly is a legitimate
            # boundary input (the same value given by name is accepted and gives the right region); any other
            # value that the target graph does not define must be refused
            direct = {id(x) for n in tnodes for x in n.inputs if x is not None}
            byobj_in = [objs["vals"][a] for a in ins if not isinstance(a, str)]
            byobj_out = [objs["vals"][a] for a in outs if not isinstance(a, str)]
            captured_in = [v for v in byobj_in if brute.def_graph.get(id(v)) != id(tgraph) and id(v) in direct]
            foreign = [v for v in byobj_in if brute.def_graph.get(id(v)) != id(tgraph) and id(v) not in direct]
            foreign += [v for v in byobj_out if brute.def_graph.get(id(v)) != id(tgraph)]
            if foreign:
                if ires["r"] != "raised":
                    part.fail("extract:foreign-value-accepted", "a value of another graph was accepted", case)
                continue
            if captured_in:
                part.count("byobject_captured_input:" + (ires.get("kind", "?") if ires["r"] == "raised" else "ok"))
                if ires["r"] == "raised" and ires.get("kind") == "notOwned":
                    byname_ok = None
                    if all(v.name for v in byobj_in + byobj_out):
                        # the same cut with every value given by name
                        _, alt = run_real(objs, [a if isinstance(a, str) else objs["vals"][a].name for a in ins],
                                          [a if isinstance(a, str) else objs["vals"][a].name for a in outs])
                        byname_ok = alt["r"] == "ok"
                    part.fail(
                        "extract:sub:byobject-captured-input-rejected",
                        "a value of an enclosing graph that a node of the target graph reads directly was given BY OBJECT as "
                        "boundary input and refused ('does not belong'), although it covers a required value"
                        + (" and the same cut given by name returns the region" if byname_ok else ""),
                        {**case, "impl": ires, "same_cut_by_name_returns": byname_ok},
                    )
                    continue
        elif any(brute.def_graph.get(id(v)) != id(objs["root"]) for v in byobj):
            # a boundary value of a view that is defined inside a nested graph: not a value of the region's scope;
            # the clone's Graph constructor refuses it when a nested graph lists it (model: cloneGO / cloneOwned);
            # correspondence only
            part.count("view_boundary_value_from_nested_graph:" + (ires.get("kind", "?") if ires["r"] == "raised" else "ok"))
            continue
        if not outs_v:
            if ires["r"] != "raised":
                part.fail("extract:no-outputs-accepted", "empty outputs accepted", case)
            continue
        if not wf:
            continue  # deliberately ill-scoped models: correspondence only
        need, nodes, uncovered = brute.region(tnodes, ins_v, outs_v)
        foreign = [n for n in nodes.values() if all(n is not t for t in tnodes)]
        expect_raise = bool(uncovered) or bool(foreign)
        sig_kind = objs["kind"]
        if expect_raise:
            if ires["r"] != "raised":
                part.fail(
                    f"extract:{sig_kind}:uncovered-not-raised",
                    "a required non-initializer value is not covered by the inputs but extract returned a graph",
                    {**case, "uncovered": [obs.v(v) for v in uncovered], "impl": ires},
                )
            continue
        if ires["r"] == "raised" and not spec.get("sorted", True):
            part.count("unsorted_raised:" + ires.get("kind", "?"))
            continue  # the clone documents that it needs a sorted source; raising is loud, not wrong
        if ires["r"] == "raised":
            outer_init = [v for v in need.values() if v.is_initializer() and brute.def_graph.get(id(v)) != id(tgraph)]
            sig = f"extract:{sig_kind}:bounded-but-raised" + (":outer-initializer" if outer_init else "")
            part.fail(sig, "the region is properly bounded (every required value is covered) but extract raised " + ires["py"], {**case, "impl": ires})
            continue
        if any(brute.free_of_node(n) for n in nodes.values()):
            part.count("ok_with_needed_nested_capture")
        if any(v.is_initializer() and v.is_graph_input() for v in need.values()):
            part.count("ok_needs_input_with_default_not_in_boundary")
        # exact node set, original order
        exp_nodes = [obs.nid[id(n)] for n in last_occurrences(tnodes) if id(n) in nodes]
        if ires["nodes"] != exp_nodes:
            part.fail(f"extract:{sig_kind}:nodes", "extracted nodes != needed nodes in original order", {**case, "expected": exp_nodes, "impl": ires})
        if byname:
            part.count("ok_byname")
        exp_inits = {obs.v(v) for v in need.values() if v.is_initializer()}
        if not isinstance(target, ir.Function):
            exp_inits |= {obs.v(v) for v in ins_v if v.is_initializer()}
        if ires["inits"] != sorted(exp_inits):
            part.fail(f"extract:{sig_kind}:inits", "initializers of the result != needed initializers", {**case, "expected": sorted(exp_inits), "impl": ires})
        if ires["inputs"] != [obs.v(v) for v in ins_v] or ires["outputs"] != [obs.v(v) for v in outs_v]:
            part.fail(f"extract:{sig_kind}:boundary", "inputs/outputs of the result != requested boundary", {**case, "impl": ires})
        # independence + structure
        res_ids: set = set()
        res_shared: dict = {}
        res_kinds: dict = {}
        all_object_ids(obs, r, res_ids, res_shared, res_kinds)
        shared = res_ids & src_ids
        if res_shared.get("plain_attr", set()) & src_shared.get("plain_attr", set()):
            part.count("shared_by_design:plain_attr_objects")
        if res_shared.get("tensor", set()) & src_shared.get("tensor", set()):
            part.count("shared_by_design:tensors")
        if shared:
            skinds = sorted({res_kinds.get(i, "other object") for i in shared})
            only_nested = all(k.startswith("nested") for k in skinds)
            part.fail(f"extract:{sig_kind}:shares-object" + (":nested-type" if only_nested else ""),
                      "the result refers to an object of the source: " + ", ".join(skinds),
                      {**case, "n_shared": len(shared), "shared_kinds": skinds})
        # independence under edits: rebuild, extract again, edit one side (dtype / denotation at every nesting
        # level / shape[i] / metadata / then the type and shape objects replaced), deep-snapshot the other side
        if tag in EDIT_STREAMS or edit_checked < EDIT_PER_MODEL:
            edit_checked += 1
            check_edit_independence(part, spec, ins, outs, case, sig_kind)
        for rn in r:
            sn = objs["nodes"].get(int(rn.metadata_props.get("nid", "-1")))
            if sn is None or struct_node(obs.bodies, rn) != struct_node(obs.bodies, sn):
                part.fail(f"extract:{sig_kind}:structure", "a node of the result differs from its source node", {**case, "node": rn.name})
                break
        # a boundary input that an extracted node produces again must not be what the consumers read
        in_tags = {tag_v(v): v for v in r.inputs}
        for rn in r:
            for o in rn.outputs:
                t = tag_v(o)
                if t in in_tags and o is not in_tags[t] and (o.uses() or o.is_graph_output()):
                    part.fail(
                        f"extract:{sig_kind}:boundary-input-recomputed",
                        "a declared boundary input is produced again by an extracted node and consumers read the recomputed value",
                        {**case, "value": t, "impl": ires},
                    )
                    break
        nodup_boundary = len(set(map(id, ins_v))) == len(ins_v) and len(set(map(id, outs_v))) == len(outs_v)
        # validity: a checker-valid source must give a checker-valid result
        if evaluable and nodup_boundary and ev["source_valid"] is not False:
            if ev["source_valid"] is None:
                ev["source_valid"] = checker_verdict(objs["root"]) is None
                part.count("source_checker_valid" if ev["source_valid"] else "source_checker_invalid")
            if ev["source_valid"]:
                msg = checker_verdict(r)
                part.count("result_checked")
                if msg is not None:
                    ssa = "single static assignment" in msg
                    part.fail(
                        f"extract:{sig_kind}:checker-rejects-result" + (":non-ssa" if ssa else ""),
                        "onnx.checker accepts the source but rejects the extracted graph",
                        {**case, "checker": msg[:300], "impl": ires},
                    )
        # evaluation: two input assignments; then perturbed values at boundary inputs cut in the middle
        if evaluable and ev["usable"]:
            for k in (0, 1):
                if k not in ev["src"]:
                    try:
                        ev["src"][k] = source_values(spec, objs, obs, k)
                    except Exception as e:  # noqa: BLE001
                        ev["usable"] = False
                        part.count("eval_source_failed:" + type(e).__name__)
                        break
                sv = ev["src"][k]
                feeds = {v.name: sv[v.name] for v in r.inputs}
                want = [v.name for v in r.outputs]
                try:
                    got = evaluate(r, feeds, want)
                except Exception as e:  # noqa: BLE001
                    part.fail(
                        f"extract:{sig_kind}:eval-raises",
                        "the reference evaluator runs the source but raises on the extracted graph",
                        {**case, "feed": k, "error": f"{type(e).__name__}: {e}"[:300]},
                    )
                    break
                bad = [nm for nm in want if bits(got[nm]) != bits(sv[nm])]
                if bad:
                    part.fail(
                        f"extract:{sig_kind}:eval",
                        "extracted graph evaluates to a different value than the source",
                        {**case, "feed": k, "output": bad[0], "got": bits(got[bad[0]]), "source": bits(sv[bad[0]])},
                    )
                    break
                part.count("evaluated")
                # perturb the boundary inputs that the source computes (cuts in the middle): the result must be
                # the region's function of its declared inputs (independent interpreter on the source objects)
                mid = [v for v in ins_v if id(v) in brute.producer]
                if mid and nodup_boundary:
                    try:
                        env = {}
                        for v in ins_v:
                            x = sv[v.name]
                            if id(v) in brute.producer:
                                x = np.logical_not(x) if x.dtype == np.bool_ else x + F32(7)
                            env[id(v)] = x
                        frozen = set(env)
                        for w in objs["vals"]:
                            if w.is_initializer() and id(w) not in env:
                                env[id(w)] = w.const_value.numpy()
                        interp_region(obs, [n for n in last_occurrences(tnodes) if id(n) in nodes], env, frozen)
                        feeds2 = {v.name: env[id(v)] for v in ins_v}
                        got2 = evaluate(r, feeds2, want)
                        bad = [o for o, nm in zip(outs_v, want) if bits(got2[nm]) != bits(env[id(o)])]
                        part.count("evaluated_perturbed")
                        if bad:
                            part.fail(
                                f"extract:{sig_kind}:boundary-input-ignored",
                                "with other values at the declared boundary inputs the extracted graph does not compute the region's function of its inputs",
                                {**case, "feed": k, "output": obs.v(bad[0])},
                            )
                            break
                    except NotImplementedError:
                        part.count("perturb_skipped")


# streams whose every successful cut gets the edit oracle; elsewhere the first EDIT_PER_MODEL successful cuts of a
# check_model call (one rebuild + one more extract + four deep snapshots per checked cut)
EDIT_STREAMS = ("types", "replay", "necessity")
EDIT_PER_MODEL = 2


def _other_dtype(ir, cur, prefer):
    for d in prefer:
        if d != cur:
            return d
    return prefer[0]


def edit_in_place(root, salt: str, prefer) -> int:
    """edit everything `root` owns IN PLACE through the public API: dtype of every typed value (writes through
    Sequence / Optional types into the innermost tensor type), the denotation of the type object at every nesting
    level, every dimension and dimension denotation of every (unfrozen) shape, metadata_props / meta / doc_string of
    graphs, nodes and values.  Returns the number of values whose type is a Sequence / Optional type."""
    from harness import c13

    ir = _ir()
    graphs, nodes, values = c13.walk(root)
    n_nested = 0
    for x in graphs + nodes + values:
        x.metadata_props["edited"] = salt
        x.meta["edited"] = [salt]
        x.doc_string = "doc-" + salt
    for v in values:
        if v.type is not None:
            v.dtype = _other_dtype(ir, v.dtype, prefer)
            objs_ = type_objects(v.type)
            n_nested += len(objs_) > 1
            for depth, t in enumerate(objs_):
                t.denotation = f"{salt}-{depth}"
        if v.shape is not None and not v.shape.frozen:
            for i in range(len(v.shape)):
                v.shape[i] = f"{salt}_{i}"
                v.shape.set_denotation(i, salt)
    return n_nested


def edit_replace(root, salt: str, prefer) -> None:
    """replace the type and shape objects of every value `root` owns (Value.type = / Value.shape =)"""
    from harness import c13

    ir = _ir()
    for v in c13.walk(root)[2]:
        if v.type is not None:
            inner = ir.TensorType(_other_dtype(ir, v.dtype, prefer), denotation="new-" + salt)
            v.type = ir.OptionalType(ir.SequenceType(inner)) if len(type_objects(v.type)) == 1 else inner
        v.shape = ir.Shape([salt, 3])


def deep_snapshot(root, vals=()) -> tuple:
    """harness/c13.py's deep structural snapshot of everything `root` owns (graphs at any depth, nodes, values with
    their type at every nesting level, shape dims and denotations, metadata, doc strings, wiring, usage records by own
    nodes) + type / shape / metadata of the listed values whoever owns them"""
    from harness import c13

    extra = tuple(
        (v.name, v.doc_string, c13.type_snap(v.type),
         None if v.shape is None else (tuple(repr(d) for d in v.shape.dims), tuple(v.shape.get_denotation(i) for i in range(len(v.shape)))),
         tuple(v.metadata_props.items()), tuple((k, repr(x)) for k, x in v.meta.items()))
        for v in vals
    )
    return (c13.snapshot(root), extra)


def snapshot_diff(a: tuple, b: tuple) -> str:
    """first differing value / node / graph of two deep snapshots, for the report"""
    (ta, ga, na, va), ea = a
    (tb, gb, nb, vb), eb = b
    for what, xs, ys in (("value", va, vb), ("node", na, nb), ("graph", ga, gb), ("listed value", ea, eb)):
        for i, (x, y) in enumerate(zip(xs, ys)):
            if x != y:
                fields = [j for j, (p, q) in enumerate(zip(x, y)) if p != q]
                j = fields[0]
                return f"{what} #{i} ({x[0]!r}): field {j}: {x[j]!r} -> {y[j]!r}"[:400]
        if len(xs) != len(ys):
            return f"number of {what}s {len(xs)} -> {len(ys)}"
    return "top-level state differs" if ta != tb else "?"


def check_edit_independence(part, spec: dict, ins: list, outs: list, case: dict, sig_kind: str) -> None:
    """C18 'independent': after extract() returned, no edit of the extracted graph is visible in the source and no
    edit of the source is visible in the extracted graph.  Works on a fresh build of the model (the objects of the
    cut under test stay as they are for the following cuts)."""
    ir = _ir()
    objs2 = build(spec)
    r2, ires2 = run_real(objs2, ins, outs)
    if r2 is None:
        part.disagree("extract is not deterministic: the same cut on a rebuilt model raised", case, None, ires2)
        return
    src = objs2["root"]
    D = ir.DataType
    before_src = deep_snapshot(src, objs2["vals"])
    # ---- edit the RESULT, look at the source
    n_nested = edit_in_place(r2, "result", (D.DOUBLE, D.INT32))
    part.count("edit_oracle:" + ("with-nested-types" if n_nested else "tensor-types-only"))
    after = deep_snapshot(src, objs2["vals"])
    if after != before_src:
        part.fail(f"extract:{sig_kind}:edit-of-result-changes-source",
                  "editing the extracted graph in place (dtype / denotation / shape[i] / metadata of its values) changed the "
                  "source graph: " + snapshot_diff(before_src, after), case)
        before_src = after
    edit_replace(r2, "result", (D.INT8, D.UINT8))
    after = deep_snapshot(src, objs2["vals"])
    if after != before_src:
        part.fail(f"extract:{sig_kind}:retype-of-result-changes-source",
                  "replacing type / shape objects of the extracted graph's values changed the source graph: "
                  + snapshot_diff(before_src, after), case)
    # ---- edit the SOURCE, look at the result (the same cut extracted from another fresh build)
    objs3 = build(spec)
    r3, _ = run_real(objs3, ins, outs)
    if r3 is None:
        return
    before_res = deep_snapshot(r3)
    edit_in_place(objs3["root"], "source", (D.INT64, D.FLOAT16))
    for v in objs3["vals"]:  # boundary values of a view that no graph of the root owns
        if v.type is not None and v.graph is None and v.producer() is None:
            v.dtype = _other_dtype(ir, v.dtype, (D.INT64, D.FLOAT16))
    after = deep_snapshot(r3)
    if after != before_res:
        part.fail(f"extract:{sig_kind}:edit-of-source-changes-result",
                  "editing the source graph in place after the extraction (dtype / denotation / shape[i] / metadata of its "
                  "values) changed the extracted graph: " + snapshot_diff(before_res, after), case)
        before_res = after
    edit_replace(objs3["root"], "source", (D.INT16, D.UINT16))
    after = deep_snapshot(r3)
    if after != before_res:
        part.fail(f"extract:{sig_kind}:retype-of-source-changes-result",
                  "replacing type / shape objects of the source's values changed the extracted graph: "
                  + snapshot_diff(before_res, after), case)


def last_occurrences(nodes: list) -> list:
    """the nodes in the order of their LAST occurrence (what a dict built from enumerate() induces); a list
    without repeats is returned unchanged"""
    seen: set = set()
    out = []
    for n in reversed(nodes):
        if id(n) not in seen:
            seen.add(id(n))
            out.append(n)
    out.reverse()
    return out


def oracle_resolve(objs, tgraph, tnodes, arg):
    if not isinstance(arg, str):
        return objs["vals"][arg]
    if not arg:
        raise KeyError(arg)  # the empty string names nothing (None / "" names are not in the table)
    for v in itertools.chain(tgraph.initializers.values(), tgraph.inputs):
        if v.name == arg:
            return v
    for n in tnodes:
        for v in itertools.chain(n.inputs, n.outputs):
            if v is not None and v.name == arg:
                return v
    raise KeyError(arg)


# --------------------------------------------------------------------------- generators


class Gen:
    def __init__(self, rng: random.Random, evaluable: bool, max_depth: int = 2):
        self.rng = rng
        self.evaluable = evaluable
        self.vals: list[dict] = []
        self.nn = 0
        self.ng = 0
        self.max_depth = max_depth

    def newval(self, t: str, init: bool = False, name=None) -> int:
        i = len(self.vals)
        d = {"name": name if name is not None else f"v{i}", "t": t}
        if init:
            d["init"] = True
        d["data"] = float(self.rng.randrange(-4, 5)) if t == "f" else self.rng.randrange(2)
        self.vals.append(d)
        return i

    def pick(self, pool: list[int], t: str, local: list[int]):
        c = [v for v in pool if self.vals[v]["t"] == t]
        if not c:
            return None
        lc = [v for v in c if v in local]
        if lc and self.rng.random() < 0.7:
            return self.rng.choice(lc)
        return self.rng.choice(c)

    def graph(self, depth: int, outer: list[int], n_nodes: int, root: bool) -> dict:
        rng = self.rng
        gid = self.ng
        self.ng += 1
        inputs, inits = [], []
        if root:
            for _ in range(rng.randrange(1, 4)):
                inputs.append(self.newval("f"))
            if rng.random() < 0.3:
                inputs.append(self.newval("b"))
        if root or (not self.evaluable and rng.random() < 0.3):
            for _ in range(rng.randrange(0, 3)):
                inits.append(self.newval("f", init=True))
        elif rng.random() < 0.2:
            inits.append(self.newval("f", init=True))
        if not root and not self.evaluable and rng.random() < 0.4:
            inputs.append(self.newval("f"))
        if root or not self.evaluable:
            # IR<4 layout / input with a default: an initializer that is also a declared graph input
            for w in inits:
                if rng.random() < 0.4:
                    inputs.insert(rng.randrange(len(inputs) + 1), w)
        local = list(dict.fromkeys(inputs + inits))
        nodes = []
        for k in range(n_nodes):
            pool = outer + local
            last = k == n_nodes - 1
            node = self.node(depth, pool, local, force_float=last)
            nodes.append(node)
            local = local + node["outs"]
        floats = [v for v in local if self.vals[v]["t"] == "f" and v not in inputs and v not in inits]
        if not floats:
            floats = [v for v in local if self.vals[v]["t"] == "f"]
        if root:
            outs = rng.sample(floats, k=min(len(floats), rng.randrange(1, 3)))
        else:
            outs = [floats[-1]]
        return {"g": gid, "inputs": inputs, "inits": inits, "outputs": outs, "nodes": nodes}

    def node(self, depth: int, pool: list[int], local: list[int], force_float: bool) -> dict:
        rng = self.rng
        nid = self.nn
        self.nn += 1
        f = lambda: self.pick(pool, "f", local)  # noqa: E731
        b = lambda: self.pick(pool, "b", local)  # noqa: E731
        ops = ["Add", "Sub", "Mul", "Neg", "Abs", "Identity", "Clip", "Two"]
        if not force_float:
            ops += ["Greater", "Less"]
        if b() is not None:
            ops += ["Where"]
            if not force_float:
                ops += ["Not"]
            if depth < self.max_depth:
                ops += ["If", "If"]
        if f() is None:
            # no float visible: constant-like node without inputs is not evaluable here; use an initializer
            raise RuntimeError("no float value in scope")
        op = rng.choice(ops)
        d = {"n": nid, "op": op, "dom": "", "ins": [], "outs": [], "bodies": []}
        if op in ("Add", "Sub", "Mul"):
            d["ins"] = [f(), f()]
            d["outs"] = [self.newval("f")]
        elif op in ("Neg", "Abs", "Identity"):
            d["ins"] = [f()]
            d["outs"] = [self.newval("f")]
        elif op == "Clip":
            lo = f() if rng.random() < 0.5 else None
            hi = f() if rng.random() < 0.5 else None
            d["ins"] = [f(), lo, hi]
            while d["ins"] and d["ins"][-1] is None:
                d["ins"].pop()
            d["outs"] = [self.newval("f")]
        elif op == "Two":
            d["dom"] = "verif"
            d["ins"] = [f()]
            d["outs"] = [self.newval("f"), self.newval("f")]
        elif op in ("Greater", "Less"):
            d["ins"] = [f(), f()]
            d["outs"] = [self.newval("b")]
        elif op == "Not":
            d["ins"] = [b()]
            d["outs"] = [self.newval("b")]
        elif op == "Where":
            d["ins"] = [b(), f(), f()]
            d["outs"] = [self.newval("f")]
        elif op == "If":
            d["ins"] = [b()]
            d["bodies"] = [
                ["g", "then_branch", self.graph(depth + 1, pool, rng.randrange(1, 3), False)],
                ["g", "else_branch", self.graph(depth + 1, pool, rng.randrange(1, 3), False)],
            ]
            d["outs"] = [self.newval("f")]
        return d


def gen_evaluable(rng: random.Random, n_nodes: int, max_depth: int = 2) -> dict:
    g = Gen(rng, True, max_depth)
    root = g.graph(0, [], n_nodes, True)
    return {"vals": g.vals, "root": root, "target": {"kind": "graph"}, "evaluable": True, "sorted": True, "wellformed": True}


def gen_structural(rng: random.Random, n_nodes: int, max_depth: int = 3) -> dict:
    """arbitrary op names and arities, GRAPHS attributes, bodies with inputs/initializers, duplicate and
    missing names; still topologically sorted and well scoped"""
    vals: list[dict] = []
    cnt = {"n": 0, "g": 0}

    def newval(init=False):
        i = len(vals)
        r = rng.random()
        if init:
            name = f"w{i}"
        elif r < 0.08:
            name = None
        elif r < 0.12:
            name = ""
        elif r < 0.25 and i > 0:
            name = vals[rng.randrange(i)]["name"] if not vals[rng.randrange(i)].get("init") else f"v{i}"
        else:
            name = f"v{i}"
        d = {"name": name, "t": "f"}
        if init:
            d["init"] = True
        vals.append(d)
        return i

    def graph(depth, outer, n, root):
        gid = cnt["g"]
        cnt["g"] += 1
        inputs = [newval() for _ in range(rng.randrange(0, 3) + (1 if root else 0))]
        inits = [newval(init=True) for _ in range(rng.randrange(0, 3))]
        for w in inits:  # initializer also listed as graph input (main graph and nested graphs)
            if rng.random() < 0.35:
                inputs.insert(rng.randrange(len(inputs) + 1), w)
        local = list(dict.fromkeys(inputs + inits))
        nodes = []
        for _ in range(n):
            pool = outer + local
            nid = cnt["n"]
            cnt["n"] += 1
            k = rng.randrange(0, 4)
            ins = []
            for _ in range(k):
                if rng.random() < 0.12 or not pool:
                    ins.append(None)
                elif local and rng.random() < 0.7:
                    ins.append(rng.choice(local))
                else:
                    ins.append(rng.choice(pool))
            bodies = []
            if depth < max_depth and rng.random() < 0.35:
                for ai in range(rng.randrange(1, 3)):
                    if rng.random() < 0.7:
                        bodies.append(["g", f"body{ai}", graph(depth + 1, pool, rng.randrange(0, 3), False)])
                    else:
                        bodies.append(["gs", f"bodies{ai}", [graph(depth + 1, pool, rng.randrange(0, 3), False) for _ in range(rng.randrange(0, 3))]])
            if rng.random() < 0.12:
                # reference attribute of graph type (function bodies): no graph to follow
                bodies.insert(rng.randrange(len(bodies) + 1), ["ref", f"ref{nid}", "param", rng.choice(["g", "gs"])])
            outs = [newval() for _ in range(rng.choice([1, 1, 1, 2, 0, 3]))]
            nodes.append({"n": nid, "op": "Op", "dom": "verif", "ins": ins, "outs": outs, "bodies": bodies})
            local = local + outs
        cand = [v for v in local]
        outputs = rng.sample(cand, k=min(len(cand), rng.randrange(0, 3))) if cand else []
        return {"g": gid, "inputs": inputs, "inits": inits, "outputs": outputs, "nodes": nodes}

    root = graph(0, [], n_nodes, True)
    return {"vals": vals, "root": root, "target": {"kind": "graph"}, "evaluable": False, "sorted": True, "wellformed": True}


def gen_names(rng: random.Random) -> dict:
    """by-name resolution: few names, many clashes — the same name on a graph input, an initializer and node
    outputs, in the main graph and in nested graphs, empty / None names; sorted and well scoped"""
    names = ["a", "b", "c", "d"]
    vals: list[dict] = []
    cnt = {"n": 0, "g": 0}

    def newval(init=False, taken=()):
        r = rng.random()
        if init:
            free = [x for x in names + ["w", "w2"] if x not in taken]
            name = rng.choice(free) if free else f"w{len(vals)}"
        elif r < 0.08:
            name = None
        elif r < 0.14:
            name = ""
        elif r < 0.8:
            name = rng.choice(names)
        else:
            name = f"v{len(vals)}"
        d = {"name": name, "t": "f"}
        if init:
            d["init"] = True
        vals.append(d)
        return len(vals) - 1

    def graph(depth, outer, n, root):
        gid = cnt["g"]
        cnt["g"] += 1
        inputs = [newval() for _ in range(rng.randrange(1 if root else 0, 3))]
        inits = []
        for _ in range(rng.randrange(0, 3)):
            inits.append(newval(init=True, taken=[vals[i]["name"] for i in inits]))
        for w in inits:
            if rng.random() < 0.3:
                inputs.insert(rng.randrange(len(inputs) + 1), w)
        local = list(dict.fromkeys(inputs + inits))
        nodes = []
        for _ in range(n):
            pool = outer + local
            nid = cnt["n"]
            cnt["n"] += 1
            ins = [rng.choice(local if local and rng.random() < 0.7 else pool) for _ in range(rng.randrange(0, 3)) if pool]
            bodies = []
            if depth < 2 and rng.random() < 0.3:
                bodies.append(["g", "body", graph(depth + 1, pool, rng.randrange(1, 3), False)])
            outs = [newval() for _ in range(rng.choice([1, 1, 2]))]
            nodes.append({"n": nid, "op": "Op", "dom": "verif", "ins": ins, "outs": outs, "bodies": bodies})
            local = local + outs
        outputs = rng.sample(local, k=min(len(local), rng.randrange(0, 3)))
        return {"g": gid, "inputs": inputs, "inits": inits, "outputs": outputs, "nodes": nodes}

    root = graph(0, [], rng.randrange(1, 6), True)
    return {"vals": vals, "root": root, "target": {"kind": "graph"}, "evaluable": False, "sorted": True, "wellformed": True}


_TY_DTYPES = [1, 7, 6, 10, 9, 11]  # FLOAT INT64 INT32 FLOAT16 BOOL DOUBLE


def gen_typed(rng: random.Random, n_nodes: int, max_depth: int = 2) -> dict:
    """regions whose values carry (nested) Sequence / Optional types: boundary inputs, initializers and node outputs
    typed Sequence(T), Optional(T), Optional(Sequence(T)), Sequence(Sequence(T)), ... with T a tensor or sparse tensor
    type, denotations at every level, other dtypes, symbolic / missing shapes; nodes in the style of SequenceAt /
    SequenceInsert / SequenceConstruct / Optional / OptionalGetElement / SequenceMap / If (operator names are free in
    this IR: the region search reads only the wiring); unique names, sorted, well scoped"""
    vals: list[dict] = []
    cnt = {"n": 0, "g": 0}

    def den():
        return rng.choice([None, None, None, "IMAGE", "TEXT"])

    def mkty(wrap, dtype=None, leaf=None):
        return {"wrap": [[k, den()] for k in wrap], "leaf": (0 if rng.random() < 0.9 else 1) if leaf is None else leaf,
                "dtype": rng.choice(_TY_DTYPES) if dtype is None else dtype, "denot": den()}

    def wrap_of(v):
        return [k for k, _ in vals[v]["ty"]["wrap"]]

    def newval(ty, init=False):
        i = len(vals)
        d = {"name": ("w" if init else "v") + str(i), "t": "s", "ty": ty}
        if init:
            d["init"] = True
            d["data"] = 1.0
        if not ty["wrap"]:
            sh = rng.choice([[1], [1], [2, "n"], [], None])
            d["shape"] = sh
            if sh and rng.random() < 0.3:
                d["shape_denots"] = [rng.choice([None, "DATA_BATCH"]) for _ in sh]
        elif rng.random() < 0.15:
            d["shape"] = [1]  # a shape on a non-tensor value: meaningless in ONNX, representable here
        else:
            d["shape"] = None
        vals.append(d)
        return i

    def rand_wrap():
        return rng.choice([[2], [2], [3], [3, 2], [2, 2], [3, 2, 2], [2, 3]])

    def like(v, wrap=None, dtype=None):
        t = vals[v]["ty"]
        return mkty(wrap_of(v) if wrap is None else wrap, t["dtype"] if dtype is None else dtype, t["leaf"])

    def graph(depth, outer, n, root):
        gid = cnt["g"]
        cnt["g"] += 1
        inputs, inits = [], []
        if root:
            inputs.append(newval(mkty([], leaf=0)))
            for _ in range(rng.randrange(1, 4)):
                inputs.append(newval(mkty(rand_wrap())))
        else:
            for _ in range(rng.randrange(0, 2)):
                inputs.append(newval(mkty(rand_wrap() if rng.random() < 0.7 else [])))
        for _ in range(rng.randrange(0, 3) if root else rng.randrange(0, 2)):
            # an initializer is a tensor; one declared with a Sequence type is constructible and cloned the same way
            inits.append(newval(mkty([2] if rng.random() < 0.25 else [], dtype=1, leaf=0), init=True))
        for w in inits:
            if rng.random() < 0.25:
                inputs.insert(rng.randrange(len(inputs) + 1), w)
        local = list(dict.fromkeys(inputs + inits))
        nodes = []
        for _ in range(n):
            pool = outer + local

            def pick(pred):
                c = [v for v in pool if pred(wrap_of(v))]
                lc = [v for v in c if v in local]
                if lc and rng.random() < 0.7:
                    return rng.choice(lc)
                return rng.choice(c) if c else None

            tensor = lambda: pick(lambda w: not w)  # noqa: E731
            seq = lambda: pick(lambda w: w[:1] == [2])  # noqa: E731
            opt = lambda: pick(lambda w: w[:1] == [3])  # noqa: E731
            anyv = lambda: pick(lambda w: True)  # noqa: E731
            nid = cnt["n"]
            cnt["n"] += 1
            ops = ["SequenceConstruct", "SplitToSequence", "Identity", "Optional", "Add"]
            if seq() is not None:
                ops += ["SequenceAt", "SequenceInsert", "SequenceInsert", "SequenceErase", "SequenceLength", "ConcatFromSequence"]
                if depth < max_depth:
                    ops += ["SequenceMap", "SequenceMap"]
            if opt() is not None:
                ops += ["OptionalGetElement", "OptionalGetElement", "OptionalHasElement"]
            if depth < max_depth:
                ops += ["If"]
            op = rng.choice(ops)
            d = {"n": nid, "op": op, "dom": "", "ins": [], "outs": [], "bodies": []}
            t0 = tensor()
            if op == "SequenceConstruct":
                d["ins"] = [x for x in (tensor() for _ in range(rng.randrange(1, 4))) if x is not None]
                d["outs"] = [newval(like(d["ins"][0], wrap=[2]) if d["ins"] else mkty([2]))]
            elif op == "SplitToSequence":
                d["ins"] = [x for x in (t0, tensor() if rng.random() < 0.5 else None) if x is not None]
                d["outs"] = [newval(like(t0, wrap=[2]) if t0 is not None else mkty([2]))]
            elif op == "Identity":
                x = anyv()
                d["ins"] = [x] if x is not None else []
                d["outs"] = [newval(like(x) if x is not None else mkty([]))]
            elif op == "Optional":
                x = pick(lambda w: w[:1] != [3] and len(w) < 3)
                d["ins"] = [x] if x is not None and rng.random() < 0.85 else []
                d["outs"] = [newval(like(x, wrap=[3] + wrap_of(x)) if x is not None else mkty([3, 2]))]
            elif op == "Add":
                d["ins"] = [x for x in (t0, tensor()) if x is not None]
                d["outs"] = [newval(like(t0) if t0 is not None else mkty([]))]
            elif op == "SequenceAt":
                x = seq()
                d["ins"] = [x] + ([t0] if t0 is not None else [])
                d["outs"] = [newval(like(x, wrap=wrap_of(x)[1:]))]
            elif op in ("SequenceInsert", "SequenceErase"):
                x = seq()
                el = pick(lambda w: w == wrap_of(x)[1:]) if op == "SequenceInsert" else None
                d["ins"] = [x] + ([el] if el is not None else []) + ([t0] if t0 is not None and rng.random() < 0.5 else [])
                d["outs"] = [newval(like(x))]
            elif op == "SequenceLength":
                d["ins"] = [seq()]
                d["outs"] = [newval(mkty([], dtype=7, leaf=0))]
            elif op == "ConcatFromSequence":
                x = seq()
                d["ins"] = [x]
                d["outs"] = [newval(like(x, wrap=[]))]
            elif op == "OptionalGetElement":
                x = opt()
                d["ins"] = [x]
                d["outs"] = [newval(like(x, wrap=wrap_of(x)[1:]))]
            elif op == "OptionalHasElement":
                d["ins"] = [opt()]
                d["outs"] = [newval(mkty([], dtype=9, leaf=0))]
            elif op == "SequenceMap":
                x = seq()
                body = graph(depth + 1, pool, rng.randrange(1, 3), False)
                d["ins"] = [x] + ([anyv()] if rng.random() < 0.4 else [])
                d["bodies"] = [["g", "body", body]]
                d["outs"] = [newval(like(o, wrap=([2] + wrap_of(o))[:3])) for o in body["outputs"]] or [newval(like(x))]
            elif op == "If":
                tb = graph(depth + 1, pool, rng.randrange(1, 3), False)
                eb = graph(depth + 1, pool, rng.randrange(1, 3), False)
                d["ins"] = [t0] if t0 is not None else []
                d["bodies"] = [["g", "then_branch", tb], ["g", "else_branch", eb]] if rng.random() < 0.7 else [["gs", "branches", [tb, eb]]]
                d["outs"] = [newval(like(o)) for o in tb["outputs"]] or [newval(mkty(rand_wrap()))]
            nodes.append(d)
            local = local + d["outs"]
        produced = [v for nd in nodes for v in nd["outs"]]
        nested_typed = [v for v in produced if wrap_of(v)]
        cand = nested_typed if nested_typed and rng.random() < 0.8 else (produced or local)
        outputs = rng.sample(cand, k=min(len(cand), rng.randrange(1, 3))) if root else cand[-1:]
        return {"g": gid, "inputs": inputs, "inits": inits, "outputs": outputs, "nodes": nodes}

    root = graph(0, [], n_nodes, True)
    return {"vals": vals, "root": root, "target": {"kind": "graph"}, "evaluable": False, "sorted": True, "wellformed": True}


def typed_cuts(rng: random.Random, spec: dict, k: int) -> list:
    """the whole target graph (by object and by name), cuts in the middle at values of Sequence / Optional type,
    random cuts"""
    gs = target_graphspec(spec)
    own = own_values(gs)
    outer = [v for v in top_values(gs) if v not in own]
    nm = lambda v: spec["vals"][v]["name"]  # noqa: E731
    produced = [v for n in gs["nodes"] for v in n["outs"]]
    nested = [v for v in produced if spec["vals"][v].get("ty", {}).get("wrap")]
    whole_in = [v for v in gs["inputs"]] + [nm(v) for v in outer]
    cuts = []
    if gs["outputs"]:
        cuts.append((whole_in, list(gs["outputs"])))
        cuts.append(([a if isinstance(a, str) else nm(a) for a in whole_in], [nm(v) for v in gs["outputs"]]))
    if produced:
        cuts.append((whole_in, produced[-2:]))
    for _ in range(k):
        if nested and rng.random() < 0.6:
            # boundary inputs in the middle, at sequence / optional typed values; outputs further down
            mid = rng.sample(nested, k=min(len(nested), rng.randrange(1, 3)))
            later = [v for v in produced if v > max(mid)] or produced
            outs = rng.sample(later, k=min(len(later), rng.randrange(1, 3)))
            ins = whole_in + [v for v in mid if v not in outs]
            if rng.random() < 0.3:
                ins, outs = [a if isinstance(a, str) else nm(a) for a in ins], [nm(v) for v in outs]
            cuts.append((ins, outs))
        else:
            cuts.append(random_cut(rng, spec))
    return cuts


def names_cuts(rng: random.Random, spec: dict, k: int) -> list:
    """cuts given by name (clashing, empty, missing names), mixed with objects"""
    gs = target_graphspec(spec)
    own = own_values(gs)
    pool = sorted({v["name"] for v in spec["vals"] if v["name"]}) + ["", "no_such_name"]
    cuts = []
    for _ in range(k):
        def arg():
            if rng.random() < 0.75 or not own:
                return rng.choice(pool)
            return rng.choice(own)
        ins = [arg() for _ in range(rng.randrange(0, 3))]
        outs = [arg() for _ in range(rng.randrange(1, 3))]
        cuts.append((ins, outs))
    return cuts


def gen_deep(rng: random.Random, depth: int) -> dict:
    """nesting chain of depth `depth` (>= 4): on every level one node is forced to hold the next level, in a
    GRAPH attribute or as a member of a GRAPHS attribute next to sibling graphs; reference attributes and
    attributes of other types in between; inner nodes read values of every enclosing level"""
    vals: list[dict] = []
    cnt = {"n": 0, "g": 0}

    def newval(init=False):
        d = {"name": ("w" if init else "v") + str(len(vals)), "t": "f"}
        if init:
            d["init"] = True
        vals.append(d)
        return len(vals) - 1

    def graph(level, outer, root=False):
        gid = cnt["g"]
        cnt["g"] += 1
        inputs = [newval() for _ in range(rng.randrange(1 if root else 0, 3))]
        inits = [newval(init=True) for _ in range(rng.randrange(0, 2))]
        local = inputs + inits
        nodes = []
        n_nodes = rng.randrange(1, 3)
        forced = rng.randrange(n_nodes)
        for k in range(n_nodes):
            pool = outer + local
            nid = cnt["n"]
            cnt["n"] += 1
            ins = []
            for _ in range(rng.randrange(0, 3)):
                if pool:
                    ins.append(rng.choice(outer) if outer and rng.random() < 0.5 else rng.choice(pool))
            bodies = []
            if level < depth and (k == forced or rng.random() < 0.15):
                nxt = graph(level + 1, pool)
                if rng.random() < 0.5:
                    bodies.append(["g", "body", nxt])
                else:
                    sib = [graph_leaf(pool) for _ in range(rng.randrange(0, 3))]
                    sib.insert(rng.randrange(len(sib) + 1), nxt)
                    bodies.append(["gs", "bodies", sib])
            if rng.random() < 0.25:
                bodies.insert(rng.randrange(len(bodies) + 1), ["ref", f"ref{nid}", "param", rng.choice(["g", "gs"])])
            if rng.random() < 0.25:
                bodies.insert(rng.randrange(len(bodies) + 1), ["x", f"k{nid}"])
            outs = [newval() for _ in range(rng.choice([1, 1, 2]))]
            nodes.append({"n": nid, "op": "Op", "dom": "verif", "ins": ins, "outs": outs, "bodies": bodies})
            local = local + outs
        outputs = [local[-1]] if nodes else []
        return {"g": gid, "inputs": inputs, "inits": inits, "outputs": outputs, "nodes": nodes}

    def graph_leaf(outer):
        gid = cnt["g"]
        cnt["g"] += 1
        nid = cnt["n"]
        cnt["n"] += 1
        ins = [rng.choice(outer)] if outer and rng.random() < 0.8 else []
        o = newval()
        return {"g": gid, "inputs": [], "inits": [], "outputs": [o],
                "nodes": [{"n": nid, "op": "Op", "dom": "verif", "ins": ins, "outs": [o], "bodies": []}]}

    root = graph(0, [], root=True)
    return {"vals": vals, "root": root, "target": {"kind": "graph"}, "evaluable": False, "sorted": True, "wellformed": True}


# hypotheses shown necessary by a counterexample in the model (Props/C18.lean, C18_*_needs_*): the same shapes on
# the real code.  `expect`: what the real extract must do — "raised" (loud) or "any" (the source itself is not
# valid ONNX and extract mirrors it).  A case expected to raise that returns instead is a finding.
def _v(name, **kw):
    return {"name": name, "t": "f", **kw}


NECESSITY = [
    {"tag": "unsorted-source", "expect": "raised", "theorem": "C18_eval_needs_sorted",
     "spec": {"vals": [_v("x"), _v("a"), _v("b")],
              "root": {"g": 0, "inputs": [0], "inits": [], "outputs": [2], "nodes": [
                  {"n": 0, "op": "Neg", "dom": "", "ins": [1], "outs": [2], "bodies": []},
                  {"n": 1, "op": "Neg", "dom": "", "ins": [0], "outs": [1], "bodies": []}]},
              "target": {"kind": "graph"}, "sorted": False, "wellformed": False},
     "ins": [0], "outs": [2]},
    {"tag": "nested-output-is-outer-value", "expect": "raised", "theorem": "C18_eval_needs_closed",
     "spec": {"vals": [_v("x"), _v("c"), _v("y")],
              "root": {"g": 0, "inputs": [0], "inits": [], "outputs": [2], "nodes": [
                  {"n": 0, "op": "Neg", "dom": "", "ins": [0], "outs": [1], "bodies": []},
                  {"n": 1, "op": "Op", "dom": "verif", "ins": [], "outs": [2], "bodies": [
                      ["g", "body", {"g": 1, "inputs": [], "inits": [], "outputs": [1], "nodes": []}]]}]},
              "target": {"kind": "graph"}, "sorted": True, "wellformed": False},
     "ins": [0], "outs": [2]},
    {"tag": "nested-graph-unsorted", "expect": "raised", "theorem": "C18_eval_needs_closed",
     "spec": {"vals": [_v("x"), _v("y"), _v("t"), _v("o")],
              "root": {"g": 0, "inputs": [0], "inits": [], "outputs": [1], "nodes": [
                  {"n": 0, "op": "Op", "dom": "verif", "ins": [], "outs": [1], "bodies": [
                      ["g", "body", {"g": 1, "inputs": [], "inits": [], "outputs": [3], "nodes": [
                          {"n": 1, "op": "Neg", "dom": "", "ins": [2], "outs": [3], "bodies": []},
                          {"n": 2, "op": "Neg", "dom": "", "ins": [0], "outs": [2], "bodies": []}]}]]}]},
              "target": {"kind": "graph"}, "sorted": True, "wellformed": False},
     "ins": [0], "outs": [1]},
    {"tag": "sibling-graph-input-read", "expect": "any", "theorem": "C18_extract_eval_needs_scope",
     "spec": {"vals": [_v("x"), _v("u"), _v("y0"), _v("t"), _v("y1")],
              "root": {"g": 0, "inputs": [0], "inits": [], "outputs": [4], "nodes": [
                  {"n": 0, "op": "Op", "dom": "verif", "ins": [0], "outs": [2], "bodies": [
                      ["g", "body", {"g": 1, "inputs": [1], "inits": [], "outputs": [1], "nodes": []}]]},
                  {"n": 1, "op": "Op", "dom": "verif", "ins": [2], "outs": [4], "bodies": [
                      ["g", "body", {"g": 2, "inputs": [], "inits": [], "outputs": [3], "nodes": [
                          {"n": 2, "op": "Neg", "dom": "", "ins": [1], "outs": [3], "bodies": []}]}]]}]},
              "target": {"kind": "graph"}, "sorted": True, "wellformed": False},
     "ins": [0], "outs": [4]},
    {"tag": "same-named-initializers-of-two-scopes", "expect": "raised", "theorem": "C18_extract_eval_strong (hnames discharged)",
     "spec": {"vals": [_v("x"), _v("w", init=True), _v("y"), _v("w", init=True), _v("t")],
              "root": {"g": 0, "inputs": [0], "inits": [1], "outputs": [2], "nodes": [
                  {"n": 0, "op": "Op", "dom": "verif", "ins": [0], "outs": [2], "bodies": [
                      ["g", "body", {"g": 1, "inputs": [], "inits": [3], "outputs": [4], "nodes": [
                          {"n": 1, "op": "Add", "dom": "", "ins": [1, 3], "outs": [4], "bodies": []}]}]]}]},
              "target": {"kind": "sub", "gid": 1}, "sorted": True, "wellformed": False},
     "ins": [], "outs": [4]},
    # C18_captures_needs_scoped: node 1 (in graph 1) reads the INPUT `c` of graph 2, which is nested in node 1 itself:
    # the real analysis must report `c` in the entry of graph 1 although graph 1 defines it below (model = code)
    {"tag": "reader-above-owner", "expect": "any", "theorem": "C18_captures_needs_scoped", "aux": True,
     "analyze": {"graph": 1, "value": 1, "free": False},
     "spec": {"vals": [_v("x"), _v("c"), _v("d"), _v("z")],
              "root": {"g": 0, "inputs": [0], "inits": [], "outputs": [3], "nodes": [
                  {"n": 0, "op": "Op", "dom": "verif", "ins": [0], "outs": [3], "bodies": [
                      ["g", "body", {"g": 1, "inputs": [], "inits": [], "outputs": [2], "nodes": [
                          {"n": 1, "op": "Op", "dom": "verif", "ins": [1], "outs": [2], "bodies": [
                              ["g", "body", {"g": 2, "inputs": [1], "inits": [], "outputs": [1], "nodes": []}]]}]}]]}]},
              "target": {"kind": "graph"}, "sorted": True, "wellformed": False},
     "ins": [0], "outs": [3]},
    {"tag": "view-repeats-producer-after-consumer", "expect": "raised", "theorem": "C18_order_source",
     "spec": {"vals": [_v("x"), _v("a"), _v("b")],
              "root": {"g": 0, "inputs": [0], "inits": [], "outputs": [2], "nodes": [
                  {"n": 0, "op": "Neg", "dom": "", "ins": [0], "outs": [1], "bodies": []},
                  {"n": 1, "op": "Neg", "dom": "", "ins": [1], "outs": [2], "bodies": []}]},
              "target": {"kind": "view", "shape": "repeat", "inputs": [0], "outputs": [2], "nodes": [0, 1, 0], "inits": []},
              "sorted": False, "wellformed": False},
     "ins": [0], "outs": [2]},
]


def check_necessity(part, item: dict):
    """the model agrees with the code on the counterexample shape (through check_model), and the real code is
    loud where the theorems' hypotheses fail"""
    spec, ins, outs = item["spec"], item["ins"], item["outs"]
    objs = build(spec)
    _r, ires = run_real(objs, ins, outs)
    part.count(f"necessity:{item['tag']}:{ires['r']}" + (":" + ires.get("kind", "") if ires["r"] == "raised" else ""))
    if item["expect"] == "raised" and ires["r"] != "raised":
        part.fail(f"extract:necessity:{item['tag']}:silently-returned",
                  f"a hypothesis of {item['theorem']} fails on this source and extract returned a graph instead of raising",
                  {"spec": spec, "ins": ins, "outs": outs, "impl": ires})
    an = item.get("analyze")
    if an:
        # the shape of C18_captures_needs_scoped on the real analysis: the value is reported for the graph
        # although it is no free variable of it (brute-force structural reading)
        from onnx_ir.analysis import analyze_implicit_usage

        obs = Obs(objs)
        brute = Brute(obs)
        usage = analyze_implicit_usage(objs["root"])
        g = objs["graphs"][an["graph"]]
        val = objs["vals"][an["value"]]
        reported = any(v is val for v in usage.get(g, ()))
        free = any(v is val for v in brute.used_inside(g)) and id(val) not in brute.defined_inside(g)
        part.count(f"necessity:{item['tag']}:reported={reported}:free={free}")
        if reported and not free:
            part.count("necessity_scoped_hypothesis_needed_on_real_code")
        if free != an["free"]:
            part.disagree("necessity shape: the structural reading differs from the theorem's", {"item": item["tag"]}, an, {"free": free})
    # the hypothesis KClosed of C18_source_of_C01_nested on the real objects: a nested graph returning an outer
    # value makes Value.graph name the NESTED graph (its output list owns the value)
    if item["tag"] == "nested-output-is-outer-value":
        c = objs["vals"][1]
        part.count("necessity:kclosed:outer-value-owned-by-nested-graph=" + str(c.graph is objs["graphs"][1]))
    yield from check_model(part, spec, [(ins, outs)], "necessity")


def spec_depth(gs: dict) -> int:
    d = 0
    for n in gs["nodes"]:
        for b in n.get("bodies", []):
            if b[0] in ("ref", "x"):
                continue
            for x in [b[2]] if b[0] == "g" else b[2]:
                d = max(d, 1 + spec_depth(x))
    return d


def walk_graphs(gs: dict):
    yield gs
    for n in gs["nodes"]:
        for b in n.get("bodies", []):
            if b[0] in ("ref", "x"):
                continue
            for x in [b[2]] if b[0] == "g" else b[2]:
                yield from walk_graphs(x)


def top_values(gs: dict) -> list[int]:
    out = list(gs["inputs"]) + list(gs["inits"])
    for n in gs["nodes"]:
        out += [v for v in n["ins"] if v is not None]
        out += n["outs"]
    return list(dict.fromkeys(out))


def own_values(gs: dict) -> list[int]:
    out = list(gs["inputs"]) + list(gs["inits"])
    for n in gs["nodes"]:
        out += n["outs"]
    return list(dict.fromkeys(out))


def with_target(rng: random.Random, spec: dict, kind: str) -> dict:
    spec = dict(spec)
    root = spec["root"]
    if kind == "function":
        # a Function whose graph has initializers is unusual but constructible, and it is the only shape on
        # which the `isinstance(graph, ir.Function)` branch of the region search is observable
        spec["target"] = {"kind": "function"}
    elif kind == "sub":
        subs = [g for g in walk_graphs(root)][1:]
        if not subs:
            return with_target(rng, spec, "graph")
        spec["target"] = {"kind": "sub", "gid": rng.choice(subs)["g"]}
        spec["evaluable"] = False
    elif kind == "view":
        nodes = [n["n"] for n in root["nodes"]]
        r_ = rng.random()
        shape = "all"
        if r_ < 0.4:
            keep = nodes
        elif r_ < 0.6:
            a = rng.randrange(0, len(nodes) + 1)
            b = rng.randrange(a, len(nodes) + 1)
            keep = nodes[a:b]
            shape = "slice"
        elif r_ < 0.75:
            # a strict subset that need not be contiguous
            keep = [n for n in nodes if rng.random() < 0.7]
            shape = "subset"
        elif r_ < 0.9 and nodes:
            # a node listed more than once (node_index keeps the last position)
            keep = list(nodes)
            for _ in range(rng.randrange(1, 3)):
                keep.insert(rng.randrange(len(keep) + 1), rng.choice(nodes))
            shape = "repeat"
        else:
            keep = list(nodes)
            rng.shuffle(keep)
            shape = "shuffled"
        # the order the extractor will use: last occurrences; when it is not the original order the clone may
        # (legitimately, loudly) reject the region
        last = []
        for n in reversed(keep):
            if n not in last:
                last.append(n)
        last.reverse()
        if [n for n in nodes if n in last] != last:
            spec["sorted"] = False
            spec["evaluable"] = False
        own = own_values(root)
        spec["target"] = {
            "kind": "view",
            "shape": shape,
            "inputs": list(root["inputs"]) if rng.random() < 0.7 else rng.sample(own, k=min(len(own), 2)),
            "outputs": list(root["outputs"]),
            "nodes": keep,
            "inits": list(root["inits"]) if rng.random() < 0.8 else [],
        }
    else:
        spec["target"] = {"kind": "graph"}
    return spec


def target_graphspec(spec: dict) -> dict:
    t = spec["target"]
    if t["kind"] == "sub":
        return next(g for g in walk_graphs(spec["root"]) if g["g"] == t["gid"])
    return spec["root"]


def all_cuts(vals: list[int], max_in: int, max_out: int):
    for ki in range(0, max_in + 1):
        for ins in itertools.combinations(vals, ki):
            for ko in range(1, max_out + 1):
                for outs in itertools.combinations(vals, ko):
                    yield list(ins), list(outs)


def names_unique(spec: dict, vals: list[int]) -> bool:
    ns = [spec["vals"][v]["name"] for v in vals]
    return all(ns) and len(set(ns)) == len(ns)


def random_cut(rng: random.Random, spec: dict):
    gs = target_graphspec(spec)
    own = own_values(gs)
    allv = top_values(gs)
    r = rng.random()
    if not own:
        return [], []
    if r < 0.35:
        ins = list(gs["inputs"])
        if rng.random() < 0.6:
            ins = [v for v in ins if v not in gs["inits"]]
    elif r < 0.85:
        ins = rng.sample(own, k=min(len(own), rng.randrange(0, 5)))
    else:
        ins = rng.sample(allv, k=min(len(allv), rng.randrange(0, 4)))
    if rng.random() < 0.3 and gs["outputs"]:
        outs = list(gs["outputs"])
    else:
        outs = rng.sample(own, k=min(len(own), rng.randrange(1, 4)))
    if rng.random() < 0.05:
        ins = ins + ins[:1]
    if rng.random() < 0.05:
        outs = outs + outs[:1]
    if rng.random() < 0.02:
        outs = []
    mode = rng.random()

    def nm(v):
        n = spec["vals"][v]["name"]
        return n if n else v

    if mode < 0.3:
        ins, outs = [nm(v) for v in ins], [nm(v) for v in outs]
    elif mode < 0.4:
        ins = [nm(v) if rng.random() < 0.5 else v for v in ins]
        outs = [nm(v) if rng.random() < 0.5 else v for v in outs]
    if rng.random() < 0.03:
        outs = outs + ["no_such_name"]
    if rng.random() < 0.04:
        foreign = [i for i in range(len(spec["vals"])) if i not in allv]
        # (a view does no ownership check: a boundary value defined inside a nested graph reaches the clone, whose
        # Graph constructor refuses a value that two graphs list: cloneGO / Err.cloneOwned)
        if foreign:
            ins = ins + [rng.choice(foreign)]
    if spec["target"]["kind"] == "view" and rng.random() < 0.12:
        # boundary values BY OBJECT taken from the nested graphs (their inputs, initializers, outputs, node outputs)
        nested = [v for g in list(walk_graphs(spec["root"]))[1:] for v in own_values(g) + list(g["outputs"])]
        if nested:
            if rng.random() < 0.7:
                ins = ins + [rng.choice(nested)]
            else:
                outs = outs + [rng.choice(nested)]
    if spec["target"]["kind"] == "sub" and rng.random() < 0.25:
        # D460: a value of an enclosing graph read directly by a node of the target subgraph, given by object / name
        outer = [v for v in allv if v not in own]
        if outer:
            v = rng.choice(outer)
            ins = [a for a in ins if a != v and a != spec["vals"][v]["name"]] + [v if rng.random() < 0.6 else nm(v)]
    return ins, outs


def unsort(rng: random.Random, spec: dict) -> dict:
    spec = json.loads(json.dumps(spec))
    nodes = spec["root"]["nodes"]
    rng.shuffle(nodes)
    spec["sorted"] = False
    spec["evaluable"] = False
    return spec


# --------------------------------------------------------------------------- work items (run in worker processes)


def drive(part, gens: list) -> None:
    """Advance every check generator to its model request, ask the model once for all of them, resume."""
    import traceback

    def err(e, what):
        part.disagree("harness error: " + "".join(traceback.format_exception_only(type(e), e)).strip(),
                      {"item": what, "tb": traceback.format_exc()[-1500:]})

    pending, reqs = [], []
    for g in gens:
        try:
            r = next(g)
        except StopIteration:
            continue
        except (Infra, subprocess.SubprocessError, OSError):
            raise
        except Exception as e:  # noqa: BLE001
            err(e, "prepare")
            continue
        pending.append((g, len(reqs), len(r)))
        reqs += r
    outs = lean_batch(reqs) if reqs else []
    for g, a, n in pending:
        try:
            g.send(outs[a : a + n])
        except StopIteration:
            pass
        except (Infra, subprocess.SubprocessError, OSError):
            raise
        except Exception as e:  # noqa: BLE001
            err(e, "compare")


def work(items) -> dict:
    """one worker task = a group of (kind, payload) items sharing one call of the model driver"""
    part = Part()
    gens = []
    for kind, payload in items:
        if kind == "cuts":
            spec, cuts, tag = payload
            for i in range(0, len(cuts), 400):
                gens.append(check_model(part, spec, cuts[i : i + 400], tag))
        elif kind == "aux":
            gens.append(check_aux(part, payload))
        elif kind == "necessity":
            gens.append(check_necessity(part, payload))
    drive(part, gens)
    return part


# --------------------------------------------------------------------------- auxiliary functions: find / external / mapping / analyze


def check_aux(part, payload):
    import onnx_ir as ir
    from onnx_ir._convenience import _extractor
    from onnx_ir.analysis import analyze_implicit_usage

    spec, seed = payload
    rng = random.Random(seed)
    objs = build(spec)
    obs = Obs(objs)
    world = obs.world()
    brute = Brute(obs)
    reqs, impls, whats = [], [], []
    graphs = list(objs["graphs"].items())
    # _collect_all_external_values(parent, g) for every (parent, nested graph) pair
    for gid, g in graphs:
        for pid, pg in graphs:
            if rng.random() < 0.5:
                continue
            got = sorted(obs.v(v) for v in _extractor._collect_all_external_values(pg, g))
            reqs.append({"m": "extract.external", **world, "graph": obs.graph_j(g), "parent": pid})
            impls.append({"r": got})
            whats.append(("external", gid, pid))
            # oracle: values used in g (any depth) that pg defines
            inner = {id(g)} | {id(s) for s in nested_graphs(obs, g)}
            exp = sorted({obs.v(v) for v in brute.used_inside(g)
                          if brute.def_graph.get(id(v)) == id(pg) or brute.def_graph.get(id(v)) not in inner})
            if spec.get("wellformed", True) and exp != got:
                part.fail("external-values", "_collect_all_external_values != values used inside the nested graph that come from outside it", {"spec": spec, "graph": gid, "parent": pid, "got": got, "expected": exp})
    # create_value_mapping(include_subgraphs=False)
    tj = obs.target_j()
    target = objs["target"]
    tgraph = target.graph if isinstance(target, ir.Function) else target
    vm = ir.convenience.create_value_mapping(tgraph, include_subgraphs=False)
    reqs.append({"m": "extract.mapping", **world, "target": tj})
    impls.append({"r": [[k, obs.v(v)] for k, v in vm.items()]})
    whats.append(("mapping",))
    # by-name resolution: every name that occurs in the model, a missing one, the empty one
    tnodes_ = list(target)
    pool_names = sorted({v.name for v in objs["vals"] if v.name} | {"", "no_such_name"})
    pairs = [(k, v) for k, v in tgraph.initializers.items()]
    inputs_named = [(v.name, v) for v in tgraph.inputs if v.name]
    node_named = [(v.name, v) for n in tnodes_ for v in itertools.chain(n.inputs, n.outputs) if v is not None and v.name]
    impl_rows = []
    for nm in pool_names:
        # independent reading of the documented precedence: initializer key, graph input, node values in order
        cls, first = "missing", None
        for c, lst in (("init", pairs), ("input", inputs_named), ("node", node_named)):
            hit = [v for k, v in lst if k == nm]
            if hit:
                cls, first = c, hit[0]
                break
        got_v = vm.get(nm)
        if (got_v is None) != (first is None) or (got_v is not None and got_v is not first):
            part.fail("byname:precedence", "create_value_mapping does not return the first value with that name in the order initializers, inputs, node inputs/outputs",
                      {"spec": spec, "name": nm, "got": obs.v(got_v), "expected": obs.v(first)})
        allc = [v for k, v in pairs + inputs_named + node_named if k == nm]
        impl_rows.append([obs.v(got_v), obs.v(got_v), cls, "ok" if nm in vm else "nameNotFound", [obs.v(v) for v in allc]])
    allpairs = pairs + inputs_named + node_named
    unique = all(v is v2 for k, v in allpairs for k2, v2 in allpairs if k == k2)
    part.count("hyp_names_unique:" + ("true" if unique else "false"))
    if unique:
        # unique names: a name resolves to THE value of the source with that name
        for k, v in allpairs:
            if vm.get(k) is not v:
                part.fail("byname:unique", "names are unique but a name does not resolve to the value carrying it", {"spec": spec, "name": k})
    reqs.append({"m": "extract.resolve", **world, "target": tj, "names": pool_names})
    impls.append({"r": impl_rows, "unique": unique})
    whats.append(("resolve",))
    # _find_subgraph_bounded_by_values with an arbitrary parent
    for _ in range(6):
        ins, outs = random_cut(rng, {**spec, "target": spec["target"]})
        ins = [a for a in ins if not isinstance(a, str)]
        outs = [a for a in outs if not isinstance(a, str)]
        pid, pg = rng.choice(graphs)
        if rng.random() < 0.7:
            pid, pg = obs.gid[id(objs["root"])], objs["root"]
        try:
            ns, ws = _extractor._find_subgraph_bounded_by_values(
                target, [objs["vals"][i] for i in ins], [objs["vals"][i] for i in outs], pg
            )
            got = {"r": "ok", "nodes": [obs.nid[id(n)] for n in ns], "inited": sorted(obs.v(v) for v in ws)}
        except Exception as e:  # noqa: BLE001
            got = {"r": "raised", "py": type(e).__name__, "kind": error_kind(e)}
        reqs.append(
            {"m": "extract.find", **world, "isFunction": isinstance(target, ir.Function), "gnodes": tj["nodes"], "inputs": ins, "outputs": outs, "parent": pid}
        )
        impls.append(got)
        whats.append(("find", ins, outs, pid))
        # oracle for the region search alone (needs neither sortedness nor the clone): node set, order,
        # initializers, and which of the two errors
        own_gid = obs.gid[id(objs["root"])] if objs["kind"] == "view" else obs.gid[id(tgraph)]
        if spec.get("wellformed", True) and outs and pid == own_gid:
            tnodes = list(target)
            need, nodes, _unc = brute.region(tnodes, [objs["vals"][i] for i in ins], [objs["vals"][i] for i in outs])
            inset = {id(objs["vals"][i]) for i in ins}
            direct_unc = [
                v for n in nodes.values() for v in n.inputs
                if v is not None and id(v) not in inset and id(v) not in brute.producer and not v.is_initializer()
            ]
            foreign = [n for n in nodes.values() if all(n is not t for t in tnodes)]
            exp_kind = "unbounded" if direct_unc else "sortKey" if foreign else None
            fcase = {"spec": spec, "find": [ins, outs, pid]}
            shape = "sorted" if spec.get("sorted", True) else "unsorted"
            part.count(f"find_oracle:{shape}")
            if exp_kind is not None:
                if got.get("kind") != exp_kind:
                    part.fail(f"find:{shape}:error", f"region search should raise {exp_kind}", {**fcase, "got": got})
            elif got["r"] != "ok":
                part.fail(f"find:{shape}:raised", "region search raised for a region whose needed nodes are all covered", {**fcase, "got": got})
            else:
                exp_nodes = [obs.nid[id(n)] for n in last_occurrences(tnodes) if id(n) in nodes]
                exp_inits = {obs.v(v) for v in need.values() if v.is_initializer()}
                if not isinstance(target, ir.Function):
                    exp_inits |= {i for i in ins if objs["vals"][i].is_initializer()}
                if got["nodes"] != exp_nodes or got["inited"] != sorted(exp_inits):
                    part.fail(f"find:{shape}:result", "region search: nodes/initializers differ from the needed ones in original order",
                              {**fcase, "got": got, "expected": [exp_nodes, sorted(exp_inits)]})
    # analyze_implicit_usage on every graph, and on the Function object when the target is a function
    roots = [(gid, g, g, None) for gid, g in graphs]
    if isinstance(target, ir.Function):
        roots.append((obs.gid[id(tgraph)], target, tgraph, 10**6))
    for gid, arg, g, root_id in roots:
        try:
            res = analyze_implicit_usage(arg)
            got = {"r": sorted([obs.gid[id(k)], sorted(obs.v(v) for v in vs)] for k, vs in res.items())}
        except Exception as e:  # noqa: BLE001
            got = {"r": "raised", "py": type(e).__name__}
        req = {"m": "extract.analyze", **world, "graph": obs.graph_j(g)}
        if root_id is not None:
            req["root"] = root_id
            part.count("analyze_on_function_object")
        reqs.append(req)
        impls.append(got)
        whats.append(("analyze", gid, root_id))
        part.count(f"analyze_depth:{min(graph_depth(obs, g), 6)}")
        # oracle: every nested graph -> its free variables (used in it or deeper, not defined in it or deeper)
        if spec.get("wellformed", True):
            exp = []
            for s in nested_graphs(obs, g):
                d = brute.defined_inside(s)
                exp.append([obs.gid[id(s)], sorted({obs.v(v) for v in brute.used_inside(s) if id(v) not in d})])
            exp.sort()
            if got.get("r") == "raised":
                part.fail(f"analyze:raised:{got['py']}" + (":nonroot" if g is not objs["root"] else ""), "analyze_implicit_usage raised", {"spec": spec, "graph": gid})
            elif got["r"] != exp:
                part.fail("analyze:captures", "implicit usages != free variables of the nested graphs", {"spec": spec, "graph": gid, "got": got["r"], "expected": exp})
    outs_model = yield reqs
    for w, impl, out in zip(whats, impls, outs_model):
        part.case([w, spec["vals"], spec["root"], spec["target"]], nontrivial=True, stream="aux", fn=w[0],
                  outcome=impl["r"] if isinstance(impl["r"], str) else "ok")
        cmp_ = {k: out.get(k) for k in impl}
        if w[0] == "resolve" and isinstance(cmp_.get("r"), list):
            cmp_["r"] = [[a, b, c, str(d).rsplit(".", 1)[-1], e] for a, b, c, d, e in cmp_["r"]]
        if impl.get("r") == "raised" and "kind" in cmp_:
            cmp_["kind"] = (cmp_["kind"] or "").rsplit(".", 1)[-1]
        if w[0] == "analyze" and "hyp" in out:
            part.count("hyp_captures:" + ("all" if out["hyp"] else "missing"))
            part.count("hyp_captures_exact:" + ("all" if out.get("hypExact") else "missing"))
            # instance of C18_attrs_bodies: branch by branch over the attributes == on the flattened bodies
            if out.get("r") != out.get("r2"):
                part.disagree("analyze: procAttrs != procN on attrBodies", {"spec": spec, "what": w}, out, impl)
        if cmp_ != impl:
            part.disagree(f"{w[0]}: model != implementation", {"spec": spec, "what": w}, out, impl)


def graph_depth(obs: Obs, g) -> int:
    d = 0
    for n in g:
        for b in obs.bodies(n):
            d = max(d, 1 + graph_depth(obs, b))
    return d


def nested_graphs(obs: Obs, g):
    for n in g:
        for b in obs.bodies(n):
            yield b
            yield from nested_graphs(obs, b)


# --------------------------------------------------------------------------- run


def make_items(ctx: Ctx) -> list:
    rng = ctx.rng
    items = []
    # (A) exhaustive cuts of small models
    n_small = ctx.pick(10, 60)
    max_in, max_out = 3, 2
    for k in range(n_small):
        n_nodes = rng.randrange(2, 6)
        spec = None
        for _try in range(40):
            try:
                cand = gen_evaluable(random.Random(rng.random()), n_nodes, max_depth=1 if n_nodes > 3 else 2)
            except RuntimeError:
                continue
            # two models out of three must contain nested graphs (captures are the interesting part)
            if k % 3 == 0 or spec_depth(cand["root"]) >= 1:
                spec = cand
                break
        if spec is None:
            continue
        kind = ["graph", "function", "view"][k % 3]
        spec = with_target(rng, spec, kind)
        vals = top_values(spec["root"])
        if len(vals) > 9:
            vals = vals[:9] if rng.random() < 0.5 else rng.sample(vals, 9)
        cuts = list(all_cuts(vals, max_in, max_out))
        items.append(("cuts", (spec, cuts, "exhaustive")))
        if names_unique(spec, vals) and k % 2 == 0:
            nm = lambda v: spec["vals"][v]["name"]  # noqa: E731
            items.append(("cuts", (spec, [([nm(a) for a in i], [nm(a) for a in o]) for i, o in cuts], "exhaustive-byname")))
    # (A') complete: every subset of the top-level values as boundary inputs x every non-empty subset as outputs
    n_complete = ctx.pick(2, 8)
    made = 0
    for k in range(n_complete):
        want_depth = 2 if k % 2 == 1 else 1
        for _try in range(600):
            try:
                cand = gen_evaluable(random.Random(rng.random()), rng.randrange(2, 4), max_depth=2)
            except RuntimeError:
                continue
            vals = top_values(cand["root"])
            if len(vals) <= 7 and spec_depth(cand["root"]) >= want_depth:
                break
        else:
            continue
        spec = with_target(rng, cand, ["graph", "function", "view"][k % 3] if k >= 2 else "graph")
        cuts = []
        for ki in range(len(vals) + 1):
            for ins in itertools.combinations(vals, ki):
                for ko in range(1, len(vals) + 1):
                    for outs in itertools.combinations(vals, ko):
                        cuts.append((list(ins), list(outs)))
        items.append(("cuts", (spec, cuts, "complete")))
        made += 1
    ctx.extra["complete_models"] = made
    # (B) random larger models, random cuts
    for k in range(ctx.pick(150, 3000)):
        r = random.Random(rng.random())
        if k % 2 == 0:
            try:
                spec = gen_evaluable(r, r.randrange(3, 13), max_depth=2)
            except RuntimeError:
                continue
        else:
            spec = gen_structural(r, r.randrange(1, 10))
        kind = r.choice(["graph", "graph", "function", "view", "sub"])
        spec = with_target(r, spec, kind)
        if r.random() < 0.12:
            spec = unsort(r, spec)
        cuts = [random_cut(r, spec) for _ in range(12)]
        # which error comes first: combine several causes in one call
        gs_ = target_graphspec(spec)
        own_ = own_values(gs_)
        foreign_ = [i for i in range(len(spec["vals"])) if i not in top_values(gs_)]
        if spec["target"]["kind"] == "view":
            foreign_ = [i for i in foreign_ if i in own_values(spec["root"])]
        f_ = [r.choice(foreign_)] if foreign_ else []
        o_ = [r.choice(own_)] if own_ else []
        cuts += [(f_, []), (["no_such_name"], []), (["no_such_name"] + f_, o_), (f_ + ["no_such_name"], o_),
                 (o_, ["no_such_name"] + f_), ([], f_ + o_)]
        if spec["target"]["kind"] == "view" and r.random() < 0.3:
            # a value that no graph owns as first output of a view: `assert parent_graph is not None`
            spec = dict(spec)
            spec["vals"] = spec["vals"] + [{"name": f"detached{len(spec['vals'])}", "t": "f"}]
            det = len(spec["vals"]) - 1
            cuts.append(([], [det]))
            cuts.append((list(spec["root"]["inputs"]), [det] + list(spec["root"]["outputs"])))
        items.append(("cuts", (spec, cuts, "random")))
        items.append(("aux", (spec, r.random())))
    # (C) by-name resolution: clashing / empty / missing names, every kind of source
    for k in range(ctx.pick(60, 1200)):
        r = random.Random(rng.random())
        spec = with_target(r, gen_names(r), ["graph", "view", "function", "sub"][k % 4])
        items.append(("cuts", (spec, names_cuts(r, spec, 10), "byname")))
        items.append(("aux", (spec, r.random())))
    # (D) views over the evaluable family: subsets, repeats, other orders
    for k in range(ctx.pick(40, 800)):
        r = random.Random(rng.random())
        try:
            spec = gen_evaluable(r, r.randrange(3, 9), max_depth=2)
        except RuntimeError:
            continue
        spec = with_target(r, spec, "view")
        items.append(("cuts", (spec, [random_cut(r, spec) for _ in range(10)], "views")))
        items.append(("aux", (spec, r.random())))
    # (E) deep nesting (depth 4..6) through GRAPH / GRAPHS attributes: capture analysis and extraction
    for k in range(ctx.pick(30, 600)):
        r = random.Random(rng.random())
        spec = gen_deep(r, 4 + k % 3)
        spec = with_target(r, spec, ["graph", "function", "sub", "graph"][k % 4])
        items.append(("cuts", (spec, [random_cut(r, spec) for _ in range(8)], "deep")))
        items.append(("aux", (spec, r.random())))
    # (G) ownership (follow-up round): views whose boundary contains, BY OBJECT, values that a nested graph lists
    # (inputs / initializers / outputs of nested graphs) or defines (nested node outputs): the clone's Graph
    # constructor refuses a clone that two graphs list (cloneGO / Err.cloneOwned)
    for k in range(ctx.pick(60, 1200)):
        r = random.Random(rng.random())
        for _try in range(20):
            spec = gen_structural(r, r.randrange(2, 7))
            if spec_depth(spec["root"]) >= 1:
                break
        else:
            continue
        root = spec["root"]
        spec = dict(spec)
        spec["target"] = {"kind": "view", "shape": "all", "inputs": list(root["inputs"]), "outputs": list(root["outputs"]),
                          "nodes": [n["n"] for n in root["nodes"]], "inits": list(root["inits"])}
        subs = list(walk_graphs(root))[1:]
        listed = [v for g in subs for v in list(g["inputs"]) + list(g["inits"]) + list(g["outputs"])]
        defined = [v for g in subs for v in own_values(g)]
        own = own_values(root)
        base_in = [v for v in root["inputs"]] + [v for v in top_values(root) if v not in own][:2]
        cuts = []
        for _ in range(8):
            outs = r.sample(own, k=min(len(own), r.randrange(1, 3))) if own else []
            ins = list(base_in) if r.random() < 0.7 else r.sample(own, k=min(len(own), r.randrange(0, 4)))
            pool = listed if (listed and r.random() < 0.7) else defined
            if pool:
                x = r.choice(pool)
                if r.random() < 0.75:
                    ins = ins + [x]
                else:
                    outs = outs + [x]
            cuts.append((ins, outs))
        items.append(("cuts", (spec, cuts, "ownership")))
    # (H) D460: regions of a nested graph that reads values of enclosing graphs directly, the captured values given
    # as boundary inputs by object and by name
    for k in range(ctx.pick(60, 1200)):
        r = random.Random(rng.random())
        spec = None
        for _try in range(30):
            cand = gen_structural(r, r.randrange(2, 7)) if k % 2 else None
            if cand is None:
                try:
                    cand = gen_evaluable(r, r.randrange(3, 9), max_depth=2)
                except RuntimeError:
                    continue
            subs = [g for g in list(walk_graphs(cand["root"]))[1:]
                    if any(v not in own_values(g) for v in top_values(g))]
            if subs:
                spec = dict(cand)
                g = r.choice(subs)
                spec["target"] = {"kind": "sub", "gid": g["g"]}
                spec["evaluable"] = False
                break
        if spec is None:
            continue
        g = target_graphspec(spec)
        own = own_values(g)
        outer = [v for v in top_values(g) if v not in own]
        cuts = []
        for _ in range(6):
            outs = r.sample(own, k=min(len(own), r.randrange(1, 3))) if own else []
            ins = [v for v in g["inputs"]] if r.random() < 0.6 else r.sample(own, k=min(len(own), r.randrange(0, 3)))
            cap = outer if r.random() < 0.7 else r.sample(outer, k=r.randrange(0, len(outer) + 1))
            byname = r.random() < 0.4
            ins = ins + [(spec["vals"][v]["name"] or v) if byname else v for v in cap]
            cuts.append((ins, outs))
        items.append(("cuts", (spec, cuts, "captured")))
    # (T) regions with values of (nested) Sequence / Optional types: the independence clause (identity of the nested
    # element-type objects, edits after the extraction on either side) on every successful cut
    for k in range(ctx.pick(60, 600)):
        r = random.Random(rng.random())
        spec = gen_typed(r, r.randrange(2, 9))
        spec = with_target(r, spec, ["graph", "graph", "view", "function", "sub", "graph"][k % 6])
        if spec["target"]["kind"] == "view" and not spec.get("sorted", True):
            spec["target"] = {"kind": "graph"}
            spec["sorted"] = True
        items.append(("cuts", (spec, typed_cuts(r, spec, 6), "types")))
    # (F) the counterexamples of the necessity theorems, on the real code
    for it in NECESSITY:
        items.append(("necessity", it))
        if it.get("aux"):
            items.append(("aux", (it["spec"], 0.5)))
    return items


def run(ctx: Ctx) -> None:
    ctx.rule = (
        "a case = (model, target kind, boundary inputs, boundary outputs); distinct by the full description; "
        "exhaustive: every cut with <= 3 inputs and <= 2 outputs over (up to 9) values of each small model; "
        "random: larger nested models x random cuts by object/name; byname: clashing/empty/missing names; views: "
        "GraphView sources with subsets, repeats, other orders; deep: nesting depth 4..6 through GRAPH/GRAPHS "
        "attributes; types: regions whose values carry (nested) Sequence / Optional types, whole-graph cuts and cuts in "
        "the middle at such values, every successful cut with the edit-after-extraction oracle; "
        "necessity: the counterexamples of the C18_*_needs_* theorems on the real code; aux cases = one "
        "call of _collect_all_external_values / create_value_mapping (+ by-name resolution of every name) / "
        "_find_subgraph_bounded_by_values / analyze_implicit_usage (on graphs and on the Function object)"
    )
    for obj in load_corpus("C18"):
        replay(ctx, obj)
    items = make_items(ctx)
    n_ex = sum(1 for k, p in items if k == "cuts" and p[2] == "exhaustive")
    n_co = sum(1 for k, p in items if k == "cuts" and p[2] == "complete")
    ctx.exhaustive_scopes.append(
        f"complete: every cut (any subset of the top-level values as boundary inputs x any non-empty subset as "
        f"outputs, by object, in value order) of {n_co} generated models with <= 7 top-level values, 2-3 top-level "
        f"nodes and If nesting (every second one of depth 2)"
    )
    ctx.exhaustive_scopes.append(
        f"bounded: every unordered cut with <= 3 boundary inputs and <= 2 outputs drawn from (at most 9 of) the "
        f"top-level values of {n_ex} generated models (2-5 top-level nodes, If nesting in two of three), by "
        f"object, and by name for every second model; not every cut of these models"
    )
    big = lambda it: it[0] == "cuts" and (it[1][2].startswith("exhaustive") or it[1][2] == "complete")  # noqa: E731
    ex = []
    for it in items:
        if big(it):
            spec_, cuts_, tag_ = it[1]
            for i in range(0, len(cuts_), 4000):  # split so that the work spreads over the workers
                ex.append([("cuts", (spec_, cuts_[i : i + 4000], tag_))])
    rest = [it for it in items if not big(it)]
    groups = ex + [rest[i : i + 16] for i in range(0, len(rest), 16)]
    for part in pmap(work, groups):
        ctx.merge(part)
    failed = sum(v for k, v in ctx.dist.items() if k.startswith("eval_source_failed"))
    models = ctx.dist.get("source_checker_valid", 0) + ctx.dist.get("source_checker_invalid", 0)
    ctx.notes.append(f"evaluation oracle: {failed} of {models} evaluable sources could not be evaluated")
    if failed > max(2, models // 20):
        ctx.disagree("evaluation oracle unusable: too many sources could not be evaluated by the reference evaluator",
                     {"failed": failed, "models": models})


def replay(ctx: Ctx, obj: dict) -> None:
    if obj.get("kind") == "unchecked-obligation":
        for d in obj.get("correspondence_disagreements", []):
            if isinstance(d.get("case"), dict):
                replay(ctx, {"case": d["case"]})
        return
    case = obj.get("case", obj)
    spec = case.get("spec") if isinstance(case, dict) else None
    if spec is None:
        return
    part = Part()
    if "ins" in case:
        drive(part, [check_model(part, spec, [(case["ins"], case["outs"])], "replay")])
    else:
        drive(part, [check_aux(part, (spec, 0))])
    ctx.merge(part)

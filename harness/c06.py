"""C06 — a rejected edit leaves every IR object exactly as it was (DESIGN.md 5/C06).

Theorems (lean/IrVerif/Props/C06.lean): in the kernel model a single call that raises returns the world it
was given (`C06_atomic`, equality of the whole world: every field of every object, reference counters,
initializer keys and order, name-authority counters and sets); the same for the bulk initializer update and
for `rename_values` with any assignment.  Correspondence: shared with C01 (`kernel.run`; the driver also
reports structural equality of the model world across every raising step).
Oracle: `kernel_ops.deep_snapshot` — every public accessor of every object before vs after every raising
call on the real code.  The input distribution counts, per operation, the raising calls and the position k
of the first rejected element of multi-element arguments (`raisedAt=<op>:k=<k>`).
"""
from __future__ import annotations

from harness import kernel_ops as K
from harness.common import Ctx, load_corpus

PROP = "C06"
THEOREMS = [
    "IrVerif.Kernel.C06_atomic",
    "IrVerif.Kernel.C06_rename_values_atomic",
    "IrVerif.Kernel.C06_rauw_many_atomic",
    "IrVerif.Kernel.C06_view_atomic",
    "IrVerif.Kernel.C06_rejects_foreign_value",
    "IrVerif.Kernel.C06_rejects_produced_value",
    "IrVerif.Kernel.C06_rejects_foreign_node",
    "IrVerif.Kernel.C06_rejects_unsafe_removal",
    "IrVerif.Kernel.C06_rejects_initializer_name_collision",
    "IrVerif.Kernel.C06_rejects_missing_name",
    "IrVerif.Kernel.C06_rejects_index_out_of_range",
    "IrVerif.Kernel.C06_rejects_sort_cycle",
    "IrVerif.Kernel.C06_rejects_shrink_with_uses",
    "IrVerif.Kernel.C06_retry",
]
ASSUMPTIONS = [
    "same alphabet, typing assumption and exclusions as C01",
    "C06_atomic is a corollary of C01_mutation_faithful: in the model a check that fails after the first write makes the "
    "call raise WITH the partially written world; the theorem (hypothesis WF) says this never happens. Removed from the "
    "theorem list because they were true by definition: C06_update_atomic (initializers.update is an operation of "
    "C06_atomic; its validation is modelled as a dry run, not as the code's pending-names table) and "
    "C06_sort_cycle_no_change (rfl)",
    "convenience.replace_all_uses_with with several pairs is all-or-nothing since fix D82 (repo c936126): the harness "
    "probes the real function on every run and compares it with `rauwManyExact` (C06_rauw_many_atomic) - with the "
    "sequential `rauwMany` when the probe finds the old behaviour; convenience.replace_nodes_and_values is a sequence of "
    "public calls and NOT atomic in the code (known finding D83, keyed on the sub-step that raised; no small exact fix "
    "exists: proposed_fixes/D83.md; the partial fix D83-partial.diff has its own model function, selected by a probe); "
    "Tape.initializer (new value, then graph.register_initializer) and Builder.<Op> (node, then output names) are "
    "composites too: a rejected registration leaves the fresh value behind (no pre-existing object changes: the "
    "before/after snapshot is taken over the objects that existed before the call); "
    "the atomicity theorem does not cover them, the model keeps their partial effects exactly like the code and the "
    "comparison continues after them",
    "exception types are compared against the documented rejections per call (an undocumented type is reported as "
    "`kind:<call>:<type>`); KeyboardInterrupt / MemoryError in the middle of a call are out of scope",
    "the name authority's counters / name sets and the tracked lists' reference counters are part of the compared state "
    "(latent state deciding later names / flags); everything else in the oracle goes through public accessors",
]


def run(ctx: Ctx) -> None:
    ctx.rule = (
        "a case is one history; non-trivial when it contains a call other than value / tensor construction; the "
        "oracle fires on every raising call inside it (op=<call>:raised and raisedAt=<call>:k=<position> in "
        "input_distribution)"
    )
    K.reset_nonterm()
    for obj in load_corpus(PROP):
        K.replay_ops(ctx, PROP, obj["ops"])
    scope = K.run_exhaustive(ctx, PROP, depth=ctx.pick(2, 3), reduced=not ctx.quick)
    ctx.exhaustive_scopes.append(scope)
    ctx.exhaustive_scopes.append(K.run_after_reject(ctx, PROP, depth=ctx.pick(3, 4)))
    ctx.notes.append("directed: " + K.run_sort_scenarios(ctx, PROP))
    ctx.notes.append("directed: " + K.run_position_scenarios(ctx, PROP))
    ctx.notes.append("directed: " + K.run_view_scenarios(ctx, PROP))
    ctx.notes.append("directed: " + K.run_multiplicity_scenarios(ctx, PROP))
    K.run_random(ctx, PROP, ctx.pick(2000, 40000), ctx.pick(40, 60))
    K.check_alphabet(ctx, PROP)


def replay(ctx: Ctx, obj: dict) -> None:
    ops = obj.get("case", obj).get("ops")
    K.replay_ops(ctx, PROP, ops)

"""C06 — a rejected edit leaves every IR object exactly as it was (DESIGN.md 5/C06).

Theorem: in the kernel model a step that raises returns the world it was given.  Correspondence: shared
with C01 (`kernel.run`; the driver also reports structural equality of the world across a raising step).
Oracle: `kernel_ops.deep_snapshot` of all objects before vs after every raising call on the real code.
"""
from __future__ import annotations

from harness import kernel_ops as K
from harness.common import Ctx, load_corpus

PROP = "C06"
THEOREMS = [
    "IrVerif.Kernel.C06_atomic",
    "IrVerif.Kernel.C06_update_atomic",
    "IrVerif.Kernel.C06_rename_values_atomic",
    "IrVerif.Kernel.C06_sort_cycle_no_change",
]
ASSUMPTIONS = [
    "arguments are existing objects of the right class (the model is typed)",
    "KeyboardInterrupt / MemoryError in the middle of a call are out of scope",
    "the name authority's private counters and name sets are part of the compared state (they decide later names)",
]


def run(ctx: Ctx) -> None:
    ctx.rule = (
        "a case is one history; non-trivial when it contains a call other than value construction; the oracle "
        "fires on every raising call inside it (counted per operation in input_distribution as raised=<op>)"
    )
    for obj in load_corpus(PROP):
        K.replay_ops(ctx, PROP, obj["ops"])
    scope = K.run_exhaustive(ctx, PROP, depth=ctx.pick(2, 3), reduced=not ctx.quick)
    ctx.exhaustive_scopes.append(scope)
    K.run_random(ctx, PROP, ctx.pick(2000, 40000), ctx.pick(40, 60))


def replay(ctx: Ctx, obj: dict) -> None:
    ops = obj.get("case", obj).get("ops")
    K.replay_ops(ctx, PROP, ops)

"""C09 — concurrent external-data writing is schedule-independent, bounded and live
(DESIGN.md section 5, C09).

Correspondence: a *controlled scheduler*.  Inside `onnx_ir.external_data` only, `threading`
(Lock / Condition / local) and `concurrent.futures` (ThreadPoolExecutor / as_completed) are replaced
by baton-passing versions: real threads, exactly one runnable at a time, a yield before every
blocking operation (lock acquire, condition enter / wait, queue get, future wait, join) and inside
the two user-code bodies (progress callback, tensor.tofile).  The harness forces the real
`_write_external_tensors` along a schedule given as a list of model labels; the Lean driver
(`writer.run`) steps the model `IrVerif.Writer` along the same labels; after every step both sides
report program counters of every tensor, queue, futures, idle / exited pool threads, callback lock,
tensor locks, in-flight counter, oversized flag, shutdown flag, callback log and the set of enabled
labels; at the end the file bytes.  Schedules: `writern.cover` (transition coverage of the reachable
state graph of small configurations: every edge is executed once, not every interleaving) + random
walks on larger configurations.  `callback=None` runs are compared with the model's macro-step system `stepNC`
(`"nc": true`); the configuration itself is re-derived by Lean from the arguments of the save (`writern.plan`,
offsets / shards by C07's layout model, start images by the preallocation step) and compared with the one read off
the real code (reservations included: `_reservation_bytes` vs `reservationBytes`), and the start image on disk is
compared with the planned one.  NOTE: the controlled runs exercise the repo's *use* of the primitives
against the harness's own reimplementation of them; the real primitives run in the OS-scheduled runs
and in `primitive_checks`.

Oracle (independent of the model, on the real run): callback once per started tensor and never
concurrent; same tensor object never evaluated concurrently; bytes identical to the serial save;
materialised bytes <= budget + largest tensor (per active `tofile` the tensor's nbytes, for an ExternalTensor the
largest copy buffer its real `tofile` was MEASURED to hand to `write` in a dry run); the exception reaches the caller only after all pool
threads stopped with the budget fully released and all locks free; no deadlock (some thread is
always enabled until the call returns); the external tensors returned for the initializers (file,
offset, length, name per input position) equal the serial save's and read back the right bytes.  The
same clauses are checked under plain OS-scheduled runs (no shim).
"""
from __future__ import annotations

import contextlib
import os
import shutil
import signal
import sys
import tempfile
import threading as _rt
import time
import types

from harness.common import Ctx, Part, lean_batch, load_corpus, pmap

THEOREMS = [
    "IrVerif.Writer.C09_budget",
    "IrVerif.Writer.C09_callback_mutex",
    "IrVerif.Writer.C09_callback_once",
    "IrVerif.Writer.C09_tensor_mutex",
    "IrVerif.Writer.C09_deadlock_free",
    "IrVerif.Writer.C09_terminates",
    "IrVerif.Writer.C09_schedule_bounded",
    "IrVerif.Writer.C09_maximal_terminal",
    "IrVerif.Writer.C09_bytes_serial",
    "IrVerif.Writer.C09_bytes_serial_wb",
    "IrVerif.Writer.preallocb_sound",
    "IrVerif.Writer.C09_error_quiescent",
    "IrVerif.Writer.wfb_sound",
    "IrVerif.Writer.layoutb_sound",
    "IrVerif.WriterN.C09_budget",
    "IrVerif.WriterN.C09_callback_mutex",
    "IrVerif.WriterN.C09_callback_once",
    "IrVerif.WriterN.C09_tensor_mutex",
    "IrVerif.WriterN.C09_deadlock_free",
    "IrVerif.WriterN.C09_terminates",
    "IrVerif.WriterN.C09_schedule_bounded",
    "IrVerif.WriterN.C09_maximal_terminal",
    "IrVerif.WriterN.C09_error_quiescent",
    "IrVerif.WriterN.C09_bytes_serial",
    "IrVerif.WriterN.C09_bytes_serial_wb",
    "IrVerif.WriterN.C09_error_reported",
    "IrVerif.WriterN.preallocb_sound",
    "IrVerif.WriterN.layoutb_sound",
    "IrVerif.WriterN.wfb_sound",
    "IrVerif.WriterN.C09_plan_layout",
    "IrVerif.WriterN.C09_plan_wf_single",
    "IrVerif.WriterN.C09_bytes_serial_layout",
    "IrVerif.WriterN.C09_bytes_serial_layout_c07",
    "IrVerif.WriterN.C09_plan_wf",
    "IrVerif.WriterN.C09_bytes_serial_layout_sharded",
    "IrVerif.WriterN.C09_nocb_refines",
    "IrVerif.WriterN.C09_nocb_locks_free",
    "IrVerif.WriterN.C09_nocb_deadlock_free",
    "IrVerif.WriterN.C09_nocb_schedule_bounded",
    "IrVerif.WriterN.C09_bytes_serial_layout_c07_sharded",
    "IrVerif.Writer.C09_flat_is_general",
    "IrVerif.WriterN.C09_memory_bound",
]
ASSUMPTIONS = [
    "CONTROLLED RUNS DO NOT USE THE REAL PRIMITIVES: inside onnx_ir.external_data threading.Lock/Condition and "
    "ThreadPoolExecutor/as_completed are replaced by the harness's own baton-passing reimplementation (workers spawned "
    "eagerly, as_completed = a picker over completed futures, shutdown(cancel_futures) cancels exactly the queued "
    "jobs), written from the documented semantics — the same reading the Lean models transcribe.  What is compared "
    "with the models is therefore the repo's *use* of the primitives, not the primitives.  The real primitives run in "
    "the OS-scheduled runs (oracle only) and in primitive_checks() (bounded concurrency, FIFO start order, "
    "shutdown with/without cancel_futures, stored exceptions, as_completed once-each, Condition wait/notify_all/"
    "wait_for, non-reentrant Lock), executed on every run; the GIL and the primitives' implementation are trusted",
    "the pool sizes compared with the model are the max_workers values the repo passes to its executors "
    "(shard_workers / workers_per_shard arithmetic) against the harness's independent computation",
    "granularity: one model step per blocking operation or user-code body; a critical section of the condition's "
    "own lock contains no blocking operation and is one step",
    "pool threads are interchangeable in the models; in the controlled runs the idle thread that takes a job is a "
    "seeded random choice",
    "two models: IrVerif.Writer (flat: single-file parallel writer; shard drivers with serial writers) and the "
    "general IrVerif.WriterN (a tree of pools: also shard drivers that each run a parallel writer, "
    "workers_per_shard >= 2); every controlled run is compared with the general model, flat runs with both; "
    "C09_flat_is_general proves the flat model to be the one-pool instance of the general one (toN / absState: lock-step "
    "bisimulation, WF carries over), so flat callback=None runs are stepNC runs of toN cfg; `writern.flat` checks on "
    "every flat case that toN of the flat configuration is the general configuration read off the code and that the "
    "flat run translated by absState is the general run",
    "'exhaustive' scopes are TRANSITION coverage of the model's reachable state graph (every edge executed by the "
    "real writer along some complete schedule), not all interleavings; the quick tier explores only a 5000-state part "
    "of the nested configuration (72 197 states), the thorough tier all of it",
    "materialised bytes: the model counts, per thread between budget acquire and release, `peakBytes` = the whole "
    "tobytes() of an in-memory tensor resp. ONE buffer of the copy loop of ExternalTensor.tofile (`copyReads`), and "
    "C09_memory_bound proves it <= the reservation `reservationBytes` = _reservation_bytes (min(nbytes, chunk) for an "
    "ExternalTensor) computed by the model from the arguments (planArgs), hence <= max(budget, 1) + max nbytes; the "
    "oracle counts per active tofile the tensor's nbytes resp. the largest buffer the REAL ExternalTensor.tofile was "
    "measured to hand to write(); `_EXTERNAL_TENSOR_COPY_CHUNK_SIZE` is patched to a few bytes in part of the cases "
    "(`chunk`) and the userspace loop forced by a destination without fileno (`ucopy`); copy_loop_checks compares "
    "copyReads / reservationBytes with the real loop / the real _reservation_bytes (also for the repo's own 1 MiB "
    "constant), including that the previous copy buffer is dropped before the next `src.read` allocates (D331, fixed: "
    "oracle copy-loop:two-buffers-live).  NOT counted: numpy / kernel internal buffers; "
    "memory a user callback or a LazyTensor cache keeps is outside; since the fix of D170 the callback "
    "runs under the tensor lock (lock order: tensor lock -> callback lock(s) -> budget), which both models follow; the "
    "'touch' cases (callback evaluates the tensor) stay in the generators as a regression probe",
    "Layout (pairwise disjoint ranges) and Prealloc (zero start image exactly as long as the last end) are no longer "
    "hypotheses: `planCfg` (Model/WriterPlan.lean) builds the whole writer configuration from the arguments of the save "
    "with C07's `computeInfos` / `shardRaw` / `totalSize` and the preallocation step (`open(.., 'wb')`, `truncate`), and "
    "C09_plan_layout proves both for every input; on every run the planned configuration is compared with the one read "
    "off the real `_align_offset` / `_shard_tensors` / executor sizes, and the start image found on disk when a parallel "
    "writer's executor appears with the planned one; `size` is the budget reservation (for ExternalTensor the copy "
    "chunk), not necessarily data.length; nbytes = len(tobytes()) (C04)",
    "well-formedness (WF) of the planned configuration, the tree of pools of a sharded save included, is proved too "
    "(C09_plan_wf, with C07_shards_partition), so C09_bytes_serial_layout / _sharded / _c07 have no hypothesis beyond "
    "`planCfg .. = some cfg`; wfb / layoutb / preallocb are still evaluated on every generated configuration "
    "(plan_wf / plan_layout / plan_prealloc histogram keys) as a check of the generator and of the driver",
    "callback=None is the transition system stepNC (Model/WriterNC.lean: a step of the real thread = the model's step "
    "followed by the model's callback steps that contain no blocking operation of the real code), proved to refine the "
    "general model, and is driven by the controlled scheduler (every observation but the callback log, which the model "
    "fills and the real run leaves empty); tensors without `tofile` (`file.write(tensor.tobytes())`) map to the same "
    "`write` step and are driven by the controlled scheduler too, and so are real ir.Tensor / ExternalTensor objects "
    "through subclasses whose `tofile` is the real one preceded by the harness's yield point (kinds irh / exth: the "
    "real numpy / copy_file_range paths and the ExternalTensor branch of `_reservation_bytes` run under forced "
    "schedules); PLAIN instances of the two classes (kinds ir / external) are driven too: `ir.Tensor.tofile` / "
    "`ir.ExternalTensor.tofile` are replaced at class level, in the harness process only, by the real method preceded "
    "by the same yield point / bookkeeping (real_classes_hooked), in controlled and in OS-scheduled runs; capacity < 1 is rejected by "
    "_validate_write_options before the writer starts, so max(capacity, 1) cannot be reached through the entry point "
    "used here",
    "failures are injected as RuntimeError or as a BaseException that is not an Exception; which of several "
    "failures the caller sees is not part of the claim (C09_error_reported)",
]

STEP_TIMEOUT = 40.0  # one controlled step (microseconds of work) not reaching its next park point
# OS-scheduled runs: a stall is measured in *heartbeat ticks* (a thread of the same process sleeping 20 ms per
# tick), not in wall-clock seconds, so that a machine that does not schedule this process does not look like a
# deadlock: no callback / tofile event while the heartbeat advanced OS_STALL_TICKS (~6 s when the machine is idle)
OS_STALL_TICKS = 300
OS_CAP_TICKS = 2500  # absolute cap of one run
OS_WALL_CAP = 300.0  # safety net in seconds


class _Boom(BaseException):
    """Injected failure that is *not* an `Exception` (like KeyboardInterrupt): the writer's `except BaseException`
    (external_data.py 643) must still stop the pool before the exception leaves."""


class _Abort(BaseException):
    """Raised inside controlled threads to unwind them when a run is abandoned."""


class _Timeout(BaseException):
    """Real code called in the main thread of this process did not return within its limit; `args[0]` is the
    `nontermination:*` signature."""


@contextlib.contextmanager
def alarm_guard(seconds, signature):
    """SIGALRM guard around real code that runs in the main thread of this (worker) process and could loop on a
    mutated tree: the serial reference save, the dry runs of `tofile`, `_shard_tensors`.  Raises `_Timeout(signature)`;
    `_work` / `run` turn it into `fail(signature, ..)`.  Nested guards restore the outer timer."""
    if _rt.current_thread() is not _rt.main_thread():
        yield
        return

    def handler(sig, frm):
        raise _Timeout(signature)

    old = signal.signal(signal.SIGALRM, handler)
    t0 = time.time()
    prev = signal.setitimer(signal.ITIMER_REAL, seconds)
    try:
        yield
    finally:
        left = max(prev[0] - (time.time() - t0), 0.05) if prev[0] > 0 else 0
        signal.signal(signal.SIGALRM, old)
        signal.setitimer(signal.ITIMER_REAL, left)


MAX_WRITES = 100000  # writes of one `tofile` call into a harness destination (the generators need < 50)
EXTERNAL_KINDS = ("external", "exth")  # tensor objects that are instances of ir.ExternalTensor
REAL_PLAIN_KINDS = ("ir", "external")  # plain instances of ir.Tensor / ir.ExternalTensor (class-level hook)


@contextlib.contextmanager
def chunk_patched(case):
    """`_core._EXTERNAL_TENSOR_COPY_CHUNK_SIZE` (1 MiB) is set to the case's `chunk` for the duration of one run, so
    that the ExternalTensor branch of `_reservation_bytes` (`min(length, chunk)`) and the copy loop of
    `ExternalTensor.tofile` are exercised with the few-byte tensors of the generators."""
    k = case.get("chunk")
    if k is None:
        yield
        return
    from onnx_ir import _core

    old = _core._EXTERNAL_TENSOR_COPY_CHUNK_SIZE
    _core._EXTERNAL_TENSOR_COPY_CHUNK_SIZE = k
    try:
        yield
    finally:
        _core._EXTERNAL_TENSOR_COPY_CHUNK_SIZE = old


# --------------------------------------------------------------------------- controlled scheduler


class CThread:
    def __init__(self, tid):
        self.tid = tid
        self.sem = _rt.Semaphore(0)
        self.pending = None  # description of the operation the thread will perform when resumed
        self.exited = False
        self.notified = False
        self.job = None
        self.task = None  # tensor index the thread is working on
        self.next_task = None
        self.thread = None
        self.outcome = None
        self.pool = None  # pool whose thread this is (None: the main thread)
        self.executor = None
        self.phase = None  # "pre": callback of the current tensor not run yet; "post": run
        self.pre_locks = 0  # locks taken so far in phase "pre" of the current tensor


class Sched:
    """Director side of the baton: exactly one controlled thread runs between two parks."""

    def __init__(self, gcfg):
        self.gcfg = gcfg
        self.cv = _rt.Condition()
        self.running = 0
        self.by_ident = {}
        self.main = None
        self.workers = []
        self.abort = False
        self.choice = None
        self.locks = []
        self.conds = []
        self.executors = []
        self.task_done = {}  # tensor index -> "doneOk" / "doneErr"
        self.unknown_ops = []

    # -- called by controlled threads
    def cur(self) -> CThread:
        return self.by_ident[_rt.get_ident()]

    def controlled(self) -> bool:
        return _rt.get_ident() in self.by_ident

    def park(self, op):
        if self.abort:
            # the run is over (`kill`): a thread that was woken with _Abort reaches further shim operations in the
            # `finally` / `with` exits of the implementation; parking again would block it for ever (leaked thread)
            raise _Abort()
        ct = self.cur()
        ct.pending = op
        if op[0] == "lock" and ct.pool is not None and ct.next_task is not None and op[1].role == "tensor":
            # a pool thread reaches a tensor lock (the outermost lock of `_write_tensor`): it is starting its next
            # tensor
            if ct.task is not None:
                self.task_done[ct.task] = "doneOk"
            ct.task = ct.next_task
            ct.next_task += 1
        with self.cv:
            self.running -= 1
            self.cv.notify_all()
        ct.sem.acquire()
        if self.abort:
            raise _Abort()
        ct.pending = None

    def spawn(self, ct: CThread, fn):
        with self.cv:
            self.running += 1

        def boot():
            self.by_ident[_rt.get_ident()] = ct
            try:
                fn()
            except _Abort:
                pass
            finally:
                ct.exited = True
                ct.pending = None
                with self.cv:
                    self.running -= 1
                    self.cv.notify_all()

        ct.thread = _rt.Thread(target=boot, daemon=True)
        ct.thread.start()

    # -- called by the director
    def resume(self, ct: CThread):
        with self.cv:
            self.running += 1
        ct.sem.release()

    def wait_quiet(self) -> bool:
        with self.cv:
            return self.cv.wait_for(lambda: self.running == 0, STEP_TIMEOUT)

    def kill(self):
        self.abort = True
        for ct in [self.main] + self.workers:
            if ct is not None and not ct.exited:
                with self.cv:
                    self.running += 1
                ct.sem.release()
        with self.cv:
            self.cv.wait_for(lambda: self.running <= 0, 5.0)


def _owned_pool(sched):
    """Pool of the executor the current thread creates: pool 0 for the main thread, the sub pool of the job a
    driver thread is running otherwise (None: not foreseen by the configuration)."""
    ct = sched.cur()
    if ct is sched.main:
        return 0
    if ct.job is None or ct.job >= len(sched.gcfg["jobs"]):
        return None
    return sched.gcfg["jobs"][ct.job]["sub"]


class SLock:
    """Shim lock.  Its role is not taken from the source text of /repo:
    * "tensor": the lock objects found (by identity) in the dict returned by `_create_tensor_write_locks`;
    * "cbin" / "cb": a lock a pool thread takes (under the tensor lock) *before* the callback of its current
      tensor has run — the first one is the inner writer's own callback lock when the configuration's pool has
      one, the next one the lock that guards the callback;
    * "aux": anything else (the `files` list lock): never held across a park point, so it is taken without
      parking; should it ever be found held, the acquire parks and shows up as a model / code difference."""

    def __init__(self, sched: Sched, role=None):
        self.sched, self.role = sched, role
        self.owner = None
        self.obj = None
        self.pool = None
        sched.locks.append(self)

    def _resolve(self, ct):
        want = None
        if ct.pool is not None and ct.phase == "pre" and getattr(ct, "in_tensor", False):
            inner = self.sched.gcfg["pools"][ct.pool]["innerCb"]
            want = "cbin" if (inner and ct.pre_locks == 0) else "cb"
        else:
            want = "aux"
        if self.role is None:
            self.role = want
            if want == "cbin":
                self.pool = ct.pool
        elif self.role != "tensor" and self.role != want:
            self.role = f"?{self.role}-used-as-{want}"
        return self.role

    def acquire(self, blocking=True, timeout=-1):
        ct = self.sched.cur()
        role = self.role if self.role == "tensor" else self._resolve(ct)
        if role != "aux" or self.owner is not None:
            self.sched.park(("lock", self))
        if self.owner is not None:
            raise RuntimeError("controlled scheduler resumed a thread on a held lock")
        self.owner = ct
        if role in ("cb", "cbin"):
            ct.pre_locks += 1
        elif role == "tensor":
            ct.in_tensor = True
        return True

    def release(self):
        if self.owner is None:
            raise RuntimeError("release unlocked lock")
        ct = self.owner
        self.owner = None
        if self.role == "tensor":
            # the tensor is finished: the thread's next tensor lock belongs to its next tensor
            ct.phase, ct.pre_locks, ct.in_tensor = "pre", 0, False

    def locked(self):
        return self.owner is not None

    def __enter__(self):
        self.acquire()
        return True

    def __exit__(self, *a):
        self.release()
        return False


class SCond:
    def __init__(self, sched: Sched, holder):
        self.sched = sched
        self.owner = None
        self.waiters = []
        self.holder = holder  # the _ByteBudget instance (self of the creating frame)
        sched.conds.append(self)

    def __enter__(self):
        # which budget operation this is follows from where the thread is, not from names in /repo: after its
        # tensor's `tofile` has returned (or raised) it is the release, before that the acquire
        ct = self.sched.cur()
        kind = "release" if getattr(ct, "wrote", False) else "acquire"
        self.sched.park(("cond", self, kind))
        if self.owner is not None:
            raise RuntimeError("controlled scheduler resumed a thread on a held condition lock")
        self.owner = ct
        ct.cond_kind = kind
        return self

    def __exit__(self, *a):
        ct = self.owner
        self.owner = None
        if ct is not None and getattr(ct, "cond_kind", None) == "release":
            ct.wrote = False
        return False

    def acquire(self, *a, **k):
        self.__enter__()
        return True

    def release(self):
        self.owner = None

    def wait(self, timeout=None):
        ct = self.sched.cur()
        if self.owner is not ct:
            raise RuntimeError("cannot wait on un-acquired lock")
        ct.notified = False
        self.waiters.append(ct)
        self.owner = None
        self.sched.park(("wait", self))
        self.owner = ct
        return True

    def wait_for(self, predicate, timeout=None):
        result = predicate()
        while not result:
            self.wait()
            result = predicate()
        return result

    def notify(self, n=1):
        if self.owner is not self.sched.cur():
            raise RuntimeError("cannot notify on un-acquired lock")
        for w in self.waiters[:n]:
            w.notified = True
        del self.waiters[:n]

    def notify_all(self):
        self.notify(len(self.waiters))

    notifyAll = notify_all


class SFuture:
    def __init__(self, sched, job):
        self.sched, self.job = sched, job
        self.state = "pending"
        self.value = None
        self.exc = None
        self.collected = False

    def done(self):
        return self.state in ("ok", "err", "cancelled")

    def cancelled(self):
        return self.state == "cancelled"

    def result(self, timeout=None):
        if not self.collected:
            self.sched.park(("result", self))
            self.collected = True
        if self.state == "err":
            raise self.exc
        if self.state == "cancelled":
            import concurrent.futures as cf

            raise cf.CancelledError()
        return self.value

    def exception(self, timeout=None):
        if not self.collected:
            self.sched.park(("result", self))
            self.collected = True
        return self.exc


class SExecutor:
    def __init__(self, sched: Sched, max_workers=None, **kw):
        self.sched = sched
        self.queue = []
        self.futs = []
        self.shutdown_flag = False
        self.cancel_called = False
        self.joined = False
        self.max_workers = max_workers or 1
        self.pool = _owned_pool(sched)
        self.owner = sched.cur()
        self.threads = []
        sched.executors.append(self)
        base = len(sched.workers)
        for k in range(self.max_workers):
            ct = CThread(f"w{base + k}")
            ct.executor = self
            ct.pool = self.pool
            sched.workers.append(ct)
            self.threads.append(ct)
            sched.spawn(ct, self._worker)

    def submit(self, fn, *a, **kw):
        self.sched.park(("submit", self))
        if self.shutdown_flag:
            raise RuntimeError("cannot schedule new futures after shutdown")
        pj = self.sched.gcfg["pools"][self.pool]["jobs"] if self.pool is not None else []
        fut = SFuture(self.sched, pj[len(self.futs)] if len(self.futs) < len(pj) else 10**6 + len(self.futs))
        fut.ex = self
        self.futs.append(fut)
        self.queue.append((fut, fn, a, kw))
        return fut

    def _worker(self):
        sched = self.sched
        ct = sched.cur()
        while True:
            sched.park(("take", self))
            if self.queue:
                fut, fn, a, kw = self.queue.pop(0)
                fut.state = "running"
                ct.job = fut.job
                ct.task = None
                jc = sched.gcfg["jobs"][fut.job] if fut.job < len(sched.gcfg["jobs"]) else None
                ct.next_task = jc["start"] if jc is not None and jc["sub"] is None else None
                ct.phase, ct.pre_locks = "pre", 0
                try:
                    fut.value = fn(*a, **kw)
                    fut.state = "ok"
                except _Abort:
                    raise
                except BaseException as e:  # noqa: BLE001 - stored in the future like the real executor
                    fut.exc = e
                    fut.state = "err"
                if ct.task is not None:
                    sched.task_done[ct.task] = "doneOk" if fut.state == "ok" else "doneErr"
                ct.task = None
                ct.job = None
            elif self.shutdown_flag:
                return
            else:
                raise RuntimeError("controlled scheduler resumed an idle worker on an empty queue")

    def shutdown(self, wait=True, *, cancel_futures=False):
        self.shutdown_flag = True
        if cancel_futures:
            self.cancel_called = True
            for fut, *_ in self.queue:
                fut.state = "cancelled"
            self.queue = []
        if wait:
            self.sched.park(("join", self))
            self.joined = True

    def __enter__(self):
        return self

    def __exit__(self, *a):
        self.shutdown(wait=True)
        return False


def _s_as_completed(sched: Sched):
    def as_completed(fs, timeout=None):
        pending = list(fs)
        while pending:
            sched.park(("collect", pending))
            ready = [f for f in pending if f.done() and not f.collected]
            pick = None
            if sched.choice is not None:
                pick = next((f for f in ready if f.job == sched.choice), None)
            if pick is None:
                pick = ready[0]
            pick.collected = True
            pending.remove(pick)
            yield pick

    return as_completed


def install_shim(ed, sched: Sched):
    """Replace, inside onnx_ir.external_data only, threading / concurrent.futures."""
    saved = (ed.threading, ed.concurrent, getattr(ed, "_create_tensor_write_locks", None))
    orig_create = saved[2]
    if orig_create is None:
        raise RuntimeError("onnx_ir.external_data has no _create_tensor_write_locks: the shim cannot identify the "
                           "per-tensor locks")

    def create_tensor_write_locks(tensors):
        locks = orig_create(tensors)
        for lk in locks.values():  # identity: exactly the lock objects the writer will use per tensor object
            if isinstance(lk, SLock):
                lk.role = "tensor"
        return locks

    ed._create_tensor_write_locks = create_tensor_write_locks

    def Lock():
        return SLock(sched)

    def Condition(lock=None):
        holder = sys._getframe(1).f_locals.get("self")
        return SCond(sched, holder)

    ed.threading = types.SimpleNamespace(
        Lock=Lock, RLock=Lock, Condition=Condition, local=_rt.local, get_ident=_rt.get_ident
    )
    ed.concurrent = types.SimpleNamespace(
        futures=types.SimpleNamespace(
            ThreadPoolExecutor=lambda max_workers=None, **kw: SExecutor(sched, max_workers, **kw),
            as_completed=_s_as_completed(sched),
        )
    )
    return saved


def uninstall_shim(ed, saved):
    ed.threading, ed.concurrent, ed._create_tensor_write_locks = saved


# --------------------------------------------------------------------------- cases, tensors, oracle state


def json_key(obj) -> str:
    import json

    return json.dumps(obj, sort_keys=True, default=str)


def obj_bytes(o: int, size: int) -> bytes:
    return bytes(((o * 37 + k * 11) % 251) + 1 for k in range(size))


class RunState:
    """Per-run bookkeeping used by the fake tensors / callback; the oracle reads it afterwards."""

    def __init__(self, case, sched=None, jitter=None):
        self.case = case
        self.sched = sched
        self.jitter = jitter  # OS-scheduled runs: random tiny sleeps
        self.meta = _rt.Lock()
        self.tls = _rt.local()
        self.log = []
        self.in_cb = 0
        self.active = {}  # obj -> number of threads inside tofile
        self.active_bytes = 0
        self.max_active_bytes = 0
        self.tofile_calls = []
        self.problems = []  # (signature, text)
        self.budgets = []
        self.progress = 0  # bumped by every callback / tofile entry and exit
        self.cb_objs = {}  # obj -> callbacks currently looking at it (cases with "touch": the callback evaluates)
        self.real = {}  # id(plain ir.Tensor / ir.ExternalTensor instance) -> (object index, measured peak bytes)

    def dest(self, file, o):
        """Destination handed to the real `tofile` of an ExternalTensor: with `ucopy` a wrapper without `fileno`, so
        that the portable userspace copy loop runs instead of `copy_file_range`."""
        if self.case.get("ucopy") and self.case["objs"][o].get("kind") in EXTERNAL_KINDS:
            return _NoFileno(file)
        return file

    def problem(self, sig, text):
        with self.meta:
            if len(self.problems) < 20:
                self.problems.append((sig, text))


class FTensor:
    """Minimal TensorProtocol object; one instance per tensor *object* (may back several initializers)."""

    def __init__(self, st_ref, o, size):
        import onnx_ir as ir

        self._st = st_ref
        self.o = o
        self.name = f"t{o}"
        self.dtype = ir.DataType.UINT8
        self.shape = ir.Shape([size])
        self._nbytes = size
        self.size = size
        self.data = obj_bytes(o, size)
        self.doc_string = None
        self.metadata_props = {}
        self.meta = {}

    @property
    def nbytes(self):
        # OS-scheduled runs: a tiny random sleep also where the writers read the size (between taking a tensor lock and
        # reserving the budget): widens the windows in which a lock-order inversion can bite (seeded C09-r1)
        st = self._st[0]
        if st is not None and st.sched is None and st.jitter is not None and getattr(st, "os_writing", False):
            time.sleep(st.jitter())
        return self._nbytes

    def tobytes(self):
        return self.data

    def tofile(self, file):
        return hooked_tofile(self._st, self.o, self._nbytes, file, lambda f: f.write(self.data))


class _NoFileno:
    """A destination that only has `write`: `ExternalTensor.tofile` takes its userspace copy loop."""

    def __init__(self, f):
        self._f = f
        self.sizes = []

    def write(self, d):
        self.sizes.append(len(d))
        if len(self.sizes) > MAX_WRITES:  # a copy loop that does not end must not fill the disk
            raise RuntimeError("nontermination: tofile keeps writing (more than %d writes)" % MAX_WRITES)
        return self._f.write(d)


class _PeakSink:
    """Dry-run destination: records the sizes of the buffers the real `tofile` hands to `write`."""

    def __init__(self):
        self.sizes = []

    def write(self, d):
        self.sizes.append(len(d))
        if len(self.sizes) > MAX_WRITES:
            raise _Timeout("nontermination:tofile-dry-run")
        return len(d)


_ORIG_TOFILE = {}


def orig_tofile():
    """The unpatched `ir.Tensor.tofile` / `ir.ExternalTensor.tofile`."""
    if not _ORIG_TOFILE:
        import onnx_ir as ir

        _ORIG_TOFILE.update(t=ir.Tensor.tofile, e=ir.ExternalTensor.tofile)
    return _ORIG_TOFILE


def measure_peak(tensor, external):
    """What the REAL `tofile` of this object materialises at most at one time (independent of the model): a dry run
    into a sink without `fileno` (userspace path), largest buffer handed to `write`."""
    sink = _PeakSink()
    with alarm_guard(30, "nontermination:tofile-dry-run"):
        orig_tofile()["e" if external else "t"](tensor, sink)
    return max(sink.sizes, default=0)


@contextlib.contextmanager
def real_classes_hooked(st_ref):
    """Class-level hook (in this process only): `ir.Tensor.tofile` / `ir.ExternalTensor.tofile` become the real method
    preceded by `hooked_tofile` (oracle bookkeeping + the controlled scheduler's yield point) for the instances
    registered in the run state; PLAIN instances of the two classes are thereby driven by the controlled scheduler
    too, and the OS-scheduled runs get the oracle's bookkeeping for them."""
    import onnx_ir as ir

    orig = orig_tofile()

    def mk(real):
        def tofile(self, file):
            st = st_ref[0]
            reg = st.real.get(id(self)) if st is not None else None
            if reg is None:
                return real(self, file)
            o, peak = reg
            return hooked_tofile(st_ref, o, peak, file, lambda f: real(self, st.dest(f, o)))

        return tofile

    ir.Tensor.tofile, ir.ExternalTensor.tofile = mk(orig["t"]), mk(orig["e"])
    try:
        yield
    finally:
        ir.Tensor.tofile, ir.ExternalTensor.tofile = orig["t"], orig["e"]


def hooked_tofile(st_ref, o, nbytes, file, write):
    """The body every tensor object of the harness runs as its `tofile`: bookkeeping for the oracle, the yield point
    of the controlled scheduler ("body", "write"), failure injection, then `write(file)` — the fake tensor's
    `file.write(data)` or the REAL `ir.Tensor.tofile` / `ir.ExternalTensor.tofile` (kinds "irh" / "exth" through
    subclasses, "ir" / "external" through the class-level hook).  `nbytes` is what the oracle accounts as materialised
    while the call is active: the tensor's nbytes, for an ExternalTensor the MEASURED largest copy buffer."""
    st: RunState = st_ref[0]
    task = getattr(st.tls, "task", None)
    if st.sched is not None and st.case.get("nocb"):
        # no callback tells us which use of the object this is: the controlled thread knows its tensor
        task = st.sched.cur().task
    with st.meta:
        st.progress += 1
        st.active[o] = st.active.get(o, 0) + 1
        if st.case.get("touch") and st.cb_objs.get(o, 0) > 0:
            st.problems.append(("callback-evaluates-during-write",
                                f"tensor object {o} is written while the callback of another of its uses "
                                "is evaluating it"))
        if st.active[o] > 1:
            st.problems.append(("tensor-concurrent", f"tensor object {o} evaluated by two threads at once"))
        st.active_bytes += nbytes
        st.max_active_bytes = max(st.max_active_bytes, st.active_bytes)
        st.tofile_calls.append(task)
    try:
        fails = task is not None and st.case["tensors"][task]["fails"]
        if st.sched is not None:
            st.sched.cur().write_failed = bool(fails)
            st.sched.park(("body", "write"))
        elif st.jitter is not None:
            time.sleep(st.jitter())
        if fails:
            if st.case["tensors"][task].get("exc") == "base":
                raise _Boom(f"injected write failure for tensor {task}")
            raise RuntimeError(f"injected write failure for tensor {task}")
        write(file)
    finally:
        if st.sched is not None:
            st.sched.cur().wrote = True
        with st.meta:
            st.progress += 1
            st.active[o] -= 1
            st.active_bytes -= nbytes


_REAL_CLASSES = {}


def real_classes():
    """Subclasses of the real `ir.Tensor` / `ir.ExternalTensor` whose `tofile` is the real one wrapped in
    `hooked_tofile`: real tensor inputs become drivable by the controlled scheduler (`_reservation_bytes` takes its
    ExternalTensor branch, `ir.Tensor.tofile` its numpy / fileno branch)."""
    if not _REAL_CLASSES:
        import onnx_ir as ir

        class HTensor(ir.Tensor):
            def tofile(self, file):
                return hooked_tofile(self._h_st, self.o, self.nbytes, file, lambda f: orig_tofile()["t"](self, f))

        class HExternal(ir.ExternalTensor):
            def tofile(self, file):
                st = self._h_st[0]
                return hooked_tofile(self._h_st, self.o, self._h_peak, file,
                                     lambda f: orig_tofile()["e"](self, st.dest(f, self.o)))

        _REAL_CLASSES.update(irh=HTensor, exth=HExternal)
    return _REAL_CLASSES


def make_callback(st_ref):
    def cb(tensor, info):
        st: RunState = st_ref[0]
        with st.meta:
            st.progress += 1
            st.in_cb += 1
            if st.in_cb > 1:
                st.problems.append(("callback-concurrent", "progress callback entered by two threads at once"))
            o = getattr(tensor, "o", None)
            if st.case.get("touch") and o is not None:
                # this callback evaluates the tensor it is given (the callback runs before the tensor lock is taken)
                st.cb_objs[o] = st.cb_objs.get(o, 0) + 1
                if st.active.get(o, 0) > 0:
                    st.problems.append(("callback-evaluates-during-write",
                                        f"the callback evaluates tensor object {o} while another use of it is "
                                        "being written"))
        try:
            if st.sched is not None:
                st.sched.park(("body", "cb"))
                st.sched.cur().phase = "post"
            elif st.jitter is not None:
                time.sleep(st.jitter())
            st.log.append(info.index)
            st.tls.task = info.index
        finally:
            with st.meta:
                st.in_cb -= 1
                if st.case.get("touch") and o is not None:
                    st.cb_objs[o] -= 1
        if st.case["tensors"][info.index]["cbFails"]:
            if st.case["tensors"][info.index].get("exc") == "base":
                raise _Boom(f"injected callback failure for tensor {info.index}")
            raise RuntimeError(f"injected callback failure for tensor {info.index}")

    return cb


class FTensorNoToFile:
    """TensorProtocol object from before `tofile` existed (external_data.py 392-397 `file.write(tobytes())`)."""

    def __init__(self, st_ref, o, size):
        self._f = FTensor(st_ref, o, size)
        for k in ("name", "dtype", "shape", "nbytes", "size", "doc_string", "metadata_props", "meta", "o", "data"):
            setattr(self, k, getattr(self._f, k))

    def tobytes(self):
        # the same bookkeeping as FTensor.tofile, around the materialisation
        class _Sink:
            def __init__(self):
                self.b = b""

            def write(self, d):
                self.b += d

        sink = _Sink()
        self._f.tofile(sink)
        return sink.b


def build_tensors(case, st_ref, src_dir=None):
    """One Python object per tensor *object* of the case.  kind: "fake" (FTensor, default), "notofile" (no `tofile`),
    "irh" / "exth" (the real ir.Tensor / ExternalTensor with a hooked `tofile`: drivable by the controlled scheduler;
    "exth" needs src_dir), and for OS-scheduled runs only "ir" (a plain real ir.Tensor over numpy), "external" (a
    plain real ExternalTensor backed by a file in src_dir: `_reservation_bytes` takes its chunk branch)."""
    import numpy as np
    import onnx_ir as ir

    objs = []
    st = st_ref[0]
    orig_tofile()
    for o, d in enumerate(case["objs"]):
        kind = d.get("kind", "fake")
        if kind == "notofile":
            objs.append(FTensorNoToFile(st_ref, o, d["size"]))
        elif kind == "ir":
            t = ir.Tensor(np.frombuffer(obj_bytes(o, d["size"]), dtype=np.uint8).copy(), name=f"t{o}")
            if st is not None:
                st.real[id(t)] = (o, measure_peak(t, False))
            objs.append(t)
        elif kind in EXTERNAL_KINDS and src_dir is not None:
            fn = f"src{o}.bin"
            with open(os.path.join(src_dir, fn), "wb") as f:
                f.write(b"\x07" * 3 + obj_bytes(o, d["size"]))
            cls = ir.ExternalTensor if kind == "external" else real_classes()["exth"]
            t = cls(fn, 3, d["size"], ir.DataType.UINT8, shape=ir.Shape([d["size"]]), name=f"t{o}", base_dir=src_dir)
            peak = measure_peak(t, True)  # under the case's chunk size (the callers patch it)
            if kind == "exth":
                t._h_st, t.o, t._h_peak = st_ref, o, peak
            elif st is not None:
                st.real[id(t)] = (o, peak)
            objs.append(t)
        elif kind == "irh":
            t = real_classes()["irh"](np.frombuffer(obj_bytes(o, d["size"]), dtype=np.uint8).copy(), name=f"t{o}")
            t._h_st, t.o = st_ref, o
            objs.append(t)
        else:
            objs.append(FTensor(st_ref, o, d["size"]))
    return [objs[t["obj"]] for t in case["tensors"]]


def case_sizes(case):
    return [case["objs"][t["obj"]]["size"] for t in case["tensors"]]


def reservations(case):
    """Budget reservation of every tensor, from the REAL `_reservation_bytes` on real objects of the case's kinds
    (an `ir.ExternalTensor` for the external kinds — its constructor touches no file —, a non-ExternalTensor object
    otherwise), under the case's copy chunk size.  This is the `size` of the writer configurations read off the code;
    the model computes it with `reservationBytes` (`planArgs`, `writern.plan`)."""
    import onnx_ir as ir
    from onnx_ir import external_data as ed

    sizes = case_sizes(case)
    out = []
    with chunk_patched(case):
        for i, t in enumerate(case["tensors"]):
            if case["objs"][t["obj"]].get("kind") in EXTERNAL_KINDS:
                obj = ir.ExternalTensor("x.bin", 0, sizes[i], ir.DataType.UINT8, shape=ir.Shape([sizes[i]]), name="x",
                                        base_dir="/nonexistent-c09")
            else:
                obj = object()
            out.append(ed._reservation_bytes(obj, sizes[i]))
    return out


def case_align(case):
    """(alignment, align_threshold) of a case; alignment None = dense packing."""
    return case.get("align"), case.get("athr", 1 << 20)


def layout_offsets(case, idxs):
    """Offsets of the tensors `idxs` within one file, from the real `_align_offset` (C07's subject)."""
    from onnx_ir import external_data as ed

    sizes = case_sizes(case)
    al, thr = case_align(case)
    offs, cur = [], 0
    for i in idxs:
        off = ed._align_offset(cur, sizes[i], al, thr)
        offs.append(off)
        cur = off + sizes[i]
    return offs, max([o + sizes[i] for o, i in zip(offs, idxs)], default=0)


def shards_of(case):
    """Shard assignment (lists of tensor indices), taken from the real `_shard_tensors` (C07's subject)."""
    from onnx_ir import external_data as ed

    st_ref = [None]
    tensors = build_tensors(case, st_ref)
    al, thr = case_align(case)
    with alarm_guard(30, "nontermination:shard-tensors"):
        groups = ed._shard_tensors(tensors, case["shard"], al, thr)
    out, k = [], 0
    for g in groups:
        out.append(list(range(k, k + len(g))))
        k += len(g)
    return out


def single_file(case):
    """Name of the data file when the save writes one file with the single-file parallel writer: mode "parallel",
    or a sharded save whose tensors all fit in one shard (`len(shard_jobs) == 1`, external_data.py 897-911: no shard
    pool, `max_workers` goes to the one inner writer).  None otherwise."""
    if case["mode"] == "parallel":
        return "w.data"
    if len(shards_of(case)) == 1:
        from onnx_ir import external_data as ed

        return ed._get_shard_filename("w.data", 1, 1)
    return None


def model_cfg(case):
    """The configuration of the flat Lean model `IrVerif.Writer`; None when the case is not one of the flat
    modes (single-file parallel writer; shard drivers with serial writers)."""
    sizes = case_sizes(case)
    res = reservations(case)
    n = len(sizes)
    W = case["workers"]

    def tensor(i, job, file, off):
        t = case["tensors"][i]
        return dict(obj=t["obj"], size=res[i], fails=t["fails"], cbFails=t["cbFails"], job=job, file=file,
                    off=off, data=list(obj_bytes(t["obj"], sizes[i])))

    if single_file(case) is not None:
        if not (W > 1 and n > 1):
            return None
        offs, total = layout_offsets(case, list(range(n)))
        return dict(workers=W, capacity=max(case["cap"], 1), nObjs=len(case["objs"]), mode="parallel",
                    tensors=[tensor(i, i, 0, offs[i]) for i in range(n)], jobStarts=list(range(n)),
                    files=[[0] * total])
    shards = shards_of(case)
    if not (W > 1 and len(shards) > 1):
        return None
    sw = min(W, len(shards))
    wps = max(1, (W - sw) // sw)
    if wps > 1 and any(len(g) > 1 for g in shards):
        return None  # some shard driver runs a parallel writer: general model only
    starts, tens = [], []
    for j, g in enumerate(shards):
        starts.append(g[0])
        offs, _total = layout_offsets(case, g)
        tens += [tensor(i, j, j, off) for i, off in zip(g, offs)]
    return dict(workers=sw, capacity=max(case["cap"], 1), nObjs=len(case["objs"]), mode="shards",
                tensors=tens, jobStarts=starts, files=[[] for _ in shards])


def general_cfg(case):
    """The configuration of the general (nested) Lean model `IrVerif.WriterN` for a case: a tree of pools.
    None when the save is not concurrent at all."""
    sizes = case_sizes(case)
    res = reservations(case)
    n = len(sizes)
    W = case["workers"]

    def tensor(i, job, file, off):
        t = case["tensors"][i]
        return dict(obj=t["obj"], size=res[i], fails=t["fails"], cbFails=t["cbFails"], job=job, file=file,
                    off=off, data=list(obj_bytes(t["obj"], sizes[i])))

    base = dict(capacity=max(case["cap"], 1), nObjs=max(t["obj"] for t in case["tensors"]) + 1)
    if single_file(case) is not None:
        if not (W > 1 and n > 1):
            return None
        offs, total = layout_offsets(case, list(range(n)))
        return dict(base, tensors=[tensor(i, i, 0, offs[i]) for i in range(n)],
                    pools=[dict(size=W, asCompleted=True, jobs=list(range(n)), innerCb=False, parent=None)],
                    jobs=[dict(pool=0, start=i, sub=None) for i in range(n)], files=[[0] * total])
    shards = shards_of(case)
    S = len(shards)
    if not (W > 1 and S > 1):
        return None
    sw = min(W, S)
    wps = max(1, (W - sw) // sw)
    pools = [dict(size=sw, asCompleted=False, jobs=list(range(S)), innerCb=False, parent=None)]
    jobs = [None] * S
    tens = [None] * n
    files = []
    for j, g in enumerate(shards):
        offs, total = layout_offsets(case, g)
        if wps > 1 and len(g) > 1:
            # the shard driver runs `_write_parallel`: an inner pool whose jobs are the shard's tensors
            q = len(pools)
            inner = []
            for i, off in zip(g, offs):
                jid = len(jobs)
                jobs.append(dict(pool=q, start=i, sub=None))
                inner.append(jid)
                tens[i] = tensor(i, jid, j, off)
            pools.append(dict(size=wps, asCompleted=True, jobs=inner, innerCb=True, parent=j))
            jobs[j] = dict(pool=0, start=g[0], sub=q)
            files.append([0] * total)
        else:
            for i, off in zip(g, offs):
                tens[i] = tensor(i, j, j, off)
            jobs[j] = dict(pool=0, start=g[0], sub=None)
            files.append([])
    return dict(base, tensors=tens, pools=pools, jobs=jobs, files=files)


def plan_request(case):
    """`writern.plan`: the arguments of the save, nothing else — Lean computes shards, offsets, pool tree and
    start images (`planCfg`, Model/WriterPlan.lean) with C07's layout functions."""
    sizes = case_sizes(case)
    al, athr = case_align(case)
    req = {"m": "writern.plan",
           # no reservation is sent: Lean computes it (`reservationBytes`) from `external`, the bytes and the chunk
           # size (its own constant `copyChunkSize` when the case does not patch the repo's)
           "ts": [dict(obj=t["obj"], external=case["objs"][t["obj"]].get("kind") in EXTERNAL_KINDS, fails=t["fails"],
                       cbFails=t["cbFails"], data=list(obj_bytes(t["obj"], sizes[i])))
                  for i, t in enumerate(case["tensors"])],
           "maxShard": case["shard"] if case["mode"] == "shards" else None, "al": al, "athr": athr,
           "workers": case["workers"], "capacity": case["cap"]}
    if case.get("chunk") is not None:
        req["chunk"] = case["chunk"]
    return req


def check_plan(part, name, case, gcfg, plan):
    """The configuration Lean derives from the arguments alone must be the one the harness reads off the real
    `_align_offset` / `_shard_tensors` and the repo's executor sizes (`general_cfg`); its decidable side
    conditions are evaluated although C09_plan_layout / C09_plan_wf prove them for all inputs (a check of the driver)."""
    info = {"config": name, "case": case, "mode": "plan"}
    if "err" in plan:
        part.disagree("driver error (writern.plan): " + str(plan["err"]), info)
        return
    pc = plan.get("cfg")
    kind = "none" if pc is None else ("single" if len(pc["pools"]) == 1 and pc["pools"][0]["asCompleted"]
                                      else "nested" if len(pc["pools"]) > 1 else "sharded")
    part.count(f"plan={kind}")
    if pc != gcfg:
        diff = None
        if isinstance(pc, dict) and isinstance(gcfg, dict):
            diff = sorted(k for k in set(pc) | set(gcfg) if pc.get(k) != gcfg.get(k))
        part.disagree(f"configuration planned by the model (planCfg) differs from the one read off the real code in {diff}",
                      info, model=pc, impl=gcfg)
    if pc is not None:
        for k in ("wf", "layout", "prealloc"):
            part.count(f"plan_{k}={bool(plan.get(k))}")
            if not plan.get(k):
                part.disagree(f"planned configuration does not satisfy {k}b", info)
        part.count("plan_one_file=" + str(plan.get("shards", 0) <= 1))


def flat_label(lab):
    k, a, b = lab
    return [0, b] if k == 0 else [k, 0] if k in (1, 2) else [3, a]


def flat_obs(o):
    """Projection of an observation of the general model / the real run onto the vocabulary of the flat model."""
    P = o["pools"][0]
    return dict(main=P["owner"], queue=P["queue"], futs=o["futs"], idle=P["idle"], exited=P["exited"], tasks=o["tasks"],
                cb=o["cb"], tl=o["tl"], inflight=o["inflight"], oversized=o["oversized"], shutdown=P["shutdown"],
                log=o["log"], enabled=[flat_label(l) for l in o["enabled"]], terminal=o["terminal"])


def call_writer(case, tensors, cb, base_dir, workers):
    from onnx_ir import external_data as ed

    return ed._write_external_tensors(
        tensors,
        base_dir,
        "w.data",
        max_shard_size_bytes=case["shard"] if case["mode"] == "shards" else None,
        callback=cb,
        max_workers=workers,
        max_in_flight_bytes=case["cap"],
        alignment=case_align(case)[0],
        align_threshold=case_align(case)[1],
    )


def canon_result(ext):
    """What `unload_from_model` zips onto the initializers: per input position (file, offset, length, name)."""
    return [[os.path.basename(str(t.location)), t.offset, t.length, t.name] for t in ext]


def read_files(base_dir):
    out = {}
    for fn in sorted(os.listdir(base_dir)):
        p = os.path.join(base_dir, fn)
        if os.path.isfile(p):
            with open(p, "rb") as f:
                out[fn] = list(f.read())
    return out


_TMP_ROOT = "/dev/shm" if os.path.isdir("/dev/shm") else None


def clean_stale_dirs(max_age_s=1800):
    """Remove run directories left behind by killed / hung earlier runs."""
    root = _TMP_ROOT or tempfile.gettempdir()
    now = time.time()
    try:
        names = os.listdir(root)
    except OSError:
        return
    for fn in names:
        if fn.startswith(("c09c-", "c09o-", "c09s-", "c09-hang-")):  # "c09c-src-" included
            p = os.path.join(root, fn)
            try:
                if now - os.path.getmtime(p) > max_age_s:
                    shutil.rmtree(p, ignore_errors=True) if os.path.isdir(p) else os.remove(p)
            except OSError:
                pass


def serial_reference(case):
    """The serial save (max_workers=None) of the same tensors, no failures injected: {"files": name -> bytes,
    "result": canon_result of the returned ExternalTensors}."""
    clean = dict(case, tensors=[dict(t, fails=False, cbFails=False) for t in case["tensors"]])
    st_ref = [RunState(clean)]
    tensors = build_tensors(clean, st_ref)
    d = tempfile.mkdtemp(prefix="c09s-", dir=_TMP_ROOT)
    try:
        with alarm_guard(120, "nontermination:serial-save"):
            ext = call_writer(clean, tensors, make_callback(st_ref), d, None)
        return {"files": read_files(d), "result": canon_result(ext)}
    finally:
        shutil.rmtree(d, ignore_errors=True)


# --------------------------------------------------------------------------- controlled run (director)

OBS_KEYS = ["main", "queue", "futs", "idle", "exited", "tasks", "cb", "tl", "inflight", "oversized",
            "shutdown", "log", "enabled", "terminal"]  # flat model vocabulary
GOBS_KEYS = ["pools", "futs", "tasks", "cb", "cbin", "tl", "inflight", "oversized", "log", "enabled", "terminal"]


def _op_pc(ct: CThread):
    op = ct.pending
    if op is None:
        return "?running"
    k = op[0]
    if k == "lock":
        return {"cb": "cbAcq", "cbin": "cbAcqIn", "tensor": "tAcq"}.get(op[1].role, "?lock:" + op[1].role)
    if k == "body":
        return "cbBody" if op[1] == "cb" else "write"
    if k == "cond":
        if op[2] == "acquire":
            return "bAcq"
        if op[2] == "release":
            return "bRelErr" if getattr(ct, "write_failed", False) else "bRelOk"
        return "?cond:" + str(op[2])
    if k == "wait":
        return "woken" if ct.notified else "waiting"
    return "?" + k


def _op_enabled(ct: CThread):
    op = ct.pending
    if op is None:
        return False
    k = op[0]
    if k == "lock":
        return op[1].owner is None
    if k == "body":
        return True
    if k == "cond":
        return op[1].owner is None
    if k == "wait":
        return ct.notified and op[1].owner is None
    return False


class Director:
    def __init__(self, case, gcfg):
        from onnx_ir import external_data as ed

        self.ed = ed
        self.case, self.gcfg = case, gcfg
        self.n = len(case["tensors"])
        self.njobs = len(gcfg["jobs"])
        self.npools = len(gcfg["pools"])
        self.sched = Sched(gcfg)
        self.st = RunState(case, sched=self.sched)
        self.st_ref = [self.st]
        self.dir = tempfile.mkdtemp(prefix="c09c-", dir=_TMP_ROOT)
        self.src = None
        if any(d.get("kind") in EXTERNAL_KINDS for d in case["objs"]):
            self.src = tempfile.mkdtemp(prefix="c09c-src-", dir=_TMP_ROOT)
        self.at_return = None
        self.result = None
        self.prealloc = []  # (pool, file index, bytes found on disk when the pool's executor appeared)
        self.seen_executors = 0
        import random

        self.pick_rng = random.Random(hash(json_key(case)) & 0xFFFFFFF)

    # ---- the controlled main thread
    def _main_body(self):
        ct = self.sched.cur()
        tensors = self.tensors
        try:
            cb = None if self.case.get("nocb") else make_callback(self.st_ref)
            ext = call_writer(self.case, tensors, cb, self.dir, self.case["workers"])
            self.result = canon_result(ext)
            ct.outcome = "returned"
        except _Abort:
            raise
        except BaseException as e:  # noqa: BLE001
            ct.outcome = "raised"
            ct.exc = repr(e)[:200]
        # the moment the call returns / the exception reaches the caller
        self.at_return = self.quiescence()

    def quiescence(self):
        s = self.sched
        buds = [c.holder for c in s.conds if c.holder is not None]
        return dict(
            workers_alive=sum(1 for w in s.workers if not w.exited),
            inflight=sum(getattr(b, "_in_flight", 0) for b in buds),
            oversized=any(bool(getattr(b, "_oversized_active", False)) for b in buds),
            locks_held=sum(1 for l in s.locks if l.owner is not None) + sum(1 for c in s.conds if c.owner is not None),
            active_tofile=sum(self.st.active.values()),
            waiters=sum(len(c.waiters) for c in s.conds),
        )

    # ---- observation of the real state, in the (general) model's vocabulary
    def _owner_op(self, ex):
        """(thread, op kind) of the owner of executor `ex` if it is parked on an operation of that executor."""
        t = ex.owner
        if t.exited or not t.pending:
            return t, None
        op = t.pending
        k = op[0]
        tgt = op[1] if k in ("submit", "join") else op[1].ex if k == "result" else (op[1][0].ex if k == "collect" and op[1] else None)
        return t, (k if tgt is ex else None)

    def _temp_files(self):
        """basename -> bytes of the files inside the writer's temporary directories (`.{name}.xxxx/{name}`)."""
        out = {}
        try:
            for d in os.listdir(self.dir):
                dp = os.path.join(self.dir, d)
                if d.startswith(".") and os.path.isdir(dp):
                    for fn in os.listdir(dp):
                        with open(os.path.join(dp, fn), "rb") as f:
                            out[fn] = list(f.read())
        except OSError:
            pass
        return out

    def _note_prealloc(self):
        """The start image: when the executor of a parallel writer appears (`_write_parallel` creates it right after
        `open(.., "wb"); truncate(total_size)`, and the owner parks at its first submit) the data file it is going to
        fill is read from disk.  Compared with the model's initial image (`planCfg` / `cfg.files`) in `_compare`."""
        s = self.sched
        if len(s.executors) == self.seen_executors:
            return
        new = s.executors[self.seen_executors:]
        self.seen_executors = len(s.executors)
        files = None
        S = len(self.gcfg["files"])
        for ex in new:
            q = ex.pool
            if q is None or q >= self.npools or not self.gcfg["pools"][q]["asCompleted"]:
                continue
            parent = self.gcfg["pools"][q]["parent"]
            fidx = 0 if parent is None else parent
            if files is None:
                files = self._temp_files()
            sf = single_file(self.case)
            name = sf if sf is not None else self.ed._get_shard_filename("w.data", fidx + 1, S)
            self.prealloc.append([q, fidx, files.get(name)])

    def observe(self):
        s, st = self.sched, self.st
        self._note_prealloc()
        M = s.main
        by_pool = {ex.pool: ex for ex in s.executors if ex.pool is not None}
        futs = ["pending"] * self.njobs
        for ex in s.executors:
            for f in ex.futs:
                if f.job < self.njobs:
                    futs[f.job] = f.state
        tasks = ["notStarted"] * self.n
        for i, v in s.task_done.items():
            if 0 <= i < self.n:
                tasks[i] = v
        tl = [False] * self.gcfg["nObjs"]
        for w in s.workers:
            if w.task is not None and not w.exited and 0 <= w.task < self.n:
                tasks[w.task] = _op_pc(w)
        for l in s.locks:
            if l.role == "tensor" and l.owner is not None and l.owner.task is not None:
                tl[self.case["tensors"][l.owner.task]["obj"]] = True
        cbin = [False] * self.npools
        for l in s.locks:
            if l.role == "cbin" and l.owner is not None and l.pool is not None:
                cbin[l.pool] = True
        bud = s.conds[0].holder if s.conds else None
        pools, owners_en, pool_en = [], [], []
        runnable = False
        for q in range(self.npools):
            ex = by_pool.get(q)
            if ex is None:
                pools.append(dict(owner="notCreated", queue=[], idle=0, exited=0, shutdown=False))
                continue
            t, k = self._owner_op(ex)
            if q == 0 and M.exited:
                owner = M.outcome or "?exited"
            elif ex.joined:
                owner = "raised" if ex.cancel_called else "returned"
            else:
                owner = {"submit": "submit", "collect": "collect", "result": "collect", "join": "join"}.get(k, "?" + str(k))
            takers = [w for w in ex.threads if not w.exited and w.pending and w.pending[0] == "take"]
            pools.append(dict(owner=owner, queue=[f.job for f, *_ in ex.queue], idle=len(takers),
                              exited=sum(1 for w in ex.threads if w.exited), shutdown=bool(ex.shutdown_flag)))
            if k == "submit":
                owners_en.append([0, q, 0])
            elif k == "collect":
                owners_en += [[0, q, f.job] for f in sorted(t.pending[1], key=lambda f: f.job) if f.done() and not f.collected]
            elif k == "result":
                if t.pending[1].done():
                    owners_en.append([0, q, 0])
            elif k == "join":
                if all(w.exited for w in ex.threads):
                    owners_en.append([0, q, 0])
            if takers and ex.queue:
                pool_en.append([1, q, 0])
            if takers and not ex.queue and ex.shutdown_flag:
                pool_en.append([2, q, 0])
            if takers and (ex.queue or ex.shutdown_flag):
                runnable = True
        task_en = []
        for i in range(self.n):
            for w in s.workers:
                if w.task == i and not w.exited and _op_enabled(w):
                    task_en.append([3, i, 0])
        enabled = owners_en + sorted(pool_en, key=lambda l: (l[1], l[0])) + task_en
        self.raw_runnable = bool(runnable or owners_en or any(not w.exited and _op_enabled(w) for w in s.workers))
        return dict(
            pools=pools,
            futs=futs,
            tasks=tasks,
            cb=any(l.role == "cb" and l.owner is not None for l in s.locks),
            cbin=cbin,
            tl=tl,
            inflight=getattr(bud, "_in_flight", 0),
            oversized=bool(getattr(bud, "_oversized_active", False)),
            log=list(st.log),
            enabled=enabled,
            terminal=bool(M.exited),
        )

    def resolve(self, label):
        s = self.sched
        k, a, b = label
        ex = next((e for e in s.executors if e.pool == a), None) if k in (0, 1, 2) else None
        if k == 0:
            if ex is None:
                return None
            t, op = self._owner_op(ex)
            if op is None:
                return None
            s.choice = b
            return t
        if k in (1, 2):
            if ex is None:
                return None
            idle = [w for w in ex.threads if not w.exited and w.pending and w.pending[0] == "take"]
            # pool threads are interchangeable in the model; which real thread acts is varied (thread-local file
            # handles, per-thread state)
            return self.pick_rng.choice(idle) if idle else None
        for w in s.workers:
            if w.task == a and not w.exited:
                return w
        return None

    def run(self, chooser):
        """chooser(step_index, obs) -> label or None.  Returns the trace."""
        s = self.sched
        with chunk_patched(self.case), real_classes_hooked(self.st_ref):
            # the tensor objects are built (and their `tofile` dry-run measured) here, in the calling thread, where
            # the SIGALRM guard works
            self.tensors = build_tensors(self.case, self.st_ref, self.src)
            return self._run(chooser)

    def _run(self, chooser):
        s = self.sched
        saved = install_shim(self.ed, s)
        labels, trace, status = [], [], "ok"
        try:
            s.main = CThread("main")
            s.spawn(s.main, self._main_body)
            if not s.wait_quiet():
                status = "hang"
            while status == "ok":
                obs = self.observe()
                trace.append(obs)
                if any(ex.pool is None or len(ex.threads) != self.gcfg["pools"][ex.pool]["size"] for ex in s.executors):
                    status = "pool-size"
                    break
                if obs["terminal"]:
                    break
                lab = chooser(len(labels), obs)
                if lab is None:
                    status = "deadlock" if not self.raw_runnable else "stopped"
                    break
                if lab not in obs["enabled"]:
                    status = "not-enabled"
                    labels.append(lab)
                    break
                ct = self.resolve(lab)
                if ct is None:
                    status = "not-enabled"
                    labels.append(lab)
                    break
                labels.append(lab)
                s.resume(ct)
                if not s.wait_quiet():
                    status = "hang"
            files = read_files(self.dir) if status == "ok" else {}
        finally:
            if status != "ok" or not s.main.exited:
                s.kill()
            uninstall_shim(self.ed, saved)
            shutil.rmtree(self.dir, ignore_errors=True)
            if self.src is not None:
                shutil.rmtree(self.src, ignore_errors=True)
        return dict(labels=labels, trace=trace, status=status, files=files, outcome=s.main.outcome, result=self.result,
                    at_return=self.at_return, prealloc=self.prealloc, problems=list(self.st.problems), log=list(self.st.log),
                    max_active_bytes=self.st.max_active_bytes, tofile_calls=list(self.st.tofile_calls))


def run_controlled(case, gcfg, chooser, part=None):
    """One controlled run.  A step that does not reach its next park point within STEP_TIMEOUT may be a genuine
    hang or a starved thread on a loaded machine: the controlled scheduler is deterministic, so the same label
    sequence is executed again (with a longer limit) and "hang" is reported only when it happens again at the
    same step."""
    global STEP_TIMEOUT
    res = Director(case, gcfg).run(chooser)
    if res["status"] != "hang":
        return res
    labels = [list(l) for l in res["labels"]]
    it = iter(labels)
    old = STEP_TIMEOUT
    STEP_TIMEOUT = 3 * old
    try:
        res2 = Director(case, gcfg).run(lambda k, obs: next(it, None))
    finally:
        STEP_TIMEOUT = old
    if res2["status"] == "hang" and len(res2["labels"]) == len(labels):
        return res2
    if part is not None:
        part.count("controlled_step_timeout_not_reproduced")
    if res2["status"] == "stopped":  # the prefix ran through this time: not a complete run, drop it
        return None
    return res2


def run_os_confirmed(case, seed, part=None):
    """OS-scheduled run.  A stall is confirmed by running the same case / seed once more with a longer limit; a
    stall that does not happen again is neither a pass nor a violation: it is reported as an infrastructure
    problem (exit 2)."""
    r = run_os(case, seed)
    if r["status"] != "hang":
        return r
    r2 = run_os(case, seed, stall_ticks=2 * OS_STALL_TICKS)
    if r2["status"] != "hang":
        if part is not None:
            part.count("os_stall_not_reproduced")
            part["extra"]["infra"] = (
                "an OS-scheduled run made no progress for the stall limit but completed when repeated: "
                + json_key({"case": case, "seed": seed}))
    return r2


def oracle(case, res, serial, mode_tag, out):
    """The property itself on the real run.  `out.fail(signature, what, case)`."""
    sizes = case_sizes(case)
    n = len(sizes)
    cap = max(case["cap"], 1)
    info = {"case": case, "labels": res.get("labels"), "mode": mode_tag}
    for sig, text in res["problems"]:
        out.fail(f"{mode_tag}:{sig}", text, info)
    log = res["log"]
    if len(set(log)) != len(log):
        out.fail(f"{mode_tag}:callback-twice", f"callback invoked more than once for a tensor: log={log}", info)
    if res["status"] == "deadlock":
        out.fail(f"{mode_tag}:deadlock", "no thread can make progress before the save returned", info)
        return
    if res["status"] == "hang":
        out.fail(f"{mode_tag}:hang", "a step did not reach the next synchronisation point (blocking call outside the shim, or save did not terminate)", info)
        return
    if res["status"] != "ok":
        return
    if res["max_active_bytes"] > cap + max(sizes):
        out.fail(f"{mode_tag}:bytes-bound", f"materialised bytes {res['max_active_bytes']} > budget {cap} + largest {max(sizes)}", info)
    for t in ([] if case.get("nocb") else res["tofile_calls"]):
        if t is None or t not in log:
            out.fail(f"{mode_tag}:write-without-callback", f"tensor {t} written without its callback having been called", info)
    q = res["at_return"]
    if q is None:
        out.fail(f"{mode_tag}:no-return", "main thread ended without reaching the caller", info)
        return
    if q["workers_alive"] or q["inflight"] or q["oversized"] or q["locks_held"] or q["active_tofile"] or q["waiters"]:
        out.fail(f"{mode_tag}:not-quiescent-{res['outcome']}",
                 f"when the call {res['outcome']} the writer was not quiescent: {q}", info)
    anyfail = any(t["fails"] or t["cbFails"] for t in case["tensors"])
    if res["outcome"] == "returned":
        if anyfail:
            out.fail(f"{mode_tag}:error-swallowed", "a tensor failed but the save returned normally", info)
        if not case.get("nocb") and sorted(log) != list(range(n)):
            out.fail(f"{mode_tag}:callback-missing", f"successful save but callback log is {log}", info)
        if res["files"] != serial["files"]:
            out.fail(f"{mode_tag}:bytes-differ", "files differ from the serial save", info)
        ret = res.get("result")
        if ret != serial["result"]:
            out.fail(f"{mode_tag}:result-differs",
                     "the external tensors returned for the initializers (file, offset, length, name per input "
                     f"position) differ from the serial save: {ret} != {serial['result']}", info)
        elif ret is not None:
            # read every initializer back through its (file, offset, length): must be its own bytes
            for i, (fn, off, ln, _name) in enumerate(ret):
                want = list(obj_bytes(case["tensors"][i]["obj"], sizes[i]))
                got = res["files"].get(fn, [])[off: off + ln]
                if got != want:
                    out.fail(f"{mode_tag}:readback-differs", f"initializer {i} reads back {got} instead of {want}", info)
                    break
    elif res["outcome"] == "raised" and not anyfail:
        out.fail(f"{mode_tag}:spurious-error", f"no failure injected but the save raised {res.get('exc')}", info)


# --------------------------------------------------------------------------- OS-scheduled runs (no shim)


def run_os(case, seed, stall_ticks=OS_STALL_TICKS):
    """Plain run with the real threading / ThreadPoolExecutor; random tiny sleeps in callback and tofile."""
    st_ref = [None]
    with chunk_patched(case), real_classes_hooked(st_ref):
        return _run_os(case, seed, stall_ticks, st_ref)


def _run_os(case, seed, stall_ticks, st_ref):
    import random

    from onnx_ir import external_data as ed

    rng = random.Random(seed)
    delays = [0.0, 0.0, 0.0002, 0.001]
    st = RunState(case, sched=None, jitter=lambda: delays[rng.randrange(len(delays))])
    st_ref[0] = st
    src = tempfile.mkdtemp(prefix="c09o-src-", dir=_TMP_ROOT)
    tensors = build_tensors(case, st_ref, src)
    budgets = []
    orig = ed._ByteBudget

    class RecBudget(orig):  # records the instances so that the oracle can read the counters
        def __init__(self, capacity):
            super().__init__(capacity)
            budgets.append(self)

    d = tempfile.mkdtemp(prefix="c09o-", dir=_TMP_ROOT)
    res = dict(labels=None, status="ok", problems=st.problems, outcome=None, at_return=None, files={})
    before = {t.ident for t in _rt.enumerate()}

    def body():
        try:
            st.os_writing = True
            ext = call_writer(case, tensors, None if case.get("nocb") else make_callback(st_ref), d, case["workers"])
            res["result"] = canon_result(ext)
            res["outcome"] = "returned"
        except BaseException as e:  # noqa: BLE001
            res["outcome"] = "raised"
            res["exc"] = repr(e)[:200]
        alive = [t for t in _rt.enumerate() if t.ident not in before and t is not _rt.current_thread()
                 and t.name != "c09-heartbeat"]
        res["at_return"] = dict(
            workers_alive=len(alive),
            inflight=sum(b._in_flight for b in budgets),
            oversized=any(b._oversized_active for b in budgets),
            locks_held=0,
            active_tofile=sum(st.active.values()),
            waiters=0,
        )

    ed._ByteBudget = RecBudget
    try:
        th = _rt.Thread(target=body, daemon=True)
        hb = [0]
        stop_hb = _rt.Event()

        def heartbeat():
            while not stop_hb.is_set():
                time.sleep(0.02)
                hb[0] += 1

        hbt = _rt.Thread(target=heartbeat, daemon=True, name="c09-heartbeat")
        hbt.start()
        th.start()
        t0 = time.time()
        seen, last_tick = -1, 0
        while True:
            th.join(0.1)
            if not th.is_alive():
                break
            if st.progress != seen:
                seen, last_tick = st.progress, hb[0]
            if hb[0] - last_tick > stall_ticks or hb[0] > OS_CAP_TICKS or time.time() - t0 > OS_WALL_CAP:
                res["status"] = "hang"
                break
        stop_hb.set()
        if res["status"] == "ok":
            res["files"] = read_files(d)
    finally:
        ed._ByteBudget = orig
        shutil.rmtree(d, ignore_errors=True)  # also after a hang: blocked threads write nothing any more
        shutil.rmtree(src, ignore_errors=True)
    res["log"] = list(st.log)
    res["max_active_bytes"] = st.max_active_bytes
    res["tofile_calls"] = list(st.tofile_calls)
    return res


# --------------------------------------------------------------------------- generators


def fixed_cases(thorough=False):
    """Small configurations explored exhaustively (every transition of the reachable state graph)."""
    T = lambda o, f=False, c=False: dict(obj=o, fails=f, cbFails=c)  # noqa: E731
    extra = [
        # thorough tier: 3 workers, 4 tensors (oversized + shared object), with and without a failure;
        # 3 shard drivers on 3 shards
        ("par-3w-4t-oversized-shared-failing",
         dict(mode="parallel", workers=3, cap=4, shard=None, objs=[dict(size=3), dict(size=6), dict(size=2)],
              tensors=[T(0), T(1, True), T(0), T(2)])),
        ("par-3w-4t-oversized-shared",
         dict(mode="parallel", workers=3, cap=4, shard=None, objs=[dict(size=3), dict(size=6), dict(size=2)],
              tensors=[T(0), T(1), T(0), T(2)])),
        ("shards-3w-3shards",
         dict(mode="shards", workers=3, cap=2, shard=3, objs=[dict(size=3), dict(size=1), dict(size=2)],
              tensors=[T(0), T(1), T(2), T(1)])),
    ]
    nested = [
        # nested writers: 2 shards x 2 inner workers (max_workers=6), 4 tensors, tensor 1 oversized (5 > 4),
        # object 0 shared by tensors 0 and 2 (different shards), tensor 3 fails
        ("nested-2x2w-4t-oversized-shared-failing",
         dict(mode="shards", workers=6, cap=4, shard=7, objs=[dict(size=2), dict(size=5), dict(size=2)],
              tensors=[T(0), T(1), T(0), T(2, True)])),
    ]
    nested.append(
        # MIXED shard writers (seeded C09-r1): shard 0 = [X, T] is written by a parallel inner writer, shard 1 = [T] by the
        # serial writer (one tensor), T is ONE object shared by both shards and oversized (5 > 4): the two writers must take
        # the tensor lock and the shared budget in the same order
        ("nested-mixed-serial-parallel-shared-oversized",
         dict(mode="shards", workers=6, cap=4, shard=7, objs=[dict(size=2), dict(size=5)],
              tensors=[T(0), T(1), T(1)])))
    extra += [
        ("nested-2x2w-4t-oversized-shared",
         dict(mode="shards", workers=6, cap=4, shard=7, objs=[dict(size=2), dict(size=5), dict(size=2)],
              tensors=[T(0), T(1), T(0), T(2)])),
    ]
    nested.append(
        # nested writers without a callback: the inner callback lock is taken and released around nothing, the outer
        # `_locked_callback` does not exist; two failing tensors in different shards
        ("nested-2x2w-4t-nocb-two-failing",
         dict(mode="shards", workers=6, cap=4, shard=7, nocb=True, objs=[dict(size=2), dict(size=5), dict(size=2)],
              tensors=[T(0), T(1, True), T(0), T(2, True)])))
    nested += [
        # callback=None on the single-file writer (callback lock taken around nothing), tensors without `tofile`
        # (`file.write(tensor.tobytes())`), one failing in `tobytes`
        ("par-2w-3t-nocb-notofile-failing",
         dict(mode="parallel", workers=2, cap=4, shard=None, nocb=True,
              objs=[dict(size=3, kind="notofile"), dict(size=6, kind="notofile")],
              tensors=[T(0), T(1, True), T(0)])),
        # real ir.Tensor / ExternalTensor objects (hooked tofile), one shared, one failing, callback given
        ("par-2w-3t-real-tensors-failing",
         dict(mode="parallel", workers=2, cap=4, shard=None,
              objs=[dict(size=3, kind="irh"), dict(size=6, kind="exth")],
              tensors=[T(0), T(1, True), T(0)])),
        # callback=None with serial shard drivers: no callback lock at all
        ("shards-2w-2x2-nocb",
         dict(mode="shards", workers=2, cap=3, shard=4, nocb=True, objs=[dict(size=2), dict(size=2, kind="notofile")],
              tensors=[T(0), T(1), T(0), T(1)])),
        # two failing tensors in two different shards (tensor 0 in shard 0, tensor 2 in shard 1), callback given
        ("shards-2w-3shards-two-failing",
         dict(mode="shards", workers=2, cap=2, shard=3, objs=[dict(size=3), dict(size=1), dict(size=2)],
              tensors=[T(0, True), T(1), T(2, False, True), T(1)])),
    ]
    nested.append(
        # PLAIN instances of ir.Tensor / ir.ExternalTensor (class-level hook), copy chunk size patched to 3: the
        # ExternalTensor of 7 bytes reserves min(7, 3) = 3 <= 4 (a regular reservation; its nbytes would be oversized),
        # userspace copy loop forced (reads of 3, 3, 1 bytes)
        ("par-2w-3t-plain-real-chunked",
         dict(mode="parallel", workers=2, cap=4, shard=None, chunk=3, ucopy=True,
              objs=[dict(size=3, kind="ir"), dict(size=7, kind="external")],
              tensors=[T(0), T(1), T(0)])))
    nested.append(
        # aligned layout inside shards: the limit (4200) admits a second, aligned tensor (offset 4096) per shard; two
        # shards x two tensors written by concurrent serial shard drivers
        ("shards-2w-2x2-aligned",
         dict(mode="shards", workers=2, cap=4, shard=4200, align=1, athr=1,
              objs=[dict(size=3), dict(size=2), dict(size=3), dict(size=2)], tensors=[T(0), T(1), T(2), T(3)])))
    nested.append(
        # aligned layout (alignment=1 -> 4096): holes between the tensors
        ("par-2w-2t-aligned",
         dict(mode="parallel", workers=2, cap=4, shard=None, align=1, athr=1, objs=[dict(size=3), dict(size=2)],
              tensors=[T(0), T(1)])))
    return (extra if thorough else []) + nested + [
        # 2 workers, 3 tensors: one oversized (6 > 4), one object shared by tensors 0 and 2, tensor 1 fails
        ("par-2w-3t-oversized-shared-failing",
         dict(mode="parallel", workers=2, cap=4, shard=None, objs=[dict(size=3), dict(size=6)],
              tensors=[T(0), T(1, True), T(0)])),
        # the same without a failure (success path: bytes, callback exactly once)
        ("par-2w-3t-oversized-shared",
         dict(mode="parallel", workers=2, cap=4, shard=None, objs=[dict(size=3), dict(size=6)],
              tensors=[T(0), T(1), T(0)])),
        # regular reservations that do not fit together (3 + 3 > 4): wait / wake-up on the regular path
        ("par-2w-3t-regular-contention",
         dict(mode="parallel", workers=2, cap=4, shard=None, objs=[dict(size=3), dict(size=3), dict(size=2)],
              tensors=[T(0), T(1), T(2)])),
        # two oversized tensors + a failing callback
        ("par-2w-3t-two-oversized-cbfail",
         dict(mode="parallel", workers=2, cap=2, shard=None, objs=[dict(size=3), dict(size=4), dict(size=1)],
              tensors=[T(0), T(1), T(2, False, True)])),
        # shard drivers: 2 shards x 2 tensors sharing one budget, one object shared across shards
        ("shards-2w-2x2-shared",
         dict(mode="shards", workers=2, cap=3, shard=4, objs=[dict(size=2), dict(size=2)],
              tensors=[T(0), T(1), T(0), T(1)])),
        ("shards-2w-3shards-failing",
         dict(mode="shards", workers=2, cap=2, shard=3, objs=[dict(size=3), dict(size=1), dict(size=2)],
              tensors=[T(0), T(1, True), T(2), T(1)])),
    ]


def random_case(rng, big: bool, allow_nested=False, os_only=False):
    mode = "parallel" if rng.random() < 0.65 else "shards"
    n = rng.randint(2, 7 if big else 5)
    nobj = rng.randint(max(1, n - 2), n)
    cap = rng.choice([1, 2, 3, 4, 6, 8, 12])
    objs = [dict(size=rng.choice([0, 1, 2, 3, 4, 5, 7, 9, 13])) for _ in range(nobj)]
    order = list(range(nobj)) + [rng.randrange(nobj) for _ in range(n - nobj)]
    rng.shuffle(order)
    r = rng.random()
    nfail = 0 if r < 0.45 else (1 if r < 0.8 else (2 if r < 0.95 or n < 3 else 3))
    failing = set(rng.sample(range(n), nfail))
    tensors = [dict(obj=o, fails=(i in failing and rng.random() < 0.8), cbFails=False) for i, o in enumerate(order)]
    for i in failing:
        if not tensors[i]["fails"]:
            tensors[i]["cbFails"] = True
        if rng.random() < 0.3:
            tensors[i]["exc"] = "base"  # a BaseException that is not an Exception
    workers = rng.randint(2, 5 if big else 4)
    case = dict(mode=mode, workers=workers, cap=cap, shard=None, objs=objs, tensors=tensors)
    if rng.random() < 0.1 and len({t["obj"] for t in tensors}) < n:
        case["touch"] = True  # the callback evaluates the tensor it is handed (regression probe for D170)
    if rng.random() < 0.08:
        # aligned layout: offsets of tensors larger than the threshold are multiples of max(4096, alignment),
        # the gaps are holes (serial writer) / preallocated zeros (parallel writer)
        case["align"] = rng.choice([1, 4096])
        case["athr"] = rng.choice([0, 1, 2, 4])
    if mode == "shards":
        total = sum(case_sizes(case))
        case["shard"] = max(1, rng.choice([total // 2, total // 3, max(s["size"] for s in objs), 2, 4, total + 1]) or 1)
        if case.get("align") is not None and rng.random() < 0.6:
            # a limit that admits aligned tensors (offsets are multiples of 4096) inside a shard
            big = max(s["size"] for s in objs)
            case["shard"] = rng.choice([4096 + big, 8192 + big, 4096 * n + total])
        if allow_nested and rng.random() < 0.5:
            case["workers"] = rng.randint(6, 9)
        if nfail >= 2:
            # several failing tensors: put two of them into different shards whenever there are two shards
            sh = shards_of(case)
            where = {i: j for j, g in enumerate(sh) for i in g}
            f = sorted(failing)
            if len(sh) > 1 and len({where[i] for i in f}) == 1:
                k = rng.choice([i for i in range(n) if where[i] != where[f[0]]])
                a, b = tensors[f[-1]], tensors[k]
                for key in ("fails", "cbFails", "exc"):
                    va, vb = a.pop(key, None), b.pop(key, None)
                    if vb is not None:
                        a[key] = vb
                    if va is not None:
                        b[key] = va
    if not os_only:
        # driven by the controlled scheduler as well: the default `callback=None` (the model's `stepNC`) and tensor
        # objects without `tofile` (`file.write(tensor.tobytes())`), failing ones included
        if rng.random() < 0.2:
            case["nocb"] = True
            case.pop("touch", None)
            for t in tensors:
                if t["cbFails"]:
                    t["cbFails"], t["fails"] = False, True
        if rng.random() < 0.3:
            for d in objs:
                if rng.random() < 0.6:
                    d["kind"] = rng.choice(["notofile", "notofile", "irh", "exth", "ir", "external"])
    if os_only:
        # variations that the controlled scheduler does not drive: the default callback=None path (no callback
        # lock, no `_locked_callback`), tensors without `tofile`, real ir.Tensor / ExternalTensor inputs
        r2 = rng.random()
        if r2 < 0.2 and nfail == 0:
            case["nocb"] = True
            case.pop("touch", None)
        elif r2 < 0.45:
            failing_objs = {t["obj"] for t in tensors if t["fails"]}
            for o, d in enumerate(objs):
                if o not in failing_objs and rng.random() < 0.6:
                    d["kind"] = rng.choice(["notofile", "ir", "external"])
    if any(d.get("kind") in EXTERNAL_KINDS for d in objs):
        # ExternalTensor inputs: a copy chunk size of a few bytes (the reservation `min(length, chunk)` then differs
        # from nbytes) and, half of the time, the userspace copy loop instead of `copy_file_range`
        if rng.random() < 0.7:
            case["chunk"] = rng.choice([1, 2, 3, 4, 8])
        if rng.random() < 0.5:
            case["ucopy"] = True
    return case


# --------------------------------------------------------------------------- work items (run in worker processes)


def _diff_traces(part, what, info, mobs, trace, keys, r, stuck):
    """First difference between the model's and the implementation's observation sequences."""
    for k, (a, b) in enumerate(zip(mobs, trace)):
        a = {x: a[x] for x in keys}
        b = {x: b[x] for x in keys}
        if a != b:
            diff = {x: (a[x], b[x]) for x in keys if a[x] != b[x]}
            part.disagree(f"{what}: state after step {k} differs in {sorted(diff)}", info,
                          model={x: v[0] for x, v in diff.items()}, impl={x: v[1] for x, v in diff.items()})
            return False
    if stuck is not None and r["status"] == "ok":
        part.disagree(f"{what}: label {r['labels'][stuck]} taken by the implementation is not enabled in the model", info)
        return False
    if r["status"] == "ok" and len(mobs) != len(trace):
        part.disagree(f"{what}: trace lengths differ", info, model=len(mobs), impl=len(trace))
        return False
    return r["status"] == "ok"


def _compare(part, name, case, gcfg, results, serial, plan=True):
    """Models vs implementation on the schedules actually executed + oracle on every run.

    Every run is compared with the general model `IrVerif.WriterN` (`writern.run`); runs of the flat modes
    (single-file parallel writer, shard drivers with serial writers) are compared with `IrVerif.Writer`
    (`writer.run`) as well, through the projection `flat_obs` / `flat_label`."""
    nocb = bool(case.get("nocb"))
    # the flat model has no callback-less variant: callback=None runs are compared with the general model's
    # macro-step system (`stepNC`, Model/WriterNC.lean; `"nc": true`)
    fcfg = None if nocb else model_cfg(case)
    gkeys = [k for k in GOBS_KEYS if not (nocb and k == "log")]
    kinds = "+".join(sorted({d.get("kind", "fake") for d in case["objs"]}))
    shards = shards_of(case) if case["mode"] == "shards" else [list(range(len(case["tensors"])))]
    failing = [i for i, t in enumerate(case["tensors"]) if t["fails"] or t["cbFails"]]
    failing_shards = len({j for j, g in enumerate(shards) for i in g if i in failing})
    reqs = []
    for r in results:
        reqs.append({"m": "writern.run", "cfg": gcfg, "sched": r["labels"], "nc": nocb})
        if fcfg is not None:
            reqs.append({"m": "writer.run", "cfg": fcfg, "sched": [flat_label(l) for l in r["labels"]]})
    # the flat configuration translated by the model (`toN`, C09_flat_is_general) must be the general configuration
    # read off the code, and the flat run translated state by state the general run — also for callback=None
    # cases, whose flat runs are `stepNC` runs of the translated configuration
    flat_any = model_cfg(case)
    if flat_any is not None:
        reqs.append({"m": "writern.flat", "cfg": flat_any,
                     "sched": [flat_label(l) for l in results[0]["labels"]] if results and not nocb else []})
    if plan:
        reqs.append(plan_request(case))
    outs = lean_batch(reqs) if reqs else []
    if plan:
        check_plan(part, name, case, gcfg, outs[-1])
    if flat_any is not None:
        fo = outs[-2] if plan else outs[-1]
        part.count("flat_is_general_checked")
        if "err" in fo:
            part.disagree("driver error (writern.flat): " + str(fo["err"]), {"config": name, "case": case})
        else:
            if fo.get("cfg") != gcfg:
                part.disagree("the flat configuration translated by the model (toN) differs from the general "
                              "configuration read off the real code", {"config": name, "case": case},
                              model=fo.get("cfg"), impl=gcfg)
            if not fo.get("agree") or not fo.get("wf"):
                part.disagree("flat run translated by absState is not the general model's run (or toN cfg not WF)",
                              {"config": name, "case": case})
    per = 2 if fcfg is not None else 1
    nested = model_cfg(case) is None
    for idx, r in enumerate(results):
        out = outs[per * idx]
        fout = outs[per * idx + 1] if fcfg is not None else None
        trace = r["trace"]
        waits = any("waiting" in o["tasks"] for o in trace)
        part.case(
            [name, case, r["labels"]],
            nontrivial=len(r["labels"]) > 0,
            sample={"config": name, "case": case, "schedule": r["labels"][:12] + (["..."] if len(r["labels"]) > 12 else [])},
            mode=case["mode"] + ("-nested" if nested else ""), workers=case["workers"],
            tensors=min(len(case["tensors"]), 8), outcome=r["outcome"],
            waited=waits, cancelled=any("cancelled" in o["futs"] for o in trace), steps=min(len(r["labels"]) // 10 * 10, 120),
            oversized=sum(1 for s in case_sizes(case) if s > max(case["cap"], 1)),
            shared=len(case["tensors"]) - len({t["obj"] for t in case["tensors"]}),
            callback="none" if nocb else "given", kinds=kinds, failing=min(len(failing), 3),
            failing_shards=failing_shards, chunk=case.get("chunk", "default"),
            copy="userspace" if case.get("ucopy") else "kernel-or-none",
            reservation_lt_nbytes=any(g["size"] < len(g["data"]) for g in gcfg["tensors"]),
        )
        info = {"config": name, "case": case, "labels": r["labels"], "mode": "controlled"}
        if "err" in out or (fout is not None and "err" in fout):
            part.disagree("driver error: " + str(out.get("err") or fout.get("err")), info)
            continue
        if not out.get("wf", False) or (fout is not None and not fout.get("wf", False)):
            part.disagree("generated configuration is not well-formed for the model (WF)", info)
        if r["status"] == "not-enabled":
            part.disagree(
                f"label {r['labels'][-1]} enabled in the model but not in the implementation (step {len(r['labels']) - 1})",
                info, model="enabled", impl=trace[-1]["enabled"] if trace else None)
        elif r["status"] == "pool-size":
            part.disagree("pool sizes differ from the model's", info)
        ok = _diff_traces(part, "general model", info, out["obs"], trace, gkeys, r, out["stuck"])
        if nocb and r["log"]:
            part.disagree("callback=None but a callback was logged", info, model=[], impl=r["log"])
        # the start image of every file a parallel writer fills: on disk when its executor appeared vs the model's
        for q, fidx, got in r.get("prealloc") or []:
            part.count("prealloc_images_compared")
            want = gcfg["files"][fidx] if fidx < len(gcfg["files"]) else None
            if got != want:
                part.disagree(f"start image of data file {fidx} (pool {q}) differs from the model's preallocated image",
                              info, model=want, impl=got)
        if fout is not None:
            ok = _diff_traces(part, "flat model", info, fout["obs"], [flat_obs(o) for o in trace], OBS_KEYS, r,
                              fout["stuck"]) and ok
        if ok:
            # final bytes: the models' image of every completed file vs the files on disk (a failed
            # single-file save / failed shard leaves no file: the temporary file is removed, C08)
            for which, o in (("general", out), ("flat", fout)):
                if o is None:
                    continue
                mf = o["final"]["files"]
                if single_file(case) is not None:
                    expect = {single_file(case): mf[0]} if r["outcome"] == "returned" else {}
                else:
                    from onnx_ir import external_data as ed

                    expect = {ed._get_shard_filename("w.data", j + 1, len(mf)): mf[j]
                              for j in range(len(mf)) if o["final"]["futs"][j] == "ok"}
                if expect != r["files"]:
                    part.disagree(f"{which} model: final file bytes differ", info, model=expect, impl=r["files"])
                if r["outcome"] == "returned" and o["serial"] != o["final"]["files"]:
                    part.disagree(f"{which} model: final image differs from the model's serial image", info)
        oracle(case, r, serial, "controlled", part)


def _hang_seen(item):
    m = item.get("marker")
    return bool(m) and os.path.exists(m)


def _mark_hang(item):
    m = item.get("marker")
    if m:
        try:
            open(m, "w").close()
        except OSError:
            pass


THREAD_LEAK_CAP = 300  # threads alive in one worker process


def _leak_capped(part):
    """A run that ends in a deadlock / hang of the implementation cannot join its threads: they stay blocked in this
    worker. Every such run has reported its failure already; once THREAD_LEAK_CAP threads are alive, no further run is
    started in this worker (seeded C09-r1: 16 workers x ~2000 blocked threads exhausted the machine's thread limit and
    the check ended with exit 2 instead of its violation). Threads alive without any reported failure = infrastructure."""
    n = _rt.active_count()
    if n <= THREAD_LEAK_CAP:
        return False
    part.count("thread_leak_cap_reached")
    _LEAK_STOP[0] = True  # judged at the end of the item (`_work`): the runs made so far are compared / reported first
    return True


_LEAK_STOP = [False]
_LEAK_FAILED = [False]  # some earlier item of this worker reported a failure (the leaked threads are its)


ITEM_TIMEOUT = 3600  # last resort per work item; the specific guards inside are much shorter


def _work(item):
    part = Part()
    part["extra"] = {}
    try:
        with alarm_guard(ITEM_TIMEOUT, "nontermination:work-item-" + item["kind"]):
            res = _work_inner(item, part)
            if part["failures"] or part["disagreements"]:
                _LEAK_FAILED[0] = True
            if _LEAK_STOP[0] and not _LEAK_FAILED[0] and not part["extra"].get("crash"):
                part["extra"]["crash"] = (f"{_rt.active_count()} threads alive in a worker although no run reported a "
                                          "failure")
            return res
    except _Timeout as e:
        part.fail(str(e.args[0]), "real code called in the main thread of a worker did not return within its limit",
                  {"item": {k: v for k, v in item.items() if k not in ("scheds", "cfg", "marker")}})
        return dict(part)


def _work_inner(item, part):
    kind = item["kind"]
    try:
        if kind == "sched":  # fixed schedules (from writer.cover) on one configuration
            case, cfg, name = item["case"], item["cfg"], item["name"]
            serial = serial_reference(case)
            results = []
            for sc in item["scheds"]:
                if _leak_capped(part):
                    break
                it = iter(sc)
                res = run_controlled(case, cfg, lambda k, obs, it=it: next(it, None), part)
                if res is None:
                    continue
                results.append(res)
                # a cover schedule is complete: it must end in a terminal state
                if results[-1]["status"] == "stopped":
                    results[-1]["status"] = "ok-incomplete"
                    part.disagree("implementation not terminal at the end of a complete model schedule",
                                  {"config": name, "case": case, "labels": sc})
                if len(results) >= 100:  # bound the memory held by traces
                    _compare(part, name, case, cfg, results, serial, plan=False)
                    results = []
            _compare(part, name, case, cfg, results, serial, plan=False)
            if part["disagreements"] and not part["failures"]:
                # the implementation left the model's schedules on this configuration (broken correspondence): search
                # its OWN reachable interleavings for a failing input - random walks over the transitions the
                # implementation enables (seeded C09-r1: a lock-order inversion the cover schedules cannot follow)
                import random

                rng = random.Random(f"search-{name}")
                results = []
                for _w in range(300):
                    if _leak_capped(part) or part["failures"]:
                        break
                    res = run_controlled(
                        case, cfg,
                        lambda k, obs: obs["enabled"][rng.randrange(len(obs["enabled"]))] if obs["enabled"] else None, part)
                    if res is not None:
                        results.append(res)
                    if len(results) >= 25:
                        _compare(part, name + ":search", case, cfg, results, serial, plan=False)
                        results = []
                        part.count("failing_input_search_walks", 25)
                _compare(part, name + ":search", case, cfg, results, serial, plan=False)
        elif kind == "walk":  # random walks on random configurations
            import random

            rng = random.Random(item["seed"])
            for _ in range(item["count"]):
                if _leak_capped(part):
                    break
                case = random_case(rng, item["big"], allow_nested=True)
                cfg = general_cfg(case)
                if cfg is None:
                    part.count("walk_skipped_unmodelled")
                    check_plan(part, "random", case, None, lean_batch([plan_request(case)])[0])
                    continue
                serial = serial_reference(case)
                results = []
                for _w in range(item["walks"]):
                    if _leak_capped(part):
                        break
                    res = run_controlled(
                        case, cfg,
                        lambda k, obs: obs["enabled"][rng.randrange(len(obs["enabled"]))] if obs["enabled"] else None, part)
                    if res is not None:
                        results.append(res)
                _compare(part, "random", case, cfg, results, serial)
        elif kind == "replay":
            _replay_into(part, item["obj"])
        elif kind == "osfixed":  # OS-scheduled runs of the fixed configurations (oracle only)
            import random

            rng = random.Random(item["seed"])
            for name, case in fixed_cases():
                if (case.get("nocb") or any(d.get("kind") for d in case["objs"])) and any(
                        t["fails"] or t["cbFails"] for t in case["tensors"]):
                    # as for the random OS-scheduled cases (`os_only`): without a callback / with real tensor objects the
                    # OS-scheduled harness cannot attribute an injected failure to a tensor use
                    continue
                serial = serial_reference(case)
                for rep in range(item["reps"]):
                    if _leak_capped(part) or _hang_seen(item):
                        return dict(part)
                    r = run_os_confirmed(case, rng.randrange(1 << 30), part)
                    part.case(["osfixed", name, item["seed"], rep], nontrivial=True, osfixed_outcome=r["outcome"])
                    oracle(case, r, serial, "os", part)
                    if r["status"] == "hang":
                        _mark_hang(item)
                        return dict(part)
        elif kind == "os":  # plain OS-scheduled runs, oracle only
            import random

            rng = random.Random(item["seed"])
            for _ in range(item["count"]):
                case = random_case(rng, item["big"], allow_nested=True, os_only=True)
                serial = serial_reference(case)
                check_plan(part, "os", case, general_cfg(case), lean_batch([plan_request(case)])[0])
                for rep in range(item["reps"]):
                    if _leak_capped(part):
                        return dict(part)
                    if _hang_seen(item):
                        return dict(part)  # a hang is already reported; further runs would only block again
                    r = run_os_confirmed(case, rng.randrange(1 << 30), part)
                    nested = model_cfg(case) is None
                    part.case(["os", case, rep], nontrivial=True, os_mode=case["mode"], os_nested=nested,
                              os_outcome=r["outcome"], os_workers=min(case["workers"], 9),
                              os_callback="none" if case.get("nocb") else "given",
                              os_kinds="+".join(sorted({d.get("kind", "fake") for d in case["objs"]})))
                    oracle(case, r, serial, "os", part)
                    if r["status"] == "hang":
                        _mark_hang(item)
                        return dict(part)
    except Exception as e:  # noqa: BLE001
        import traceback

        part["extra"]["crash"] = traceback.format_exc()[-1500:]
    return dict(part)


# --------------------------------------------------------------------------- the real primitives


def primitive_checks():
    """The controlled runs use the harness's *own* Lock / Condition / executor / as_completed (the shim); the model
    transcribes the same documented semantics.  These experiments run the REAL primitives of this interpreter and
    check exactly the semantics both rely on.  Returns a list of violated assumptions (empty = confirmed)."""
    import concurrent.futures as cf

    bad = []
    # 1. at most max_workers tasks run at once; jobs are started in submission order (FIFO work queue);
    #    threads are spawned lazily (the shim spawns them eagerly: more idle threads, same semantics)
    gate, lock, running, peak, order = _rt.Event(), _rt.Lock(), [0], [0], []

    def job(k):
        with lock:
            order.append(k)
            running[0] += 1
            peak[0] = max(peak[0], running[0])
        gate.wait(5)
        with lock:
            running[0] -= 1
        return k

    ex = cf.ThreadPoolExecutor(max_workers=2)
    futs = [ex.submit(job, k) for k in range(5)]
    time.sleep(0.05)
    if len(getattr(ex, "_threads", [1, 2])) > 2:
        bad.append("ThreadPoolExecutor started more than max_workers threads")
    with lock:
        started = list(order)
    if started != [0, 1]:
        bad.append(f"with 2 workers and 5 blocking jobs the jobs started are {started}, expected [0, 1] (FIFO, bounded)")
    # 2. shutdown(cancel_futures=True) cancels exactly the pending futures; running ones complete
    ex.shutdown(wait=False, cancel_futures=True)
    st = [f.cancelled() for f in futs]
    if st != [False, False, True, True, True]:
        bad.append(f"shutdown(cancel_futures=True): cancelled flags {st}, expected only the pending jobs")
    gate.set()
    ex.shutdown(wait=True)
    if peak[0] > 2 or [f.result() for f in futs[:2]] != [0, 1] or not all(f.done() for f in futs):
        bad.append("running jobs did not complete normally after shutdown(cancel_futures=True)")
    try:
        ex.submit(job, 9)
        bad.append("submit after shutdown did not raise")
    except RuntimeError:
        pass
    # 3. shutdown(wait=True) returns only after every job (also the queued ones) has run; exceptions are stored
    ex = cf.ThreadPoolExecutor(max_workers=1)
    done = []

    def job2(k):
        time.sleep(0.005)
        if k == 1:
            raise KeyError(k)
        done.append(k)

    fs = [ex.submit(job2, k) for k in range(4)]
    ex.shutdown(wait=True)
    if done != [0, 2, 3] or not isinstance(fs[1].exception(), KeyError):
        bad.append(f"shutdown(wait=True) without cancel: jobs run {done}, expected [0, 2, 3] and a stored KeyError")
    # 4. as_completed yields every future exactly once, only completed ones, also the already finished ones
    with cf.ThreadPoolExecutor(max_workers=3) as ex:
        evs = [_rt.Event() for _ in range(3)]
        fs = [ex.submit(lambda e=e, k=k: (e.wait(5), k)[1], ) for k, e in enumerate(evs)]
        evs[2].set()
        fs[2].result()
        got = []
        it = cf.as_completed(fs)
        got.append(next(it))
        if got[0] is not fs[2]:
            bad.append("as_completed did not yield the already finished future first")
        evs[0].set()
        got.append(next(it))
        evs[1].set()
        got.append(next(it))
        if [f.done() for f in got] != [True] * 3 or {id(f) for f in got} != {id(f) for f in fs} or next(it, None) is not None:
            bad.append("as_completed did not yield every future exactly once, completed")
    # 5. Condition: wait releases the lock and re-acquires it; notify_all wakes every waiter; wait_for re-checks
    cond, state, woke = _rt.Condition(), {"go": False}, []

    def waiter(k):
        with cond:
            cond.wait_for(lambda: state["go"])
            woke.append(k)

    ths = [_rt.Thread(target=waiter, args=(k,), daemon=True) for k in range(3)]
    for t in ths:
        t.start()
    time.sleep(0.05)
    with cond:  # possible only because the waiters released the lock
        cond.notify_all()  # predicate still false: everybody must go back to waiting
    time.sleep(0.05)
    if woke:
        bad.append("wait_for returned although its predicate was false")
    with cond:
        state["go"] = True
        cond.notify_all()
    for t in ths:
        t.join(5)
    if sorted(woke) != [0, 1, 2]:
        bad.append(f"notify_all woke {sorted(woke)}, expected all three waiters")
    # 6. Lock: mutual exclusion, non-reentrant
    lk = _rt.Lock()
    lk.acquire()
    if lk.acquire(blocking=False):
        bad.append("threading.Lock is re-entrant")
    lk.release()
    return bad


# --------------------------------------------------------------------------- the copy loop of ExternalTensor.tofile


class _SrcProbe:
    """Source file handed to `ExternalTensor.tofile` in the dry runs of `copy_loop_checks` (no `fileno`: the
    userspace loop runs).  Besides delegating, `read` notes whether the buffer it returned LAST time is still referenced
    by somebody else (the `chunk` local of the loop) while the next one is being allocated."""

    def __init__(self, f):
        self._f = f
        self.last = None
        self.transient = 0

    def read(self, k=-1):
        # bytes of length <= 1 are shared singletons in CPython: their reference count says nothing
        alive = self.last is not None and len(self.last) > 1 and sys.getrefcount(self.last) > 2
        b = self._f.read(k)
        self.transient = max(self.transient, len(b) + (len(self.last) if alive else 0))
        self.last = b
        return b

    def seek(self, *a):
        return self._f.seek(*a)

    def __enter__(self):
        return self

    def __exit__(self, *a):
        self._f.close()
        return False


def copy_loop_checks(ctx, pairs=None):
    """`copyReads` / `peakBytes` / `reservationBytes` (Model/WriterPlan.lean) against the real
    `ExternalTensor.tofile` (userspace loop: a destination without `fileno`) and the real `_reservation_bytes`, for
    small patched chunk sizes and once for the repo's own 1 MiB constant; oracle: every buffer handed to `write` is at
    most the reservation, the bytes copied are the tensor's.  Runs in the main thread under a SIGALRM guard."""
    import builtins

    import onnx_ir as ir
    from onnx_ir import _core
    from onnx_ir import external_data as ed

    rng = ctx.rng
    if pairs is None:
        pairs = [(c, n) for c in (1, 2, 3) for n in (0, 1, 2, 3, 4, 7)]
        pairs += [(rng.choice([1, 2, 3, 4, 5, 8, 16]), rng.randrange(0, 40)) for _ in range(24)]
        pairs.append((None, (1 << 20) + 5))  # the repo's own constant against the model's `copyChunkSize`
    d = tempfile.mkdtemp(prefix="c09c-copy-", dir=_TMP_ROOT)
    orig = orig_tofile()["e"]
    reqs, seen = [], []
    try:
        for chunk, n in pairs:
            data = bytes((k * 7 % 251) + 1 for k in range(n))
            with open(os.path.join(d, "s.bin"), "wb") as f:
                f.write(b"\x05" * 3 + data)
            t = ir.ExternalTensor("s.bin", 3, n, ir.DataType.UINT8, shape=ir.Shape([n]), name="s", base_dir=d)
            got = bytearray()
            sizes = []

            class Sink:
                def write(self, b):
                    sizes.append(len(b))
                    if len(sizes) > MAX_WRITES:
                        raise _Timeout("nontermination:external-tofile-copy-loop")
                    got.extend(b)
                    return len(b)

            probes = []

            def probe_open(path, mode="r", *a, **k):
                probes.append(_SrcProbe(builtins.open(path, mode, *a, **k)))
                return probes[-1]

            info = {"chunk": chunk, "len": n}
            with chunk_patched({"chunk": chunk}):
                _core.open = probe_open
                try:
                    with alarm_guard(60, "nontermination:external-tofile-copy-loop"):
                        orig(t, Sink())
                except _Timeout as e:
                    ctx.fail(str(e.args[0]), "ExternalTensor.tofile did not return", info)
                    return
                except Exception as e:  # noqa: BLE001
                    ctx.fail("copy-loop:raised", f"ExternalTensor.tofile raised {type(e).__name__} on an intact source "
                             "file", info)
                    continue
                finally:
                    del _core.open
                resv = ed._reservation_bytes(t, n)
                resv_plain = ed._reservation_bytes(object(), n)
            ctx.count("copy_loop_cases")
            if bytes(got) != data:
                ctx.fail("copy-loop:bytes-differ", "ExternalTensor.tofile (userspace loop) copied other bytes", info)
            if max(sizes, default=0) > resv:
                ctx.fail("copy-loop:buffer-exceeds-reservation",
                         f"a copy buffer of {max(sizes)} bytes exceeds the reservation {resv}", info)
            if probes and probes[0].transient > max(sizes, default=0):
                # D331 (fixed in /repo bdd45f0: `del chunk` at the end of the loop body): the previous buffer was still
                # referenced while the next was read, so a writer held two buffers against a reservation of one
                ctx.fail("copy-loop:two-buffers-live",
                         f"the copy loop keeps the previous buffer alive while reading the next: {probes[0].transient} "
                         f"bytes live against a reservation of {resv}", info)
            req = {"m": "writern.copyreads", "len": n, "external": True}
            if chunk is not None:
                req["chunk"] = chunk
            reqs += [req, dict(req, external=False)]
            seen.append((info, sizes, resv, resv_plain))
    finally:
        shutil.rmtree(d, ignore_errors=True)
    outs = lean_batch(reqs) if reqs else []
    for k, (info, sizes, resv, resv_plain) in enumerate(seen):
        oe, op = outs[2 * k], outs[2 * k + 1]
        if "err" in oe or "err" in op:
            ctx.disagree("driver error (writern.copyreads): " + str(oe.get("err") or op.get("err")), info)
            continue
        if oe["reads"] != sizes or oe["peak"] != max(sizes, default=0):
            ctx.disagree("copy loop of ExternalTensor.tofile: buffer sizes differ from the model's copyReads", info,
                         model=oe["reads"][:20], impl=sizes[:20])
        if oe["reservation"] != resv or op["reservation"] != resv_plain or op["peak"] != info["len"]:
            ctx.disagree("_reservation_bytes differs from the model's reservationBytes", info,
                         model=[oe["reservation"], op["reservation"]], impl=[resv, resv_plain])


# --------------------------------------------------------------------------- entry points


def _chunks(xs, k):
    return [xs[i: i + k] for i in range(0, len(xs), k)]


def run(ctx: Ctx) -> None:
    import logging

    from harness.common import Infra

    logging.getLogger("onnx_ir.external_data").setLevel(logging.ERROR)  # "oversized shard" warnings
    clean_stale_dirs()
    for msg in primitive_checks():
        ctx.disagree("assumed semantics of the real threading / concurrent.futures primitives not confirmed: " + msg,
                     {"primitive": msg})
    ctx.count("primitive_semantics_experiments", 6)
    copy_loop_checks(ctx)
    if any(str(f.get("signature", "")).startswith("nontermination:") for f in ctx.failures):
        return  # the worker processes would run into the same loop for every tensor object

    ctx.rule = (
        "a case = (configuration, schedule actually executed by the real writer under the controlled scheduler); "
        "non-trivial when at least one scheduling decision was made; distinct by (configuration, label list); "
        "OS-scheduled runs are counted separately (os_* keys) and are distinct by (configuration, repetition)"
    )
    items = [dict(kind="replay", obj=obj) for obj in load_corpus("C09")]
    # 1. exhaustive: every transition of the reachable state graph of the small configurations
    fixed = fixed_cases(thorough=not ctx.quick)
    max_states = ctx.pick(60000, 2000000)
    def cap(name):
        # the nested configuration has 72 197 states / 215 352 transitions: complete in the thorough tier only;
        # the quick tier explores a depth-first part of it and executes a seeded sample of the schedules
        if name.startswith("nested"):
            if ctx.quick:
                return 5000
            if not name.endswith("failing") or "nocb" in name:
                return 40000  # thorough: the failing variant is explored completely, the others in part
        return max_states

    try:
        with alarm_guard(300, "nontermination:fixed-configurations"):
            fixed_cfgs = [general_cfg(c) for n, c in fixed]
    except _Timeout as e:
        ctx.fail(str(e.args[0]), "real code called while the fixed configurations are read off the code "
                 "(_shard_tensors / _align_offset / _reservation_bytes) did not return", {"stage": "fixed"})
        return
    covers = lean_batch([{"m": "writern.cover", "cfg": g, "maxStates": cap(n), "nc": bool(c.get("nocb"))}
                         for (n, c), g in zip(fixed, fixed_cfgs)])
    plans = lean_batch([plan_request(c) for n, c in fixed])
    reach_2w3t = 0
    for (name, case), cov, plan in zip(fixed, covers, plans):
        if "err" in cov:
            raise Infra("writern.cover: " + cov["err"])
        cfg = fixed_cfgs[[n for n, _c in fixed].index(name)]
        check_plan(ctx, name, case, cfg, plan)
        if not cov.get("wf", False):
            ctx.disagree("fixed configuration is not well-formed for the model (wfb / layoutb / preallocb / ncb)",
                         {"config": name, "case": case})
        if name.startswith("par-2w-3t") and not cov["truncated"]:
            reach_2w3t += cov["states"]
        scheds = cov["scheds"]
        ctx.count(f"cover_states[{name}]", cov["states"])
        ctx.count(f"cover_edges[{name}]", cov["edges"])
        if cov["deadlocks"]:
            ctx.disagree(f"model reaches {cov['deadlocks']} non-terminal states without an enabled label", {"config": name})
        if not cov["truncated"]:
            ctx.exhaustive_scopes.append(
                f"{name}: transition coverage — each of the {cov['edges']} transitions of the {cov['states']} reachable "
                f"model states is executed at least once by the real writer ({len(scheds)} complete schedules, one per "
                f"non-tree edge / leaf of a DFS; NOT every interleaving)")
        else:
            scheds = ctx.rng.sample(scheds, min(len(scheds), ctx.pick(1500, 20000)))
        ctx.count(f"cover_schedules[{name}]", len(scheds))
        for ch in _chunks(scheds, max(20, len(scheds) // 48 + 1)):
            items.append(dict(kind="sched", name=name, case=case, cfg=cfg, scheds=ch))
    ctx.count("reachable_states_2w3t_configs_total", reach_2w3t)
    # 2. random walks on random configurations
    nwalk = ctx.pick(96, 480)
    for k in range(nwalk):
        items.append(dict(kind="walk", seed=ctx.rng.randrange(1 << 30), count=ctx.pick(6, 12), walks=ctx.pick(4, 8),
                          big=not ctx.quick))
    # 3. OS-scheduled runs
    for k in range(ctx.pick(16, 64)):
        items.append(dict(kind="os", seed=ctx.rng.randrange(1 << 30), count=ctx.pick(6, 20), reps=ctx.pick(3, 6),
                          big=not ctx.quick))
    for k in range(ctx.pick(8, 32)):
        items.append(dict(kind="osfixed", seed=ctx.rng.randrange(1 << 30), reps=ctx.pick(4, 12)))
    marker = os.path.join(_TMP_ROOT or tempfile.gettempdir(), f"c09-hang-{os.getpid()}")
    for it in items:
        it["marker"] = marker
    ctx.rng.shuffle(items)
    # the cover answers hold up to a few hundred thousand schedules: drop what the items do not reference and keep the
    # garbage collector of the forked workers from touching (and thereby copying) the parent's heap
    import gc

    del covers, plans, scheds
    gc.collect()
    gc.freeze()
    try:
        parts = pmap(_work, items)
    finally:
        gc.unfreeze()
        if os.path.exists(marker):
            os.remove(marker)
    infra = []
    for part in parts:
        crash = part.get("extra", {}).get("crash")
        if crash:
            raise Infra("worker crashed: " + crash)
        if part.get("extra", {}).get("infra") and not part["failures"]:
            infra.append(part["extra"]["infra"])
        ctx.merge(part)
    if infra and not ctx.failures:
        raise Infra(infra[0])


def _replay_into(part, obj: dict) -> None:
    if obj.get("kind") == "unchecked-obligation":
        for d in obj.get("correspondence_disagreements", []):
            if isinstance(d.get("case"), dict) and "case" in d["case"]:
                _replay_into(part, {"case": d["case"]})
        return
    case = obj.get("case", obj)
    if "case" in case:
        case = case["case"]
    labels = obj.get("labels") or (obj.get("case", {}) or {}).get("labels")
    mode = obj.get("mode") or (obj.get("case", {}) or {}).get("mode") or "controlled"
    if mode not in ("os", "controlled"):
        mode = "controlled"
    serial = serial_reference(case)
    cfg = general_cfg(case)
    if labels is not None:  # labels recorded in the flat vocabulary
        labels = [[l[0], 0, l[1]] if len(l) == 2 and l[0] == 0 else [l[0], l[1], 0] if len(l) == 2 and l[0] == 3
                  else [l[0], 0, 0] if len(l) == 2 else list(l) for l in labels]
    if mode == "os" or labels is None or cfg is None:
        for rep in range(20):
            r = run_os_confirmed(case, rep, part)
            part.case(["os", case, rep], os_mode=case["mode"])
            oracle(case, r, serial, "os", part)
            if r["status"] == "hang":
                return
    else:
        it = iter([list(l) for l in labels])

        def chooser(k, obs):
            # follow the recorded schedule as far as this tree allows, then run to completion
            lab = next(it, None)
            if lab is None or lab not in obs["enabled"]:
                lab = obs["enabled"][0] if obs["enabled"] else None
            return lab

        res = run_controlled(case, cfg, chooser, part)
        if res is not None:
            _compare(part, "replay", case, cfg, [res], serial)


def _isolated(item):
    """Run one work item in a forked child: a run that deadlocks leaves blocked non-daemon pool threads behind,
    which would keep this interpreter from exiting."""
    import multiprocessing as mp

    with mp.get_context("fork").Pool(1) as pool:
        return pool.apply(_work, (item,))


def replay(ctx: Ctx, obj: dict) -> None:
    import logging

    from harness.common import Infra

    logging.getLogger("onnx_ir.external_data").setLevel(logging.ERROR)
    c = obj.get("case", obj)
    if isinstance(c, dict) and "len" in c and "mode" not in c:  # a case of copy_loop_checks
        copy_loop_checks(ctx, [(c.get("chunk"), c["len"])])
        return
    if isinstance(c, dict) and isinstance(c.get("item"), dict):  # a work item that ran into its time limit
        it = c["item"]
        if it.get("kind") in ("walk", "os") and "seed" in it:
            part = _isolated(dict(it, marker=None))
            if part.get("extra", {}).get("crash"):
                raise Infra("replay crashed: " + part["extra"]["crash"])
            ctx.merge(part)
            return
        obj = {"case": it.get("case") or (it.get("obj") or {}).get("case")}
        if obj["case"] is None:
            return
    part = _isolated(dict(kind="replay", obj=obj))
    crash = part.get("extra", {}).get("crash")
    if crash:
        raise Infra("replay crashed: " + crash)
    ctx.merge(part)

"""C19 — device annotations follow object identity and never dangle (DESIGN.md section 5, C19).

Correspondence: random histories over the public API (`Node.shard`, `set_pipeline_stage`,
`Model.add_/remove_device_configuration(cascade)`, `replace_input_with`, `resize_inputs/outputs`,
`Graph.append/remove(safe)` on root graphs and on subgraphs (also re-attaching a removed node, to the same
or another model), attaching subgraphs to nodes (GRAPH and GRAPHS attributes), `register_initializer`,
`Value.name=` / `Value.shape=`, direct assignment of `node.device_configurations` /
`model.device_configurations`, `Model.clone(deep_copy=)`, serialize->bytes->deserialize; nodes in subgraphs
use and shard outer-scope values and initializers) are run on
the real objects and on the Lean model `IrVerif.Device` (driver command `device.run`); after every
operation the complete canonical state is compared: io lists and `device_configurations` of every
node, `Model.device_configurations`, the output of the internal checker
`_multi_device._check_device_configurations` (as violation kinds, in order) and the serialized
`NodeProto.device_configurations` fields of every model.

The driver also returns, per operation, whether the hypothesis `Pre` of `C19_step` held and the
value of the Lean predicates `DevOK` / `Named` on the model world; the harness compares them with
its own evaluation of the same facts on the real objects (tie between the Lean statement and the
Python oracle) and requires `Pre` for every operation of the strict stream.

Oracle (independent of the model, on the real objects, after every operation): no spec targets a
value outside its node's inputs/outputs; whenever `Pre` held along the history: DevOK holds, the
internal checker reports at most "value with an empty name" and nothing when all sharded values are
named, and serialization does not raise; serialized tensor_name / configuration_id are the *current*
names; a detach drops exactly the specs whose target left the node and touches no other node; a
raising call leaves every object unchanged and `shard` / `set_pipeline_stage` raise exactly for the
invalid requests; a round trip / clone reproduces the annotations on the new objects.

Functions (`newFunction`, editing / annotating `function.graph`, `cloneFunc` = `Function.clone` registered under
a new name), `Graph.clone(allow_outer_scope_values=True)` (`cloneSub`: the clone is attached to a node) and
`Model.clone` / round trips of models with functions are in the model and in both streams.

A third, oracle-only stream runs the same oracles on random models with subgraphs, functions, graph outputs and
call nodes at IR versions 10-12, including `InlinePass`.  Exceptions are compared by type against the documented
rejections.

Stream `inline-pass` (harness/c19_inline.py, theorem C19_inline_pass / C19_inline_pass_axes): the complete real
`InlinePass()` against the Lean model `inlinePass` (driver command `device.inline`) on generated annotated models with
annotated function bodies (nested subgraphs inside), calls inside functions and subgraphs, graph / function outputs.

Round trips: the hypothesis is `NamesChain` (names unique along every scope chain; the strict generator reuses names
across function bodies, the main graph and sibling subgraphs), at every IR version (`C19_step_any` / `C19_history_any`).
"""
from __future__ import annotations

import logging
import random
import re

from harness.common import Ctx, Part, lean_batch, pmap

THEOREMS = [
    "IrVerif.Device.C19_step",
    "IrVerif.Device.C19_history",
    "IrVerif.Device.C19_checker_silent",
    "IrVerif.Device.C19_checker_only_names",
    "IrVerif.Device.C19_drop",
    "IrVerif.Device.C19_reject_atomic",
    "IrVerif.Device.C19_checks_precede_writes",
    "IrVerif.Device.C19_serializable",
    "IrVerif.Device.C19_roundtrip_faithful",
    "IrVerif.Device.C19_name_frame",
    "IrVerif.Device.C19_names_current",
    "IrVerif.Device.C19_roundtrip_legacy",
    "IrVerif.Device.C19_inline_remap",
    "IrVerif.Device.C19_inline_pass",
    "IrVerif.Device.C19_inline_pass_axes",
    "IrVerif.Device.C19_step_any",
    "IrVerif.Device.C19_history_any",
    "IrVerif.Device.C19_step_weak",
    "IrVerif.Device.C19_weak_checker",
    "IrVerif.Device.C19_history_weak",
]
ASSUMPTIONS = [
    "graphs nest (a node may own subgraphs - GRAPH and GRAPHS attributes - whose nodes use outer-scope values) and "
    "own initializers (sharded like any other value); clone and the by-name resolution through all enclosing scopes "
    "are inside the model and the theorems; so are functions (ops newFunction / cloneFunc: a function body is a graph "
    "without initializers - the generator never registers one there -, edited and annotated through function.graph; "
    "cloneFunc = Function.clone + registration under a new name) and Graph.clone(allow_outer_scope_values=True) "
    "(op cloneSub: the clone is attached to a node as a further GRAPH attribute); graph / function outputs and call "
    "nodes exist in the model of InlinePass only (side table ITab of Model/DeviceInl.lean: they are not part of the "
    "operation alphabet of C19_step), function attributes are not modelled; the oracle-only stream exercises them on "
    "random models at IR versions 10-12",
    "round trips below IR version 11 are in the alphabet of C19_step_any / C19_history_any (PreAny: closed lists, names "
    "unique per root, any IR version): the driver's `pre` flag is PreAny, evaluated for every operation",
    "round-trip hypothesis NamesChain (for every graph: the named values of the graph and of its enclosing graphs have "
    "pairwise different names; sibling subgraphs, function bodies and the main graph may reuse names): evaluated by the "
    "driver and, independently, on the real objects for every generated round trip (compared; histogram key "
    "rt_names=*); the strict generator reuses names outside the scope chain (about 30% of the values created once the "
    "model has several graphs). Shadowing (a subgraph value named like a value of an enclosing graph) is outside "
    "NamesChain - it is what ONNX forbids too - and generated in the wild stream only (key histories_with_shadowed_name)",
    "C19_inline_pass: stream inline-pass (harness/c19_inline.py): the real InlinePass() against the Lean model "
    "inlinePass on generated annotated models (annotated function bodies with nested subgraphs, calls inside functions "
    "and inside subgraphs, missing / None arguments, returned function inputs, users that shard call outputs); "
    "hypotheses DevOK and HeapReg evaluated per case (keys inline_hyp_*); value names are never None (the harness names "
    "every value, '' for anonymous), opsets agree, no function is called Identity, call graphs are acyclic; the state "
    "after a raising pass is not compared (the pass is not atomic). C19_inline_pass_axes (WeakOK in full: axis clauses "
    "for every spec whose target is outside the ghost set `subst`) needs GraphIds in addition (graph inputs / "
    "initializers exist; key inline_hyp_graphids); `subst` is ghost state of the model: the oracle translates it to the "
    "real objects through the structural correspondence of the two results and checks that axis-range / repeated-axis "
    "violations occur on substituted targets only; the driver's evaluation of WeakOK is checked on every case",
    "function inputs keep non-empty names (FunctionProto.input is a list of names and their shapes travel in value_info by "
    "name; an unnamed function input loses its shape on reload, which the model does not represent)",
    "C19_inline_remap: the inliner's instantiation of one body node without subgraphs "
    "(Cloner.clone_node with a None-valued value map, driver command device.inst, compared with the real "
    "_cloner.Cloner on random nodes / maps; hypothesis 'specs target inputs/outputs' evaluated per case, key inst_hyp); "
    "the composition of the pass is C19_inline_pass (stream inline-pass)",
    "C19_names_current: its hypotheses (a successful rename of v, Pre for every later operation, no later rename of "
    "v) are evaluated on every generated history; for each such (rename, later step) pair every serialized spec that "
    "targets v is compared with the assigned name on the real NodeProtos (histogram key names_current_instances)",
    "a model's flat node / graph lists in the Lean world are compared as sets with graph.all_nodes() / "
    "Model.graphs() after every operation; checker output and serialized fields are compared per node",
    "annotation records are those the public API creates, or directly assigned tuples of the same shape "
    "(setDev / setModelCfgs ops); records with value=None, configuration=None, group maps or several "
    "simple_shardings per axis are outside the alphabet",
    "value names None and '' are identified (the harness names anonymous values '' right after creation); "
    "every generated value carries a tensor type so that its shape is serialized; initializer shapes are concrete",
    "in-alphabet stream (= the Lean `Pre`, evaluated by the driver for every operation): configurations passed to "
    "shard/set_pipeline_stage are registered on the node's model (known finding D192: the API cannot check it), "
    "sharded values have non-empty names that are unique within the model, a shape is edited only on a value that "
    "is not sharded, a node is re-attached only to a model that registers the configurations it references, a "
    "directly assigned tuple is well formed, remove_device_configuration is called with cascade=True; the wild "
    "stream drops these restrictions (stale configurations, cascade=False, empty/duplicate names, shape edits "
    "after sharding, hand-built ill-formed tuples, re-attachment anywhere) and is used for the correspondence "
    "(including the checker's error output) and the unconditional oracles only",
    "Value.uses() is modelled as 'some node of the heap has the value as an input'",
    "after InlinePass the axis-range / repeated-axis messages of the checker are not counted in the rich stream: "
    "inlining substitutes arguments for formal parameters of another rank (C19_inline_pass names exactly these "
    "messages; the inline-pass stream checks that they occur only on substituted targets)",
]

_MSG_KINDS = [
    (re.compile(r"without a ModelConfiguration reference"), "cfgNone"),
    (re.compile(r"references a configuration with an empty name"), "cfgEmptyName"),
    (re.compile(r"which is not declared in"), "cfgNotDeclared"),
    (re.compile(r"references a configuration object that is not the one registered"), "cfgImposter"),
    (re.compile(r"has a ShardingSpec without a value"), "valNone"),
    (re.compile(r"shards a value with an empty name"), "valEmptyName"),
    (re.compile(r"which is not an input or output of the node"), "valNotIO"),
    (re.compile(r"is out of range \(rank="), "axisRange"),
    (re.compile(r"more than once"), "axisRepeat"),
    (re.compile(r"must be >= 1"), "numShards"),
    (re.compile(r"in group .* is out of range \(num_devices="), "groupRange"),
    (re.compile(r"device index .* is out of range \(num_devices="), "deviceRange"),
]


def _kind(msg: str) -> str:
    for rx, k in _MSG_KINDS:
        if rx.search(msg):
            return k
    return "unknown:" + msg[:60]


class Real:
    """Executes operations on the real onnx_ir objects; object identity <-> creation index."""

    def __init__(self):
        import onnx_ir as ir
        from onnx_ir import _multi_device, serde

        self.ir, self.md, self.serde = ir, _multi_device, serde
        self.values, self.cfgs, self.nodes, self.graphs, self.models = [], [], [], [], []
        self.vid, self.cid, self.nid, self.gid = {}, {}, {}, {}

    # ---- registration
    def reg_value(self, v):
        if id(v) not in self.vid:
            if v.name is None:
                v.name = ""  # None and "" are identified (ASSUMPTIONS)
            if v.type is None:
                # every value carries a tensor type, so that a shape given to it later is serialized (ASSUMPTIONS)
                v.type = self.ir.TensorType(self.ir.DataType.FLOAT)
            self.vid[id(v)] = len(self.values)
            self.values.append(v)
        return self.vid[id(v)]

    def reg_cfg(self, c):
        # ModelConfiguration is a frozen dataclass with value equality: identity via id()
        if id(c) not in self.cid:
            self.cid[id(c)] = len(self.cfgs)
            self.cfgs.append(c)
        return self.cid[id(c)]

    def reg_node(self, n):
        if id(n) not in self.nid:
            self.nid[id(n)] = len(self.nodes)
            self.nodes.append(n)
            # node names are not part of the model; keep them globally unique so that checker messages and
            # NodeProtos can be attributed to a node even after nodes moved between models
            n.name = f"n{self.nid[id(n)]}"
        return self.nid[id(n)]

    def reg_graph(self, g):
        if id(g) not in self.gid:
            self.gid[id(g)] = len(self.graphs)
            self.graphs.append(g)
        return self.gid[id(g)]

    @staticmethod
    def subgraphs_of(node):
        """the graphs held by GRAPH attributes, in attribute order"""
        out = []
        for attr in node.attributes.values():
            if attr.type.name == "GRAPH":
                out.append(attr.as_graph())
            elif attr.type.name == "GRAPHS":
                out.extend(attr.as_graphs())
        return out

    @staticmethod
    def all_nodes(model):
        """graph.all_nodes() followed by every function's all_nodes() (what the checker, the cascade and the
        deserializer's resolution pass enumerate)"""
        # an independent recursive walk (pre-order, the order of serialization): it does not go through
        # the library's traversal helpers, so a library walk that skips nodes cannot hide them from the oracle
        ns = Real.walk_nodes(model.graph)
        for f in model.functions.values():
            ns += Real.walk_nodes(f.graph)
        return ns

    @staticmethod
    def walk_nodes(graph):
        out = []
        for n in graph:
            out.append(n)
            for sg in Real.subgraphs_of(n):
                out += Real.walk_nodes(sg)
        return out

    @staticmethod
    def walk_graphs(graph):
        out = [graph]
        for n in graph:
            for sg in Real.subgraphs_of(n):
                out += Real.walk_graphs(sg)
        return out

    @staticmethod
    def model_graphs(model):
        """Model.graphs() followed by every function's body graph and its subgraphs"""
        gs = Real.walk_graphs(model.graph)
        for f in model.functions.values():
            gs += Real.walk_graphs(f.graph)
        return gs

    @staticmethod
    def _proto_nodes_model(proto):
        """all NodeProtos of a ModelProto in the order of all_nodes(): the graph, then every function"""
        yield from Real._proto_nodes(proto.graph)
        for fp in proto.functions:
            for np_ in fp.node:
                yield np_
                for at in np_.attribute:
                    if at.HasField("g"):
                        yield from Real._proto_nodes(at.g)
                    for g in at.graphs:
                        yield from Real._proto_nodes(g)

    # ---- canonical state
    @staticmethod
    def _dim(d):
        if isinstance(d, int):
            return d
        val = getattr(d, "value", None)
        return val if isinstance(val, str) else None

    def _shape(self, v):
        if v.shape is None:
            return None
        return [self._dim(d) for d in v.shape]

    def _sdims(self, spec):
        out = []
        for sd in spec.sharded_dims:
            assert len(sd.simple_shardings) == 1
            ss = sd.simple_shardings[0]
            out.append([sd.axis, self._dim(ss.dim), ss.num_shards])
        return out

    def node_dev(self, node):
        out = []
        for nc in node.device_configurations:
            specs = [[self.vid[id(s.value)], list(s.device), self._sdims(s)] for s in nc.sharding_specs]
            out.append([self.cid[id(nc.configuration)], specs, nc.pipeline_stage])
        return out

    def node_state(self, node):
        return {
            "i": [None if v is None else self.vid[id(v)] for v in node.inputs],
            "o": [self.vid[id(v)] for v in node.outputs],
            "d": self.node_dev(node),
            "s": [self.gid[id(g)] for g in self.subgraphs_of(node)],
        }

    def check_kinds(self, model):
        return [_kind(m) for m in self.md._check_device_configurations(model)]

    def check_by_node(self, model):
        """violation kinds grouped by node (ascending node id); node names are unique per model"""
        nodes = self.all_nodes(model)
        by_name = {}
        for n in nodes:
            by_name.setdefault(n.name, []).append(n)
        res = {self.nid[id(n)]: [] for n in nodes}
        for msg in self.md._check_device_configurations(model):
            mm = re.match(r"Node '([^']*)'", msg)
            cands = by_name.get(mm.group(1), []) if mm else []
            if len(cands) != 1:
                res.setdefault(-1, []).append(_kind(msg))
            else:
                res[self.nid[id(cands[0])]].append(_kind(msg))
        return [[k, res[k]] for k in sorted(res)]

    @staticmethod
    def _proto_nodes(graph_proto):
        """all NodeProtos of a GraphProto, nested ones included"""
        for np_ in graph_proto.node:
            yield np_
            for at in np_.attribute:
                if at.HasField("g"):
                    yield from Real._proto_nodes(at.g)
                for g in at.graphs:
                    yield from Real._proto_nodes(g)

    @staticmethod
    def _proto_dev(np_):
        cfgs = []
        for dc in np_.device_configurations:
            specs = []
            for sp in dc.sharding_spec:
                dims = []
                for sd in sp.sharded_dim:
                    assert len(sd.simple_sharding) == 1
                    ss = sd.simple_sharding[0]
                    dim = ss.dim_value if ss.HasField("dim_value") else (ss.dim_param if ss.HasField("dim_param") else None)
                    dims.append([sd.axis, dim, ss.num_shards])
                specs.append([sp.tensor_name, list(sp.device), dims])
            cfgs.append([dc.configuration_id, specs, dc.pipeline_stage if dc.HasField("pipeline_stage") else None])
        return cfgs

    def ser(self, model):
        """serialized device fields per node (ascending node id), or "raised" """
        try:
            proto = self.serde.serialize_model(model)
        except Exception:
            return "raised", None
        nodes = self.all_nodes(model)
        pn = list(self._proto_nodes_model(proto))
        # serialization keeps the all_nodes() order
        if len(pn) != len(nodes) or any(a.name != (b.name or "") for a, b in zip(pn, nodes)):
            return "node-mismatch", proto
        res = {self.nid[id(n)]: self._proto_dev(np_) for n, np_ in zip(nodes, pn)}
        return [[k, res[k]] for k in sorted(res)], proto

    def state(self):
        models = []
        self.protos = []
        for m in self.models:
            ser, proto = self.ser(m)
            self.protos.append(proto)
            models.append(
                {
                    "g": self.gid[id(m.graph)],
                    "gs": sorted(self.gid[id(g)] for g in self.model_graphs(m)),
                    "n": sorted(self.nid[id(n)] for n in self.all_nodes(m)),
                    "c": [self.cid[id(c)] for c in m.device_configurations],
                    "ir": m.ir_version,
                    "f": [self.gid[id(f.graph)] for f in m.functions.values()],
                    "chk": self.check_by_node(m),
                    "ser": ser,
                }
            )
        return {
            "values": [[v.name or "", self._shape(v)] for v in self.values],
            "cfgs": [[c.name, c.num_devices, list(c.device_names)] for c in self.cfgs],
            "nodes": [self.node_state(n) for n in self.nodes],
            "graphs": [{"i": [self.vid[id(v)] for v in g.inputs], "n": [self.nid[id(n)] for n in g],
                        "t": [self.vid[id(v)] for v in g.initializers.values()]} for g in self.graphs],
            "models": models,
        }

    # ---- construction helpers
    def mk_value(self, name, shape):
        ir = self.ir
        return ir.Value(
            name=name,
            shape=None if shape is None else ir.Shape(shape),
            type=ir.TensorType(ir.DataType.FLOAT),
        )

    def model_of(self, node):
        for m in self.models:
            if any(node.graph is g for g in self.model_graphs(m)):
                return m
        return None

    def model_of_graph(self, graph):
        for m in self.models:
            if any(graph is g for g in self.model_graphs(m)):
                return m
        return None

    # ---- registration walks (same per-heap creation order as the Lean model)
    def _reg_clone_graph(self, g):
        for v in g.inputs:
            self.reg_value(v)
        for v in g.initializers.values():
            self.reg_value(v)
        for n in g:
            for sg in self.subgraphs_of(n):
                self._reg_clone_graph(sg)
            for v in n.outputs:
                self.reg_value(v)
            self.reg_node(n)
        self.reg_graph(g)

    def _reg_deser_graph(self, g):
        for v in g.inputs:
            self.reg_value(v)
        for v in g.initializers.values():
            self.reg_value(v)
        for n in g:
            for v in n.outputs:
                if v.name:
                    self.reg_value(v)
        for n in g:
            for v in n.inputs:
                if v is not None:
                    self.reg_value(v)
            for v in n.outputs:
                self.reg_value(v)
            for nc in n.device_configurations:
                for s in nc.sharding_specs:
                    self.reg_value(s.value)
                self.reg_cfg(nc.configuration)
            for sg in self.subgraphs_of(n):
                self._reg_deser_graph(sg)
            self.reg_node(n)
        self.reg_graph(g)

    # ---- operations (return "ok"/"raised", out)
    # the exception types the public API documents (or wraps) for a rejected request; anything else is a crash
    ALLOWED_EXC = {
        "shard": {"ValueError"}, "setStage": {"ValueError"}, "addCfg": {"ValueError"}, "removeCfg": {"ValueError"},
        "replaceInput": {"ValueError"}, "resizeOutputs": {"ValueError"}, "removeNode": {"ValueError"},
        "attachNode": {"ValueError"}, "newInit": {"ValueError"}, "rename": {"ValueError"},
        "clone": {"RuntimeError"},  # _capture_error_context wraps the ValueError of an outer-scope value
        "cloneFunc": {"RuntimeError", "IndexError"}, "cloneSub": {"RuntimeError"},
        "roundTrip": {"SerdeError", "ValueError"},  # unnamed sharded value / redeclared output
    }

    def apply(self, op):
        self.last_exc = None
        try:
            out = self._apply(op)
            return "ok", out
        except Exception as e:  # the type is checked by the caller against ALLOWED_EXC
            self.last_exc = type(e).__name__
            return "raised", None

    def _apply(self, op):
        ir = self.ir
        k = op["op"]
        if k == "newModel":
            g = ir.Graph([], [], nodes=[], opset_imports={"": 20}, name=f"g{len(self.graphs)}")
            self.reg_graph(g)
            self.models.append(ir.Model(g, ir_version=op["ir"]))
        elif k == "newInput":
            v = self.mk_value(op["name"], op["shape"])
            self.graphs[op["g"]].inputs.append(v)
            self.reg_value(v)
        elif k == "newSubgraph":
            node = self.nodes[op["n"]]
            g = ir.Graph([], [], nodes=[], name=f"g{len(self.graphs)}")
            if "gs" in node.attributes:
                # this node keeps all its subgraphs in one GRAPHS attribute
                node.attributes.add(ir.AttrGraphs("gs", list(node.attributes["gs"].as_graphs()) + [g]))
            elif op.get("graphs") and not self.subgraphs_of(node):
                node.attributes.add(ir.AttrGraphs("gs", [g]))
            else:
                node.attributes.add(ir.AttrGraph(f"sub{len(self.graphs)}", g))
            self.reg_graph(g)
        elif k == "newInit":
            import numpy as np

            shape = op["shape"]
            tensor = ir.tensor(np.zeros(tuple(shape), dtype=np.float32), name=op["name"])
            v = ir.Value(name=op["name"], shape=ir.Shape(shape), type=ir.TensorType(ir.DataType.FLOAT), const_value=tensor)
            self.graphs[op["g"]].register_initializer(v)
            self.reg_value(v)
        elif k == "attachNode":
            self.graphs[op["g"]].append(self.nodes[op["n"]])
        elif k == "setShape":
            self.values[op["v"]].shape = None if op["shape"] is None else ir.Shape(op["shape"])
        elif k == "setDev":
            md = self.md
            recs = []
            for c, specs, stage in op["dev"]:
                sp = []
                for v, devs, dims in specs:
                    sd = tuple(
                        md.ShardedDim(axis=a, simple_shardings=(md.SimpleShardedDim(
                            dim=d if isinstance(d, int) else ir.SymbolicDim(d), num_shards=kk),))
                        for a, d, kk in dims)
                    sp.append(md.ShardingSpec(value=self.values[v], device=tuple(devs), sharded_dims=sd))
                recs.append(md.NodeDeviceConfiguration(configuration=self.cfgs[c], sharding_specs=tuple(sp), pipeline_stage=stage))
            self.nodes[op["n"]].device_configurations = tuple(recs)
        elif k == "setModelCfgs":
            self.models[op["m"]].device_configurations = tuple(self.cfgs[c] for c in op["cfgs"])
        elif k == "newNode":
            ins = [None if i is None else self.values[i] for i in op["ins"]]
            outs = [self.mk_value(o["name"], o["shape"]) for o in op["outs"]]
            node = ir.Node("", "Op", ins, outputs=outs, name=f"n{len(self.nodes)}")
            self.graphs[op["g"]].append(node)
            for v in outs:
                self.reg_value(v)
            self.reg_node(node)
        elif k == "removeNode":
            self.graphs[op["g"]].remove(self.nodes[op["n"]], safe=op["safe"])
        elif k == "rename":
            self.values[op["v"]].name = op["name"]
        elif k == "addCfg":
            kw = {}
            if op["num"] is not None:
                kw["num_devices"] = op["num"]
            c = self.models[op["m"]].add_device_configuration(op["name"], device_names=op["names"], **kw)
            self.reg_cfg(c)
        elif k == "removeCfg":
            target = op["byName"] if op.get("byName") is not None else self.cfgs[op["c"]]
            self.models[op["m"]].remove_device_configuration(target, cascade=op["cascade"])
        elif k == "shard":
            kw = {}
            if op["stage"] is not None:
                kw["pipeline_stage"] = op["stage"]
            self.nodes[op["n"]].shard(
                self.values[op["v"]],
                configuration=self.cfgs[op["c"]],
                axis=op["axis"],
                num_shards=op["k"],
                device_indices=op["devs"],
                **kw,
            )
        elif k == "setStage":
            self.nodes[op["n"]].set_pipeline_stage(self.cfgs[op["c"]], op["stage"])
        elif k == "replaceInput":
            v = None if op["v"] is None else self.values[op["v"]]
            self.nodes[op["n"]].replace_input_with(op["i"], v)
        elif k == "resizeInputs":
            self.nodes[op["n"]].resize_inputs(op["k"])
        elif k == "resizeOutputs":
            node = self.nodes[op["n"]]
            node.resize_outputs(op["k"])
            for v in node.outputs:
                self.reg_value(v)
        elif k == "clone":
            m2 = self.models[op["m"]].clone(deep_copy=bool(op.get("deep")))
            self._reg_clone_graph(m2.graph)
            for f in m2.functions.values():
                self._reg_clone_graph(f.graph)
            self.models.append(m2)
        elif k == "newFunction":
            g = ir.Graph([], [], nodes=[], opset_imports={"": 20}, name=f"g{len(self.graphs)}")
            f = ir.Function("custom", f"F{len(self.graphs)}", graph=g, attributes=[])
            self.models[op["m"]].functions[f.identifier()] = f
            self.reg_graph(g)
        elif k == "cloneFunc":
            model = self.models[op["m"]]
            f = list(model.functions.values())[op["i"]]
            f2 = f.clone(deep_copy=bool(op.get("deep")))
            f2.name = f"F{len(self.graphs)}c"
            model.functions[f2.identifier()] = f2
            self._reg_clone_graph(f2.graph)
        elif k == "cloneSub":
            node = self.nodes[op["n"]]
            g2 = self.graphs[op["g"]].clone(allow_outer_scope_values=True, deep_copy=bool(op.get("deep")))
            if "gs" in node.attributes:
                # this node keeps all its subgraphs in one GRAPHS attribute (see newSubgraph)
                node.attributes.add(ir.AttrGraphs("gs", list(node.attributes["gs"].as_graphs()) + [g2]))
            else:
                node.attributes.add(ir.AttrGraph(f"cl{len(self.graphs)}", g2))
            self._reg_clone_graph(g2)
        elif k == "roundTrip":
            import onnx

            proto = self.serde.serialize_model(self.models[op["m"]])
            proto2 = onnx.ModelProto()
            proto2.ParseFromString(proto.SerializeToString())
            m2 = self.serde.deserialize_model(proto2)
            for c in m2.device_configurations:
                self.reg_cfg(c)
            self._reg_deser_graph(m2.graph)
            for f in m2.functions.values():
                self._reg_deser_graph(f.graph)
            self.models.append(m2)
        elif k == "shardingOf":
            specs = self.nodes[op["n"]].sharding_of(self.values[op["v"]])
            return [[self.vid[id(s.value)], list(s.device), self._sdims(s)] for s in specs]
        else:
            raise AssertionError(k)
        return None


# --------------------------------------------------------------------------- oracle helpers


def _rank(v):
    return None if v.shape is None else len(v.shape)


def _norm(rank, a):
    return a + rank if (rank is not None and a < 0) else a


def shard_should_raise(real: Real, op) -> bool:
    """Independent reading of the documented contract of Node.shard (docstring 'Raises')."""
    node, v, cfg = real.nodes[op["n"]], real.values[op["v"]], real.cfgs[op["c"]]
    if not any(v is x for x in list(node.inputs) + list(node.outputs)):
        return True
    if op["k"] < 1:
        return True
    if op["stage"] is not None and op["stage"] < 0:
        return True
    if any(not (0 <= d < cfg.num_devices) for d in op["devs"]):
        return True
    r = _rank(v)
    if r is not None and not (-r <= op["axis"] < r):
        return True
    for nc in node.device_configurations:
        if nc.configuration is cfg:
            if op["stage"] is not None and nc.pipeline_stage is not None and nc.pipeline_stage != op["stage"]:
                return True
            for s in nc.sharding_specs:
                if s.value is v:  # the loop of shard() extends the first spec of the value and stops
                    if any(_norm(r, d.axis) == _norm(r, op["axis"]) for d in s.sharded_dims):
                        return True
                    break
            break
    return False


def oracle_nodangle(real: Real, part, hist_id, step, strict: bool, raw: bool = False):
    """No spec targets a value outside its node; strict: registered configs + checker silent."""
    for n in ([] if raw else real.nodes):
        io = {id(x) for x in list(n.inputs) + list(n.outputs) if x is not None}
        for nc in n.device_configurations:
            for s in nc.sharding_specs:
                if s.value is None or id(s.value) not in io:
                    part.fail(
                        f"dangling-spec after {step['op']}",
                        "a ShardingSpec targets a value that is not an input/output of its node",
                        {"history": hist_id, "step": step},
                    )
    if strict:
        for m in real.models:
            reg = {id(c) for c in m.device_configurations}
            for n in real.all_nodes(m):
                for nc in n.device_configurations:
                    if nc.configuration is None or id(nc.configuration) not in reg:
                        part.fail(
                            f"unregistered-configuration after {step['op']}",
                            "a node configuration references a configuration object not registered on its model",
                            {"history": hist_id, "step": step},
                        )
            msgs = real.md._check_device_configurations(m)
            # an unnamed sharded value is legitimately reported ("cannot be serialized"); anything else is not
            bad = [x for x in msgs if _kind(x) != "valEmptyName"]
            if not bad and msgs and all_named(real):
                bad = msgs
            if bad:
                part.fail(
                    f"checker-not-silent after {step['op']}: {_kind(bad[0])}",
                    "the internal device-configuration check reports: " + bad[0],
                    {"history": hist_id, "step": step},
                )


def all_named(real: Real) -> bool:
    return all(s.value is not None and s.value.name for n in real.nodes for nc in n.device_configurations for s in nc.sharding_specs)


def oracle_names_current(real: Real, part, hist_id, step):
    for m, proto in zip(real.models, real.protos):  # protos of the state() call after this op
        if m.ir_version < 11 or proto is None:
            continue
        for node, np_ in zip(real.all_nodes(m), real._proto_nodes_model(proto)):
            ncs = node.device_configurations
            if len(ncs) != len(np_.device_configurations):
                part.fail(f"serialized-count after {step['op']}", "number of serialized node configurations differs", {"history": hist_id, "step": step})
                continue
            for nc, dc in zip(ncs, np_.device_configurations):
                if dc.configuration_id != nc.configuration.name:
                    part.fail(f"stale-configuration-id after {step['op']}", "configuration_id is not the current name", {"history": hist_id, "step": step})
                for s, sp in zip(nc.sharding_specs, dc.sharding_spec):
                    if sp.tensor_name != s.value.name:
                        part.fail(f"stale-tensor-name after {step['op']}", "tensor_name is not the current value name", {"history": hist_id, "step": step})


def real_facts(real: Real) -> dict:
    """DevOK / Named evaluated on the real objects (independent of the model)."""
    devok = True
    named = all_named(real)
    for n in real.nodes:
        io = {id(x) for x in list(n.inputs) + list(n.outputs) if x is not None}
        seen_cfg = set()
        for nc in n.device_configurations:
            c = nc.configuration
            if c is None or id(c) in seen_cfg:
                devok = False
                continue
            seen_cfg.add(id(c))
            if nc.pipeline_stage is not None and nc.pipeline_stage < 0:
                devok = False
            seen_val = set()
            for s in nc.sharding_specs:
                v = s.value
                if v is None or id(v) not in io or id(v) in seen_val:
                    devok = False
                    continue
                seen_val.add(id(v))
                r = _rank(v)
                axes = []
                for d in s.sharded_dims:
                    if r is not None and not (-r <= d.axis < r):
                        devok = False
                    axes.append(_norm(r, d.axis))
                    if any(ss.num_shards < 1 for ss in d.simple_shardings):
                        devok = False
                if len(set(axes)) != len(axes):
                    devok = False
                if any(not (0 <= di < c.num_devices) for di in s.device):
                    devok = False
    silent = True
    only_names = True
    for m in real.models:
        reg = m.device_configurations
        names = [c.name for c in reg]
        if any(not nm for nm in names) or len(set(names)) != len(names):
            devok = False
        regids = {id(c) for c in reg}
        for n in real.all_nodes(m):
            for nc in n.device_configurations:
                if nc.configuration is None or id(nc.configuration) not in regids:
                    devok = False
        kinds = real.check_kinds(m)
        if kinds:
            silent = False
        if any(k != "valEmptyName" for k in kinds):
            only_names = False
    return {"devok": devok, "named": named, "silent": silent, "only_names": only_names}


def expected_after_drop(real: Real, before_dev, node):
    """before_dev filtered to the specs whose target is still an input/output of `node`."""
    io = {real.vid[id(x)] for x in list(node.inputs) + list(node.outputs) if x is not None}
    return [[c, [s for s in specs if s[0] in io], st] for c, specs, st in before_dev]


# --------------------------------------------------------------------------- generator


class Gen:
    def __init__(self, rng: random.Random, real: Real, strict: bool):
        self.rng, self.real, self.strict = rng, real, strict
        self.fresh = 0
        self.tainted = False  # a wild op made the strict clauses inapplicable
        self.raw = False  # a hand-built annotation tuple was assigned: even "no dangling spec" is not claimed

    def name(self, prefix="v"):
        self.fresh += 1
        return f"{prefix}{self.fresh}"

    def root_graph_of(self, graph):
        g, hops = graph, 0
        while hops < 12:
            owner = self.owner_of(g)
            if owner is None or owner.graph is None:
                return g
            g, hops = owner.graph, hops + 1
        return g

    @staticmethod
    def own_values(g):
        """the values a graph declares or uses itself (`ownVals` of the Lean model)"""
        vs = list(g.inputs) + list(g.initializers.values())
        for n in g:
            vs += [v for v in list(n.inputs) + list(n.outputs) if v is not None]
        return vs

    def graph_tree(self, model):
        """[(graph, [ancestors, outermost first])] for every graph of the model"""
        out = []

        def walk(g, anc):
            out.append((g, anc))
            for n in g:
                for sg in Real.subgraphs_of(n):
                    walk(sg, anc + [g])

        for root in [model.graph] + [f.graph for f in model.functions.values()]:
            walk(root, [])
        return out

    def chain_ok(self, model):
        """NamesChain on the real objects: for every graph, the named values of the graph and of its enclosing graphs
        have pairwise different names"""
        for g, anc in self.graph_tree(model):
            seen = {}
            for h in anc + [g]:
                for v in self.own_values(h):
                    if v.name:
                        if v.name in seen and seen[v.name] is not v:
                            return False, v
                        seen[v.name] = v
        return True, None

    def value_name(self, prefix, graph, model):
        """a fresh name, or (30%) a name already used in the model OUTSIDE the scope chain of `graph` and outside
        everything nested under it (sibling subgraphs, other function bodies, the main graph seen from a function):
        names are unique per scope chain only (NamesChain)"""
        r = self.rng
        tree = self.graph_tree(model)
        if len(tree) > 1 and r.random() < 0.3:
            mine = next((anc for g, anc in tree if g is graph), None)
            if mine is not None:
                related = [g for g, anc in tree if g is graph or any(a is graph for a in anc)] + mine
                forb = {v.name for h in related for v in self.own_values(h) if v.name}
                others = sorted({v.name for g, _ in tree for v in self.own_values(g) if v.name} - forb)
                if others:
                    self.reused = getattr(self, "reused", 0) + 1
                    return r.choice(others)
        if not self.strict and r.random() < 0.12:
            # wild: shadow a name of an enclosing graph (outside NamesChain)
            owner = self.owner_of(graph)
            if owner is not None and owner.graph is not None:
                outer = sorted({v.name for v in list(owner.graph.inputs) + [o for k in owner.graph for o in k.outputs] if v.name})
                if outer:
                    self.tainted = True
                    self.shadowed = getattr(self, "shadowed", 0) + 1
                    return r.choice(outer)
        return self.name(prefix)

    def shape(self):
        r = self.rng
        if r.random() < 0.3:
            return None
        rank = r.choice([0, 1, 2, 2, 3, 3])
        return [r.choice([2, 4, 8, "N", "M", None]) for _ in range(rank)]

    def model_values(self, model):
        real = self.real
        vs = [real.vid[id(v)] for g in real.model_graphs(model) for v in list(g.inputs) + list(g.initializers.values())]
        for n in real.all_nodes(model):
            vs += [real.vid[id(v)] for v in list(n.inputs) + list(n.outputs) if v is not None]
        return sorted(set(vs))

    def owner_of(self, graph):
        """the node whose GRAPH attribute holds `graph` (None for a root graph)"""
        real = self.real
        for n in real.nodes:
            if any(sg is graph for sg in real.subgraphs_of(n)):
                return n
        return None

    def visible_values(self, graph):
        """values a node appended to `graph` can use so that the model stays clonable: the graph's
        inputs and node outputs, and for every enclosing graph its inputs and the outputs of the
        nodes before the owner"""
        real = self.real
        vs = [real.vid[id(v)] for v in graph.inputs] + [real.vid[id(v)] for n in graph for v in n.outputs]
        vs += [real.vid[id(v)] for v in graph.initializers.values()]
        g, hops = graph, 0
        while hops < 8:
            owner = self.owner_of(g)
            if owner is None or owner.graph is None:
                break
            pg = owner.graph
            vs += [real.vid[id(v)] for v in pg.inputs] + [real.vid[id(v)] for v in pg.initializers.values()]
            for n in pg:
                if n is owner:
                    break
                vs += [real.vid[id(v)] for v in n.outputs]
            g, hops = pg, hops + 1
        return sorted(set(vs))

    def ill_scoped(self, graph):
        """some node under `graph` uses, as an input, a value defined inside its own subgraphs"""
        real = self.real

        def defined_under(node):
            out = set()
            for sg in real.subgraphs_of(node):
                out |= {id(v) for v in sg.inputs} | {id(v) for v in sg.initializers.values()}
                for k in sg:
                    out |= {id(v) for v in k.outputs} | defined_under(k)
            return out

        for node in graph.all_nodes():
            inner = defined_under(node)
            if any(v is not None and id(v) in inner for v in node.inputs):
                return True
        return False

    def pick_value(self, model=None):
        """Any value of the world; in the strict stream a value of `model` (names stay unique per model)."""
        if not self.real.values:
            return None
        if self.strict and model is not None:
            vs = self.model_values(model)
            if vs:
                return self.rng.choice(vs)
            return None
        return self.rng.randrange(len(self.real.values))

    def setup(self):
        r = self.rng
        # IR version 10: annotations are accepted by the API but not serialized (C19_roundtrip_legacy)
        ops = [{"op": "newModel", "ir": r.choice([11, 11, 11, 11, 12, 13, 10] if not self.strict else [11, 11, 11, 12, 13, 10])}]
        if r.random() < 0.3:
            ops += self.nested_function_prelude()
        return ops

    def nested_function_prelude(self):
        """A model-local function whose body node owns a subgraph (and, half of the time, a subgraph inside that
        one) with ANNOTATED nodes inside: the nodes `func.all_nodes()` reaches but iterating the function does
        not.  Ids are those of a fresh world: values x=0 o=1 fx=2 fo=3 t=4 u=5, graphs main=0 body=1 sub=2
        subsub=3, nodes 0..3, configurations 0..1."""
        r = self.rng

        def shard(n, v, c, shape, stage=None):
            rank = None if shape is None else len(shape)
            axis = r.choice([-1, 0, 1]) if rank is None else (r.randrange(-rank, rank) if rank else 0)
            return {"op": "shard", "n": n, "v": v, "c": c, "axis": axis, "k": r.choice([1, 2, 4]),
                    "devs": [r.randrange(2) for _ in range(r.choice([0, 1]))], "stage": stage}

        sx, so, sfx, sfo, st, su = (self.shape() for _ in range(6))
        nx, no = self.name("x"), self.name("o")
        # half of the time the function body reuses the names of the main graph (names are unique per scope chain only)
        fx, fo = (nx, no) if r.random() < 0.5 else (self.name("x"), self.name("o"))
        if fx == nx:
            self.reused = getattr(self, "reused", 0) + 1
        ops = [
            {"op": "newInput", "g": 0, "name": nx, "shape": sx},
            {"op": "newNode", "g": 0, "ins": [0], "outs": [{"name": no, "shape": so}]},
            {"op": "addCfg", "m": 0, "name": self.name("cfg"), "num": 2, "names": []},
            {"op": "addCfg", "m": 0, "name": self.name("cfg"), "num": 3, "names": []},
            {"op": "newFunction", "m": 0},
            {"op": "newInput", "g": 1, "name": fx, "shape": sfx},
            {"op": "newNode", "g": 1, "ins": [2], "outs": [{"name": fo, "shape": sfo}]},
            {"op": "newSubgraph", "n": 1, "graphs": r.random() < 0.3},
            {"op": "newNode", "g": 2, "ins": [2, 3][: r.choice([1, 2])], "outs": [{"name": self.name("o"), "shape": st}]},
            shard(2, 4, 0, st, r.choice([None, 1])),
            {"op": "setStage", "n": 2, "c": 1, "stage": r.choice([0, 2])},
        ]
        if r.random() < 0.5:
            ops += [
                {"op": "newSubgraph", "n": 2, "graphs": False},
                {"op": "newNode", "g": 3, "ins": [2], "outs": [{"name": self.name("o"), "shape": su}]},
                shard(3, 2, 1, sfx), shard(3, 5, 0, su),
            ]
        return ops

    def gen_op(self):
        """Pick the next operation given the current real state (mostly valid arguments)."""
        r, real = self.rng, self.real
        strict = self.strict
        nm = len(real.models)
        m = r.randrange(nm)
        model = real.models[m]
        nodes_in = [real.nid[id(n)] for n in real.all_nodes(model)]
        graphs_in = real.model_graphs(model)
        func_roots = [f.graph for f in model.functions.values()]
        # the graph a construction op works on: the root graph or (often, once they exist) a subgraph
        graph = model.graph if (len(graphs_in) == 1 or r.random() < 0.45) else r.choice(graphs_in[1:])
        g = real.gid[id(graph)]
        menu = [
            ("shard", 22), ("shardBad", 6), ("setStage", 6), ("addCfg", 5), ("addCfgBad", 2),
            ("removeCfg", 4), ("rename", 8), ("replaceInput", 10), ("resizeOutputs", 6),
            ("resizeInputs", 4), ("newNode", 7), ("newInput", 3), ("removeNode", 4), ("clone", 3),
            ("roundTrip", 4), ("shardingOf", 2), ("removeCfgBad", 1), ("newSubgraph", 4),
            ("newInit", 4), ("newInitBad", 1), ("attachNode", 3), ("setShape", 2), ("setDev", 2), ("setModelCfgs", 1),
            ("newFunction", 2), ("cloneFunc", 2), ("cloneSub", 3),
        ]
        if not strict:
            menu += [("wildShard", 6), ("removeCfgNoCascade", 2), ("renameWild", 3), ("setDevWild", 3),
                     ("setModelCfgsWild", 2), ("setShapeWild", 3), ("attachNodeWild", 2)]
        kind = r.choices([k for k, _ in menu], [w for _, w in menu])[0]
        if not real.values or not real.nodes:
            kind = r.choice(["newInput", "newNode"])
        if kind in ("shard", "shardBad", "setStage", "wildShard") and not real.cfgs:
            kind = "addCfg"

        def io_of(n):
            node = real.nodes[n]
            return [real.vid[id(x)] for x in list(node.inputs) + list(node.outputs) if x is not None]

        if kind == "newFunction":
            if len(func_roots) >= 2:
                kind = "newNode"
            else:
                return {"op": "newFunction", "m": m}
        if kind == "cloneFunc":
            if not func_roots or len(func_roots) >= 3:
                kind = "newNode"
            else:
                return {"op": "cloneFunc", "m": m, "i": r.randrange(len(func_roots)), "deep": r.random() < 0.3}
        if kind == "cloneSub":
            subs = [(real.nid[id(nd_)], real.gid[id(sg)]) for nd_ in real.all_nodes(model) for sg in real.subgraphs_of(nd_)]
            if strict:
                subs = [(n_, g_) for n_, g_ in subs if not self.ill_scoped(real.graphs[g_])]
            if not subs:
                kind = "newSubgraph"
            else:
                n_, g_ = r.choice(subs)
                if not strict and r.random() < 0.3 and nodes_in:
                    n_ = r.choice(nodes_in)  # attach the clone to another node of the model
                    self.tainted = True
                return {"op": "cloneSub", "n": n_, "g": g_, "deep": r.random() < 0.3}
        if kind in ("newInit", "newInitBad") and any(graph is fg for fg in func_roots):
            # function bodies have no initializers (FunctionProto cannot carry them)
            graph = model.graph
            g = real.gid[id(graph)]
        if kind == "newSubgraph":
            if not nodes_in:
                kind = "newNode"
            else:
                return {"op": "newSubgraph", "n": r.choice(nodes_in), "graphs": r.random() < 0.3}
        if kind == "newInit":
            shape = [r.choice([1, 2, 3, 4]) for _ in range(r.choice([0, 1, 2, 2, 3]))]
            return {"op": "newInit", "g": g, "name": self.name("w"), "shape": shape}
        if kind == "newInitBad":
            existing = [v.name for v in graph.initializers.values()]
            nm = r.choice(existing) if existing and r.random() < 0.7 else ""
            return {"op": "newInit", "g": g, "name": nm, "shape": [2]}
        if kind in ("attachNode", "attachNodeWild"):
            detached = [i for i, nd_ in enumerate(real.nodes) if nd_.graph is None]
            if kind == "attachNodeWild":
                self.tainted = True
                cand = detached + ([r.randrange(len(real.nodes))] if real.nodes else [])
                if not cand:
                    kind = "newNode"
                else:
                    return {"op": "attachNode", "g": g, "n": r.choice(cand)}
            else:
                # in-alphabet: every configuration referenced by the node and by everything nested under it
                # is registered on the model that owns the target graph
                reg = {id(c) for c in model.device_configurations}

                def sub_ok(nd_):
                    if any(nc.configuration is None or id(nc.configuration) not in reg for nc in nd_.device_configurations):
                        return False
                    return all(sub_ok(k2) for sg in real.subgraphs_of(nd_) for k2 in sg)

                cand = [i for i in detached if sub_ok(real.nodes[i])]
                if r.random() < 0.25:
                    cand += [real.nid[id(k2)] for k2 in graph]  # a node of the graph itself is moved to its end
                if not cand:
                    kind = "newNode"
                else:
                    return {"op": "attachNode", "g": g, "n": r.choice(cand)}
        if kind in ("setShape", "setShapeWild"):
            inits = {id(v) for gg in real.graphs for v in gg.initializers.values()}
            sharded = {id(sp.value) for nd_ in real.nodes for nc in nd_.device_configurations for sp in nc.sharding_specs}
            cand = [i for i, v in enumerate(real.values) if id(v) not in inits and (kind == "setShapeWild" or id(v) not in sharded)]
            if kind == "setShapeWild":
                self.tainted = True
            if not cand:
                kind = "newNode"
            else:
                return {"op": "setShape", "v": r.choice(cand), "shape": self.shape()}
        if kind == "setDev":
            # in-alphabet direct assignment: a well-formed tuple (the node's own records, some of them dropped)
            if not nodes_in:
                kind = "newNode"
            else:
                n = r.choice(nodes_in)
                dev = real.node_dev(real.nodes[n])
                keep = [rec for rec in dev if r.random() < 0.6]
                return {"op": "setDev", "n": n, "dev": keep}
        if kind == "setDevWild":
            self.tainted = True
            self.raw = True
            n = r.randrange(len(real.nodes))
            dev = []
            for _ in range(r.choice([0, 1, 2])):
                if not real.cfgs:
                    break
                specs = []
                for _ in range(r.choice([0, 1, 2])):
                    dims = [[r.choice([-3, -1, 0, 1, 2, 5]), r.choice([2, "N", None]), r.choice([0, 1, 2])] for _ in range(r.choice([0, 1, 2]))]
                    specs.append([self.pick_value(), [r.randrange(-1, 4) for _ in range(r.choice([0, 1, 2]))], dims])
                dev.append([r.randrange(len(real.cfgs)), specs, r.choice([None, 0, 1, -1])])
            return {"op": "setDev", "n": n, "dev": dev}
        if kind == "setModelCfgs":
            regs = [real.cid[id(c)] for c in model.device_configurations]
            return {"op": "setModelCfgs", "m": m, "cfgs": regs}
        if kind == "setModelCfgsWild":
            self.tainted = True
            if not real.cfgs:
                kind = "addCfg"
            else:
                return {"op": "setModelCfgs", "m": m, "cfgs": [r.randrange(len(real.cfgs)) for _ in range(r.choice([0, 1, 2, 3]))]}
        if kind == "newInput":
            return {"op": "newInput", "g": g, "name": self.value_name("x", graph, model), "shape": self.shape()}
        if kind == "newNode":
            k = r.choice([0, 1, 2, 2, 3])
            ins = []
            vis = self.visible_values(graph)
            for _ in range(k):
                if vis and r.random() < 0.75:
                    ins.append(r.choice(vis))  # keeps the model clonable (defined before use, in scope)
                elif real.values and r.random() < 0.8:
                    ins.append(self.pick_value(model))
                else:
                    ins.append(None)
            outs = []
            for _ in range(r.choice([1, 1, 2, 3])):
                nm = self.value_name("o", graph, model)
                if any(o["name"] == nm for o in outs):
                    nm = self.name("o")
                outs.append({"name": nm, "shape": self.shape()})
            return {"op": "newNode", "g": g, "ins": ins, "outs": outs}
        if kind == "removeNode":
            own = [real.nid[id(n)] for n in graph]
            n = r.choice(own) if own and r.random() < 0.9 else r.randrange(len(real.nodes))
            return {"op": "removeNode", "g": g, "n": n, "safe": r.random() < 0.6}
        if kind == "rename":
            v = self.pick_value(model)
            if v is None:
                return {"op": "newInput", "g": g, "name": self.name("x"), "shape": self.shape()}
            return {"op": "rename", "v": v, "name": self.name("r")}
        if kind == "renameWild":
            self.tainted = True
            v = self.pick_value()
            other = real.values[self.pick_value()].name or ""
            new = r.choice(["", other, other])
            fin = {id(x) for m_ in real.models for f_ in m_.functions.values() for x in f_.graph.inputs}
            if not new and id(real.values[v]) in fin:
                new = self.name("r")  # function inputs stay named (FunctionProto.input is a list of names; ASSUMPTIONS)
            return {"op": "rename", "v": v, "name": new}
        if kind == "addCfg":
            names = r.choice([[], [], ["CPU", "GPU"], ["a", "b", "c"]])
            num = r.choice([None, len(names)]) if names else r.choice([1, 2, 3, 4])
            return {"op": "addCfg", "m": m, "name": self.name("cfg"), "num": num, "names": names}
        if kind == "addCfgBad":
            existing = [c.name for c in model.device_configurations]
            choice = r.randrange(4)
            if choice == 0:
                return {"op": "addCfg", "m": m, "name": "", "num": 2, "names": []}
            if choice == 1 and existing:
                return {"op": "addCfg", "m": m, "name": r.choice(existing), "num": 2, "names": []}
            if choice == 2:
                return {"op": "addCfg", "m": m, "name": self.name("cfg"), "num": r.choice([0, -1, None]), "names": []}
            return {"op": "addCfg", "m": m, "name": self.name("cfg"), "num": 3, "names": ["a", "b"]}
        if kind in ("removeCfg", "removeCfgNoCascade"):
            regs = [real.cid[id(c)] for c in model.device_configurations]
            if not regs:
                return {"op": "addCfg", "m": m, "name": self.name("cfg"), "num": 2, "names": []}
            c = r.choice(regs)
            cascade = kind == "removeCfg"
            if not cascade:
                self.tainted = True
            if r.random() < 0.5:
                return {"op": "removeCfg", "m": m, "byName": real.cfgs[c].name, "c": None, "cascade": cascade}
            return {"op": "removeCfg", "m": m, "byName": None, "c": c, "cascade": cascade}
        if kind == "removeCfgBad":
            if r.random() < 0.5 or not real.cfgs:
                return {"op": "removeCfg", "m": m, "byName": "nosuch", "c": None, "cascade": True}
            regs = {id(c) for c in model.device_configurations}
            others = [i for i, c in enumerate(real.cfgs) if id(c) not in regs]
            if not others:
                return {"op": "removeCfg", "m": m, "byName": "nosuch", "c": None, "cascade": True}
            return {"op": "removeCfg", "m": m, "byName": None, "c": r.choice(others), "cascade": True}
        if kind in ("shard", "shardBad", "wildShard", "setStage", "shardingOf"):
            n = r.choice(nodes_in) if nodes_in and r.random() < 0.9 else r.randrange(len(real.nodes))
            node = real.nodes[n]
            owner = real.model_of(node)
            regs = [real.cid[id(c)] for c in owner.device_configurations] if owner is not None else list(range(len(real.cfgs)))
            if kind == "shardingOf":
                io = io_of(n)
                v = r.choice(io) if io and r.random() < 0.8 else self.pick_value()
                return {"op": "shardingOf", "n": n, "v": v}
            if kind == "wildShard":
                self.tainted = True
                c = r.randrange(len(real.cfgs))
            else:
                if not regs:
                    mm = real.models.index(owner) if owner is not None else m
                    return {"op": "addCfg", "m": mm, "name": self.name("cfg"), "num": r.choice([1, 2, 4]), "names": []}
                c = r.choice(regs)
            if kind == "setStage":
                return {"op": "setStage", "n": n, "c": c, "stage": r.choice([0, 0, 1, 2, 3, -1])}
            io = io_of(n)
            if strict:
                io = [v for v in io if real.values[v].name]
            if not io:
                return {"op": "newNode", "g": g, "ins": [self.pick_value(model)], "outs": [{"name": self.name("o"), "shape": self.shape()}]}
            v = r.choice(io)
            rank = _rank(real.values[v])
            if rank is None:
                axis = r.choice([-3, -2, -1, 0, 0, 1, 2, 3])
            elif rank == 0:
                axis = r.choice([0, -1, 1])
            else:
                axis = r.randrange(-rank, rank)
            nd = real.cfgs[c].num_devices
            devs = [r.randrange(max(nd, 1)) for _ in range(r.choice([0, 1, 2, 2]))]
            stage = r.choice([None, None, None, 0, 1, 2])
            k = r.choice([1, 2, 2, 4])
            if kind == "wildShard":
                devs = [r.randrange(-1, nd + 2) for _ in range(r.choice([0, 1, 2]))]
            if kind == "shardBad":
                bad = r.randrange(5)
                if bad == 0:
                    v = self.pick_value()  # most likely not an input/output of the node
                    if strict and not real.values[v].name:
                        v = r.choice(io)
                elif bad == 1:
                    k = r.choice([0, -1, -5])
                elif bad == 2:
                    stage = r.choice([-1, -2])
                elif bad == 3:
                    axis = (rank if rank is not None else 3) + r.choice([0, 1]) if r.random() < 0.5 else -(rank if rank is not None else 3) - 1
                else:
                    # repeat an axis already used (possibly through its other sign)
                    used = [(s, d.axis) for nc in node.device_configurations if nc.configuration is real.cfgs[c]
                            for s in nc.sharding_specs for d in s.sharded_dims]
                    if used:
                        s, a = r.choice(used)
                        v = real.vid[id(s.value)]
                        rk = _rank(s.value)
                        axis = a if rk is None or r.random() < 0.5 else (a - rk if a >= 0 else a + rk)
                    else:
                        stage = r.choice([5, 6])  # conflicting stage when one is set
            return {"op": "shard", "n": n, "v": v, "c": c, "axis": axis, "k": k, "devs": devs, "stage": stage}
        if kind == "replaceInput":
            cands = [i for i, nd_ in enumerate(real.nodes) if len(nd_.inputs) > 0]
            if not cands:
                return {"op": "newNode", "g": g, "ins": [self.pick_value(model)], "outs": [{"name": self.name("o"), "shape": self.shape()}]}
            n = r.choice(cands)
            ln = len(real.nodes[n].inputs)
            i = r.randrange(ln) if r.random() < 0.92 else r.choice([-1, ln, ln + 1])
            owner = real.model_of(real.nodes[n])
            v = None if r.random() < 0.2 else self.pick_value(owner if owner is not None else model)
            return {"op": "replaceInput", "n": n, "i": i, "v": v}
        if kind == "resizeOutputs":
            n = r.randrange(len(real.nodes))
            return {"op": "resizeOutputs", "n": n, "k": r.choice([0, 1, 1, 2, 2, 3])}
        if kind == "resizeInputs":
            n = r.randrange(len(real.nodes))
            return {"op": "resizeInputs", "n": n, "k": r.choice([0, 1, 2, 3])}
        if kind == "clone":
            return {"op": "clone", "m": m, "deep": r.random() < 0.3}
        if kind == "roundTrip":
            if strict:
                # the in-alphabet condition asks for unique names of the named values; a previous round trip may
                # have split a value that was used from two unrelated scopes into two values of the same name
                # (names need to be unique per scope chain only: NamesChain)
                ok, dup = self.chain_ok(model)
                if not ok:
                    return {"op": "rename", "v": real.vid[id(dup)], "name": self.name("r")}
            return {"op": "roundTrip", "m": m}
        raise AssertionError(kind)


# --------------------------------------------------------------------------- one history


def run_history(seed: int, strict: bool, length: int, part: Part, fixed_ops=None, raw=False):
    """Generate (or replay) one history on the real code, evaluating the oracle after every op.
    Returns (ops, real_steps)."""
    rng = random.Random(seed)
    real = Real()
    gen = Gen(rng, real, strict)
    gen.raw = raw  # a replayed history that assigns a hand-built annotation tuple
    ops, steps = [], []
    hist_id = {"seed": seed, "strict": strict}
    todo = list(fixed_ops) if fixed_ops is not None else None
    setup = gen.setup() if todo is None else []
    nops = 0
    annotated = edited = False
    prev_state = None
    while True:
        if todo is not None:
            if not todo:
                break
            op = todo.pop(0)
        elif setup:
            op = setup.pop(0)
        else:
            if nops >= length or len(real.models) > 5 or len(real.values) > 60:
                break
            op = gen.gen_op()
            nops += 1
        k = op["op"]
        # ---- before-snapshots for the oracle
        before = prev_state if prev_state is not None else real.state()
        should_raise = None
        if k == "shard":
            should_raise = shard_should_raise(real, op)
        elif k == "setStage":
            should_raise = op["stage"] < 0
        drop_node = None
        if k in ("replaceInput", "resizeInputs", "resizeOutputs", "removeNode"):
            drop_node = op["n"]
            before_dev = real.node_dev(real.nodes[drop_node])
        rt_scoped = gen.chain_ok(real.models[op["m"]])[0] if k == "roundTrip" and op["m"] < len(real.models) else None
        res, out = real.apply(op)
        if res == "raised" and real.last_exc not in Real.ALLOWED_EXC.get(k, set()):
            part.fail(f"unexpected-exception-type:{k}:{real.last_exc}",
                      "the call failed with an exception type that is not a documented rejection",
                      {"history": hist_id, "ops": list(ops) + [op]})
        after = real.state()
        prev_state = after
        ops.append(op)
        steps.append({"res": res, "out": out, "state": after, "facts": real_facts(real), "rt_scoped": rt_scoped})
        part.count(f"op={k}:{res}")
        if any(n_.device_configurations for m_ in real.models for f_ in m_.functions.values() for n_ in Real.walk_nodes(f_.graph)):
            part.count("steps_with_annotated_function_node")
        if any(n_.device_configurations for m_ in real.models for f_ in m_.functions.values()
               for n0_ in f_.graph for sg_ in Real.subgraphs_of(n0_) for n_ in Real.walk_nodes(sg_)):
            part.count("steps_with_annotated_node_nested_in_function")
            if k in ("roundTrip", "removeCfg", "clone", "cloneFunc") and res == "ok":
                part.count(f"{k}_with_annotated_node_nested_in_function")
        if k == "cloneSub" and res == "ok":
            own = {id(v) for n_ in real.graphs[-1].all_nodes() for v in n_.outputs} | {id(v) for v in real.graphs[-1].inputs}
            if any(id(sp.value) not in own for n_ in real.graphs[-1].all_nodes() for nc in n_.device_configurations
                   for sp in nc.sharding_specs):
                part.count("cloneSub_with_spec_on_outer_value")
        if k == "roundTrip" and res == "ok" and real.models[op["m"]].ir_version < 11:
            part.count("roundTrip_below_ir11")
            if any(n_.device_configurations for n_ in real.all_nodes(real.models[op["m"]])):
                part.count("roundTrip_below_ir11_of_annotated_model")
            if real.models[-1].device_configurations:
                part.fail("roundtrip-ir<11:model-configurations", "model configurations serialized below IR version 11",
                          {"history": hist_id, "ops": list(ops)})
        if k in ("clone", "roundTrip") and res == "ok" and real.models[-1].functions:
            part.count(f"{k}_of_model_with_functions")
        if res == "ok" and k in ("shard", "setStage"):
            annotated = True
        if res == "ok" and k in ("replaceInput", "resizeInputs", "resizeOutputs", "removeNode", "rename", "clone", "roundTrip", "removeCfg"):
            edited = True
        step_info = {"index": len(ops) - 1, "op": k, "args": op}
        # ---- oracle (a history is abandoned after its first failure: the replay is the failing prefix)
        nfail0 = len(part["failures"])
        ops_snapshot = list(ops)
        if res == "raised" and before != after:
            part.fail(f"reject-not-atomic {k}", "a raising call changed the IR", {"history": hist_id, "ops": ops_snapshot, "step": step_info})
        if k in ("shard", "setStage") and res == "ok":
            owner = real.model_of(real.nodes[op["n"]])
            if (owner is not None and not any(real.cfgs[op["c"]] is c for c in owner.device_configurations)
                    and not any(f["signature"].startswith("accepted-unregistered-configuration:" + k) for f in part["failures"])):
                part.fail(f"accepted-unregistered-configuration:{k}",
                          "an annotation request with a configuration that is not registered on the node's model is accepted",
                          {"history": hist_id, "ops": ops_snapshot, "step": step_info})
        if should_raise is not None and should_raise != (res == "raised"):
            part.fail(
                f"{k} {'accepted an invalid' if should_raise else 'rejected a valid'} request",
                "validation outcome differs from the documented contract",
                {"history": hist_id, "ops": ops_snapshot, "step": step_info},
            )
        if drop_node is not None and res == "ok" and not gen.raw:
            node = real.nodes[drop_node]
            exp = expected_after_drop(real, before_dev, node)
            if real.node_dev(node) != exp:
                part.fail(f"drop-inexact {k}", "specs after a detach are not exactly those whose target is still on the node",
                          {"history": hist_id, "ops": ops_snapshot, "step": step_info, "expected": exp, "got": real.node_dev(node)})
            for i, (b, a) in enumerate(zip(before["nodes"], after["nodes"])):
                if i != drop_node and b["d"] != a["d"]:
                    part.fail(f"drop-touches-other-node {k}", "annotations of another node changed", {"history": hist_id, "ops": ops_snapshot, "step": step_info})
        if k == "shardingOf" and res == "ok":
            node = real.nodes[op["n"]]
            exp = [s for _c, specs, _s in real.node_dev(node) for s in specs if s[0] == op["v"]]
            if out != exp:
                part.fail("sharding_of", "sharding_of() differs from the specs targeting the value", {"history": hist_id, "ops": ops_snapshot, "step": step_info})
        if k in ("clone", "roundTrip") and res == "ok":
            oracle_copy(real, part, hist_id, ops_snapshot, step_info, op, strict and not gen.tainted)
        if k in ("cloneFunc", "cloneSub") and res == "ok" and not gen.raw:
            oracle_subclone(real, part, hist_id, ops_snapshot, step_info, op)
        oracle_nodangle(real, part, {"history": hist_id, "ops": ops_snapshot}, step_info, strict and not gen.tainted, gen.raw)
        oracle_names_current(real, part, {"history": hist_id, "ops": ops_snapshot}, step_info)
        if todo is None and any(not f["signature"].startswith("accepted-unregistered-configuration:")
                                for f in part["failures"][nfail0:]):
            break
    if getattr(gen, "reused", 0):
        part.count("histories_with_name_reused_across_roots")
    if getattr(gen, "shadowed", 0):
        part.count("histories_with_shadowed_name")
    return ops, steps, annotated and edited


def _by_names(nodes):
    return [[(nc.configuration.name if nc.configuration is not None else None, nc.pipeline_stage,
              [(s.value.name if s.value is not None else None, tuple(s.device),
                tuple((d.axis, d.simple_shardings[0].num_shards) for d in s.sharded_dims)) for s in nc.sharding_specs])
             for nc in n.device_configurations] for n in nodes]


def oracle_subclone(real: Real, part, hist_id, ops, step_info, op):
    """Function.clone / Graph.clone(allow_outer_scope_values=True): the new graph carries the annotations of the
    source (by names), every cloned spec targets an input/output of its own (new) node, and no cloned spec
    targets a value *defined inside* the source graph."""
    if op["op"] == "cloneFunc":
        model = real.models[op["m"]]
        fs = list(model.functions.values())
        src, dst = fs[op["i"]].graph, fs[-1].graph
    else:
        src, dst = real.graphs[op["g"]], real.graphs[-1]
    b = list(dst.all_nodes())
    newids = {id(n) for n in b}
    a = [n for n in src.all_nodes() if id(n) not in newids]  # the clone may have been attached under the source
    case = {"history": hist_id, "ops": ops, "step": step_info}
    if _by_names(a) != _by_names(b):
        part.fail(f"{op['op']}-annotations-differ", "annotations of the cloned graph differ from the source (by names)", case)
    inner = set()
    for n in a:
        inner |= {id(v) for v in n.outputs}
    for g in [src] + [sg for n in a for sg in Real.subgraphs_of(n)]:
        inner |= {id(v) for v in g.inputs} | {id(v) for v in g.initializers.values()}
    for n in b:
        io = {id(v) for v in list(n.inputs) + list(n.outputs) if v is not None}
        for nc in n.device_configurations:
            for s in nc.sharding_specs:
                if s.value is None or id(s.value) not in io:
                    part.fail(f"dangling-spec after {op['op']}", "a cloned spec targets a value that is not an input/output of the cloned node", case)
                elif id(s.value) in inner and op["op"] == "cloneFunc":
                    part.fail(f"{op['op']}-aliases-source-value", "a cloned spec targets a value defined in the source graph", case)


def oracle_copy(real: Real, part, hist_id, ops, step_info, op, strict):
    """The new model (clone / round trip) carries the same annotations on its *own* objects."""
    src, dst = real.models[op["m"]], real.models[-1]
    if op["op"] == "roundTrip" and src.ir_version < 11:
        root = {id(n) for n in dst.graph}
        for n in real.all_nodes(dst):
            if n.device_configurations:
                where = "main-graph-node" if id(n) in root else "nested-node"
                part.fail(f"roundtrip-ir<11:{where}", "annotations serialized below IR version 11", {"history": hist_id, "ops": ops, "step": step_info})
        return
    src_nodes, dst_nodes = real.all_nodes(src), real.all_nodes(dst)
    if len(src_nodes) != len(dst_nodes):
        part.fail(f"{op['op']}-node-count", "node count differs", {"history": hist_id, "ops": ops, "step": step_info})
        return
    src_vals = {id(v) for n in src_nodes for v in list(n.inputs) + list(n.outputs) if v is not None}
    for a, b in zip(src_nodes, dst_nodes):
        da, db = a.device_configurations, b.device_configurations
        if len(da) != len(db):
            part.fail(f"{op['op']}-cfg-count", "number of node configurations differs", {"history": hist_id, "ops": ops, "step": step_info})
            continue
        for ca, cb in zip(da, db):
            if ca.pipeline_stage != cb.pipeline_stage or ca.configuration.name != cb.configuration.name:
                part.fail(f"{op['op']}-cfg-fields", "stage or configuration name differs", {"history": hist_id, "ops": ops, "step": step_info})
            if len(ca.sharding_specs) != len(cb.sharding_specs):
                part.fail(f"{op['op']}-spec-count", "number of sharding specs differs", {"history": hist_id, "ops": ops, "step": step_info})
                continue
            for sa, sb in zip(ca.sharding_specs, cb.sharding_specs):
                def dims(sp):
                    return [(d.axis, Real._dim(d.simple_shardings[0].dim), d.simple_shardings[0].num_shards) for d in sp.sharded_dims]

                if (sa.value.name, sa.device, dims(sa)) != (sb.value.name, sb.device, dims(sb)):
                    part.fail(f"{op['op']}-spec-fields", "a sharding spec changed", {"history": hist_id, "ops": ops, "step": step_info})
                if id(sb.value) in src_vals and op["op"] == "clone" and strict:
                    part.fail("clone-aliases-source-value", "a cloned spec still targets a value of the source graph", {"history": hist_id, "ops": ops, "step": step_info})


# --------------------------------------------------------------------------- compare with the model


def _lean(reqs):
    """lean_batch, waiting while a concurrent `lake build` is relinking the driver executable."""
    import time

    from harness.common import Infra

    for attempt in range(40):
        try:
            return lean_batch(reqs)
        except (Infra, OSError):
            if attempt == 39:
                raise
            time.sleep(3)


def _check_names_current(state, renamed, part, case, opname):
    """C19_names_current on the real objects: every serialized spec that targets a value renamed earlier (and not
    renamed since) carries the assigned name."""
    for mm in state["models"]:
        if mm["ir"] < 11 or not isinstance(mm["ser"], list):
            continue
        for nid_, cfgs in mm["ser"]:
            dev = state["nodes"][nid_]["d"]
            for (_c, specs, _st), (_cn, pspecs, _ps) in zip(dev, cfgs):
                for sp, psp in zip(specs, pspecs):
                    if sp[0] in renamed:
                        part.count("names_current_instances")
                        if psp[0] != renamed[sp[0]]:
                            part.fail(f"names-current: stale tensor_name after {opname}",
                                      "a serialized spec does not carry the name assigned by the last rename of its value", case)


def compare(ops, steps, part: Part, info):
    out = _lean([{"m": "device.run", "ops": ops, "full": True}])[0]
    if "err" in out:
        part.disagree("model driver error", {"info": info, "ops": ops}, out, None)
        return
    msteps = out["steps"]
    pre_ok = True  # the model's in-alphabet condition `Pre` held for every operation so far
    renamed = {}  # value id -> name assigned by its last successful rename (hypotheses of C19_names_current)
    for i, (op, st, ms) in enumerate(zip(ops, steps, msteps)):
        pre_ok = pre_ok and bool(ms.get("pre"))
        if op["op"] == "rename" and st["res"] == "ok" and pre_ok:
            renamed[op["v"]] = op["name"]
        if pre_ok and renamed:
            _check_names_current(st["state"], renamed, part, {"info": info, "ops": ops[: i + 1]}, op["op"])
        f = st["facts"]
        case = {"info": info, "ops": ops[: i + 1]}
        if op["op"] == "roundTrip" and isinstance(ms.get("out"), dict) and st.get("rt_scoped") is not None:
            # the round-trip hypothesis: Lean's NamesScoped against the evaluation on the real objects
            mo = ms["out"]
            part.count("rt_names=" + ("unique" if mo.get("namesUnique") else "chain_only" if mo.get("namesChain") else "neither"))
            if bool(mo.get("namesChain")) != bool(st["rt_scoped"]):
                part.disagree("NamesChain (Lean) != per-scope-chain uniqueness evaluated on the real objects", case,
                              mo.get("namesChain"), st["rt_scoped"])
                return
            if ms.get("pre") and mo.get("namesChain") and not mo.get("namesUnique") and st["res"] == "ok":
                part.count("roundTrip_in_alphabet_only_by_per_chain_names")
        if info.get("strict") and not ms.get("pre"):
            part.disagree(f"strict generator produced {op['op']} outside the model's Pre", case, ms.get("pre"), True)
            return
        if ms.get("devok") != f["devok"]:
            part.disagree(f"DevOK (Lean) != DevOK (oracle on real objects) after {op['op']}", case, ms.get("devok"), f["devok"])
            return
        if ms.get("named") != f["named"]:
            part.disagree(f"Named (Lean) != Named (oracle) after {op['op']}", case, ms.get("named"), f["named"])
            return
        if pre_ok:
            part.count("steps_in_alphabet")
            # C19_step / C19_checker_* transferred to the real code: Pre along the history => DevOK, checker silent
            if not f["devok"]:
                part.fail(f"DevOK broken by in-alphabet {op['op']}", "an in-alphabet history leaves a dangling/ill-formed annotation", case)
            if not f["only_names"]:
                part.fail(f"checker-structural-error after in-alphabet {op['op']}", "the internal check reports a structural violation", case)
            if f["named"] and not f["silent"]:
                part.fail(f"checker-not-silent after in-alphabet {op['op']}", "the internal check reports something although all sharded values are named", case)
            if f["named"] and f["devok"] and any(mm["ser"] == "raised" for mm in st["state"]["models"]):
                part.fail(f"serialization-raises after in-alphabet {op['op']}", "serialize_model raises although every sharded value is named", case)
        else:
            part.count("steps_outside_alphabet")
        if ms.get("res") != st["res"]:
            part.disagree(f"outcome of {op['op']} differs", {"info": info, "ops": ops[: i + 1]}, ms.get("res"), st["res"])
            return
        if op["op"] == "shardingOf" and st["res"] == "ok" and ms.get("out") != st["out"]:
            part.disagree("sharding_of differs", {"info": info, "ops": ops[: i + 1]}, ms.get("out"), st["out"])
            return
        if ms.get("state") != st["state"]:
            a, b = ms.get("state"), st["state"]
            key = next((k for k in b if a.get(k) != b[k]), "?")
            part.disagree(f"state after {op['op']} differs in '{key}'", {"info": info, "ops": ops[: i + 1]}, a.get(key), b[key])
            return


def _worker(arg):
    logging.disable(logging.CRITICAL)
    seed0, count, strict, length = arg
    part = Part()
    for j in range(count):
        seed = seed0 + j
        try:
            ops, steps, nontrivial = run_history(seed, strict, length, part)
        except Exception as e:  # harness bug or an unexpected exception type from the library
            part.fail(f"harness-exception {type(e).__name__}", repr(e)[:300],
                      {"seed": seed, "strict": strict, "length": length, "regenerate": "history"})
            continue
        part.case(ops, nontrivial=nontrivial, sample={"strict": strict, "ops": ops[:12]},
                  stream="strict" if strict else "wild", length=min(len(ops) // 5 * 5, 40))
        compare(ops, steps, part, {"seed": seed, "strict": strict})
    return part


# --------------------------------------------------------------------------- oracle-only stream: subgraphs + functions


def _rich_model(ir, r):
    """A random model: main graph with inputs, an initializer, a chain of nodes some of which own subgraphs
    (GRAPH or GRAPHS attributes) whose nodes use outer-scope values, call nodes to 1-2 random functions (one
    call passes fewer inputs than the function declares), IR version 10-12."""
    import numpy as np

    F = ir.TensorType(ir.DataType.FLOAT)
    cnt = [0]

    def V(prefix, shape="rand"):
        cnt[0] += 1
        if shape == "rand":
            shape = r.choice([None, [2, 3], [4], [2, "N"], [2, 3, 4]])
        return ir.Value(name=f"{prefix}{cnt[0]}", shape=None if shape is None else ir.Shape(shape), type=F)

    def node(op, ins, nout=1, domain=""):
        cnt[0] += 1
        return ir.Node(domain, op, ins, outputs=[V("o") for _ in range(nout)], name=f"N{cnt[0]}")

    inputs = [V("x") for _ in range(r.choice([1, 2, 3]))]
    wshape = [r.choice([2, 3]) for _ in range(r.choice([1, 2]))]
    wt = ir.tensor(np.zeros(tuple(wshape), dtype=np.float32), name="W")
    w = ir.Value(name="W", shape=ir.Shape(wshape), type=F, const_value=wt)
    pool = list(inputs) + [w]
    nodes = []
    # functions
    funcs = []
    for fi in range(r.choice([1, 1, 2])):
        fins = [V("fx") for _ in range(r.choice([1, 2]))]
        fpool, fnodes = list(fins), []
        for _ in range(r.choice([1, 2, 3])):
            nd = node("FOp", [r.choice(fpool) for _ in range(r.choice([1, 2]))])
            if r.random() < 0.5:
                # a control-flow-like body node: a subgraph (sometimes two levels) whose nodes use function values
                inner = node("FSOp", [r.choice(fpool) for _ in range(r.choice([1, 2]))])
                if r.random() < 0.4:
                    deep = node("FSSOp", [r.choice(fpool + list(inner.outputs))])
                    inner.attributes.add(ir.AttrGraph("deep", ir.Graph([], [deep.outputs[0]], nodes=[deep], name=f"fdeep{cnt[0]}")))
                nd.attributes.add(ir.AttrGraph("body", ir.Graph([], [inner.outputs[0]], nodes=[inner], name=f"fsub{cnt[0]}")))
            fnodes.append(nd)
            fpool += list(nd.outputs)
        fg = ir.Graph(fins, [fnodes[-1].outputs[0]], nodes=fnodes, opset_imports={"": 20}, name=f"Fb{fi}")
        funcs.append(ir.Function("custom", f"F{fi}", graph=fg, attributes=[]))
    for _ in range(r.choice([2, 3, 4])):
        nd = node("Op", [r.choice(pool) for _ in range(r.choice([1, 2]))], r.choice([1, 1, 2]))
        if r.random() < 0.5:
            subs = []
            for _ in range(r.choice([1, 2])):
                sin = [V("si")] if r.random() < 0.3 else []
                spool, snodes = pool + sin, []
                for _ in range(r.choice([1, 2])):
                    k = node("SOp", [r.choice(spool) for _ in range(r.choice([1, 2]))])
                    snodes.append(k)
                    spool = spool + list(k.outputs)
                subs.append(ir.Graph(sin, [snodes[-1].outputs[0]], nodes=snodes, name=f"sub{cnt[0]}"))
            if len(subs) > 1 and r.random() < 0.5:
                nd.attributes.add(ir.AttrGraphs("branches", subs))
            else:
                for i, sg in enumerate(subs):
                    nd.attributes.add(ir.AttrGraph(f"body{i}", sg))
        nodes.append(nd)
        pool += list(nd.outputs)
    for f in funcs:
        nin = len(f.inputs)
        k = nin if r.random() < 0.6 else max(1, nin - 1)  # a trailing optional input may be missing
        cnt[0] += 1
        call = ir.Node("custom", f.name, [r.choice(pool) for _ in range(k)], outputs=[V("c")], name=f"call{cnt[0]}")
        nodes.append(call)
        pool += list(call.outputs)
    g = ir.Graph(inputs, [nodes[-1].outputs[0]], nodes=nodes, initializers=[w], opset_imports={"": 20, "custom": 1}, name="main")
    return ir.Model(g, ir_version=r.choice([10, 11, 11, 11, 12]), functions=funcs)


def _rich_nodes(m):
    return Real.all_nodes(m)  # independent recursive walk, not the library's traversal


def _rich_summary(m):
    """annotations by names: node name -> [(cfg name, stage, [(value name, devices, [(axis, shards)])])]"""
    out = {}
    for n in _rich_nodes(m):
        out[n.name] = [
            (nc.configuration.name if nc.configuration is not None else None, nc.pipeline_stage,
             [(s.value.name if s.value is not None else None, tuple(s.device),
               tuple((d.axis, d.simple_shardings[0].num_shards) for d in s.sharded_dims)) for s in nc.sharding_specs])
            for nc in n.device_configurations
        ]
    return out


def _rich_oracle(md, m, part, what, case, inlined=False):
    reg = {id(c) for c in m.device_configurations}
    for n in _rich_nodes(m):
        io = {id(v) for v in list(n.inputs) + list(n.outputs) if v is not None}
        for nc in n.device_configurations:
            if nc.configuration is None or id(nc.configuration) not in reg:
                part.fail(f"rich: unregistered-configuration after {what}", "node configuration not registered on its model (subgraph/function stream)", case)
            for s in nc.sharding_specs:
                if s.value is None or id(s.value) not in io:
                    part.fail(f"rich: dangling-spec after {what}", "spec targets a value outside its node (subgraph/function stream)", case)
    msgs = md._check_device_configurations(m)
    if inlined:
        # inlining substitutes the actual arguments for the formal parameters of a function: an axis accepted
        # for a parameter of unknown rank can be out of range / repeated for the argument (observation, not C19)
        msgs = [x for x in msgs if _kind(x) not in ("axisRange", "axisRepeat")]
    if msgs:
        part.fail(f"rich: checker-not-silent after {what}: {_kind(msgs[0])}", msgs[0], case)


def run_rich(seed: int, length: int, part: Part):
    """Oracle-only histories on a model with an If node (two subgraphs using outer-scope values) and a
    function: annotation ops on inner/function nodes, renames, input replacement, cascade removal, clone and
    round trip.  No model correspondence (the Lean model has one flat graph)."""
    import onnx
    import onnx_ir as ir
    from onnx_ir import _multi_device as md
    from onnx_ir import serde

    r = random.Random(seed)
    m = _rich_model(ir, r)
    cfgs = [m.add_device_configuration("c0", num_devices=2), m.add_device_configuration("c1", num_devices=3)]
    log = [("model", m.ir_version, len(_rich_nodes(m)), len(m.functions))]
    fresh = [0]
    inlined = False
    for _ in range(length):
        nodes = _rich_nodes(m)
        n = r.choice(nodes)
        kind = r.choices(["shard", "stage", "rename", "replace", "cascade", "addcfg", "clone", "roundtrip", "grow",
                          "graphclone", "funcclone", "inline"],
                         [30, 6, 10, 12, 4, 4, 5, 6, 3, 4, 3, 3])[0]
        case = {"seed": seed, "length": length, "log": log}
        try:
            if kind == "shard" and m.device_configurations:
                io = [v for v in list(n.inputs) + list(n.outputs) if v is not None and v.name]
                if not io:
                    continue
                v = r.choice(io)
                rank = _rank(v)
                axis = r.choice([-2, -1, 0, 1, 2]) if rank is None else (r.randrange(-rank, rank) if rank else 0)
                cfg = r.choice(list(m.device_configurations))
                log.append(("shard", n.name, v.name, cfg.name, axis))
                n.shard(v, configuration=cfg, axis=axis, num_shards=r.choice([1, 2, 4]),
                        device_indices=[r.randrange(cfg.num_devices) for _ in range(r.choice([0, 1, 2]))])
            elif kind == "stage" and m.device_configurations:
                cfg = r.choice(list(m.device_configurations))
                log.append(("stage", n.name, cfg.name))
                n.set_pipeline_stage(cfg, r.choice([0, 1, 2]))
            elif kind == "rename":
                vs = [v for v in list(n.inputs) + list(n.outputs) if v is not None]
                if vs:
                    fresh[0] += 1
                    v = r.choice(vs)
                    log.append(("rename", v.name, f"r{fresh[0]}"))
                    v.name = f"r{fresh[0]}"
            elif kind == "replace" and len(n.inputs) > 0:
                # a value visible from the node: values of its own graph or of the main graph
                pool = [v for k in (list(n.graph) if n.graph is not None else []) for v in k.outputs]
                pool += list(m.graph.inputs) + [v for k in m.graph for v in k.outputs]
                if n.graph is not None:
                    pool += list(n.graph.inputs)
                pool = [v for v in pool if v.name and v not in n.outputs]
                i = r.randrange(len(n.inputs))
                v = r.choice(pool + [None])
                log.append(("replace", n.name, i, None if v is None else v.name))
                def by_id(node):
                    return [(id(nc.configuration), nc.pipeline_stage, [(id(sp.value), sp) for sp in nc.sharding_specs])
                            for nc in node.device_configurations]

                before = by_id(n)
                n.replace_input_with(i, v)
                ids = {id(x) for x in list(n.inputs) + list(n.outputs) if x is not None}
                exp = [(c, st, [sp for sp in specs if sp[0] in ids]) for c, st, specs in before]
                if by_id(n) != exp:
                    part.fail("rich: drop-inexact replace_input_with", "specs after detach differ from those still on the node", case)
            elif kind == "cascade" and m.device_configurations:
                cfg = r.choice(list(m.device_configurations))
                log.append(("cascade", cfg.name))
                m.remove_device_configuration(cfg.name if r.random() < 0.5 else cfg, cascade=True)
            elif kind == "addcfg":
                fresh[0] += 1
                log.append(("addcfg", f"k{fresh[0]}"))
                m.add_device_configuration(f"k{fresh[0]}", num_devices=r.choice([1, 2, 4]))
            elif kind == "clone":
                log.append(("clone",))
                before = _rich_summary(m)
                try:
                    m2 = m.clone(deep_copy=r.random() < 0.3)
                except RuntimeError:
                    log.append(("clone-raised",))
                    continue
                if _rich_summary(m2) != before:
                    part.fail("rich: clone changes annotations", "annotations of the clone differ (by names)", case)
                src = {id(v) for k in _rich_nodes(m) for v in list(k.inputs) + list(k.outputs) if v is not None}
                for k in _rich_nodes(m2):
                    for nc in k.device_configurations:
                        for sp in nc.sharding_specs:
                            if id(sp.value) in src:
                                part.fail("rich: clone-aliases-source-value", "a cloned spec targets a value of the source model", case)
                _rich_oracle(md, m, part, "clone(source)", case, inlined)
                m = m2
            elif kind == "roundtrip":
                log.append(("roundtrip",))
                before = _rich_summary(m)
                proto = serde.serialize_model(m)
                p2 = onnx.ModelProto()
                p2.ParseFromString(proto.SerializeToString())
                m2 = serde.deserialize_model(p2)
                if m.ir_version < 11:
                    if m2.device_configurations or any(k.device_configurations for k in _rich_nodes(m2)):
                        part.fail("rich: roundtrip-ir<11", "annotations or configurations serialized below IR version 11", case)
                elif _rich_summary(m2) != before:
                    part.fail("rich: round trip changes annotations", "annotations after serialize/deserialize differ (by names)", case)
                m = m2
                if m.ir_version < 11:
                    cfgs = []
            elif kind == "graphclone":
                # Graph.clone(allow_outer_scope_values=True) of a subgraph: outer values are kept, specs on them too
                subs = [sg for k in nodes for sg in Real.subgraphs_of(k)]
                if subs:
                    sg = r.choice(subs)
                    log.append(("graphclone", sg.name))
                    try:
                        g2 = sg.clone(allow_outer_scope_values=True, deep_copy=r.random() < 0.3)
                    except RuntimeError:
                        log.append(("graphclone-raised",))
                        continue
                    own = {id(v) for k in sg for v in k.outputs} | {id(v) for v in sg.inputs}
                    for k in g2.all_nodes():
                        io = {id(v) for v in list(k.inputs) + list(k.outputs) if v is not None}
                        for nc in k.device_configurations:
                            for sp in nc.sharding_specs:
                                if id(sp.value) not in io:
                                    part.fail("rich: graph-clone dangling-spec", "a spec of the cloned subgraph targets a value outside its node", case)
                                if id(sp.value) in own:
                                    part.fail("rich: graph-clone aliases source value", "a cloned spec targets a value defined in the source subgraph", case)
            elif kind == "funcclone" and m.functions:
                f = r.choice(list(m.functions.values()))
                log.append(("funcclone", f.name))
                try:
                    f2 = f.clone()
                except RuntimeError:
                    log.append(("funcclone-raised",))
                    continue
                srcv = {id(v) for k in f.all_nodes() for v in list(k.inputs) + list(k.outputs) if v is not None}
                a = [[(nc.configuration.name, nc.pipeline_stage, [(sp.value.name, sp.device) for sp in nc.sharding_specs]) for nc in k.device_configurations] for k in f.all_nodes()]
                b = [[(nc.configuration.name, nc.pipeline_stage, [(sp.value.name, sp.device) for sp in nc.sharding_specs]) for nc in k.device_configurations] for k in f2.all_nodes()]
                if a != b:
                    part.fail("rich: Function.clone changes annotations", "annotations of the cloned function differ", case)
                for k in f2.all_nodes():
                    io = {id(v) for v in list(k.inputs) + list(k.outputs) if v is not None}
                    for nc in k.device_configurations:
                        for sp in nc.sharding_specs:
                            if id(sp.value) not in io or id(sp.value) in srcv:
                                part.fail("rich: Function.clone dangling-spec", "a cloned function spec targets a foreign value", case)
            elif kind == "inline" and m.functions:
                from onnx_ir.passes.common import InlinePass

                log.append(("inline",))
                try:
                    # the pass works in place and is not atomic when it raises (not this property): run it on a clone
                    m_try = InlinePass()(m.clone()).model
                except Exception as e:  # inlining / cloning have their own preconditions: not this property
                    log.append(("inline-raised", type(e).__name__))
                    continue
                m = m_try
                inlined = True
            elif kind == "grow":
                k = len(n.outputs)
                log.append(("grow", n.name))
                n.resize_outputs(k + 1)
                fresh[0] += 1
                n.outputs[k].name = f"g{fresh[0]}"
                n.outputs[k].type = ir.TensorType(ir.DataType.FLOAT)
        except ValueError:
            log.append(("raised",))
        part.count(f"rich_op={kind}")
        _rich_oracle(md, m, part, kind, {"seed": seed, "length": length, "log": list(log)}, inlined)
        if part["failures"]:
            break
    part.case(["rich", seed, log], nontrivial=len(log) > 3, stream="rich-oracle-only")


def _rich_worker(arg):
    logging.disable(logging.CRITICAL)
    seed0, count, length = arg
    part = Part()
    for j in range(count):
        try:
            run_rich(seed0 + j, length, part)
        except Exception as e:
            part.fail(f"rich: harness-exception {type(e).__name__}", repr(e)[:300],
                      {"seed": seed0 + j, "length": length, "regenerate": "rich"})
    return part


# --------------------------------------------------------------------------- the inliner's instantiation of a body node


def _inst_case(r: random.Random):
    """A function-body node and the value map InlinePass._instantiate_call builds for it: values 0..K-1 are
    formals / actual arguments / other values, the node's outputs are K..K+nout-1, new outputs start at base."""
    K = r.choice([2, 3, 4, 5])
    nout = r.choice([1, 1, 2])
    ins = [r.choice([None] + list(range(K))) if r.random() < 0.9 else None for _ in range(r.choice([0, 1, 2, 3]))]
    outs = list(range(K, K + nout))
    io = [v for v in ins if v is not None] + outs
    dev = []
    for c in r.sample([0, 1], r.choice([0, 1, 1, 2])):
        specs, seen = [], set()
        for _ in range(r.choice([0, 1, 2, 3])):
            v = r.choice(io) if (io and r.random() < 0.93) else r.randrange(K + nout)
            if v in seen:
                continue
            seen.add(v)
            specs.append([v, [r.randrange(2) for _ in range(r.choice([0, 1]))],
                          [[r.choice([-1, 0, 1]), None, r.choice([1, 2])] for _ in range(r.choice([1, 1, 2]))]])
        dev.append([c, specs, r.choice([None, 0, 1])])
    keys = [k for k in range(K) if r.random() < 0.85]  # a missing key: an input without entry raises
    vm = [[k, (None if r.random() < 0.3 else r.randrange(K))] for k in keys]
    return {"node": {"i": ins, "o": outs, "d": dev}, "vm": vm, "base": K + nout, "K": K}


def _inst_real(case):
    import onnx_ir as ir
    from onnx_ir import _cloner
    from onnx_ir import _multi_device as md

    F = ir.TensorType(ir.DataType.FLOAT)
    K, nd = case["K"], case["node"]
    vals = [ir.Value(name=f"v{i}", type=F) for i in range(K)]
    node = ir.Node("", "Body", [None if i is None else vals[i] for i in nd["i"]], num_outputs=len(nd["o"]), name="body")
    vals += list(node.outputs)
    cfgs = [md.ModelConfiguration(name="c0", num_devices=2), md.ModelConfiguration(name="c1", num_devices=2)]
    recs = []
    for c, specs, stage in nd["d"]:
        sp = [md.ShardingSpec(value=vals[v], device=tuple(devs), sharded_dims=tuple(
            md.ShardedDim(axis=a, simple_shardings=(md.SimpleShardedDim(dim=None, num_shards=k),)) for a, _d, k in dims))
            for v, devs, dims in specs]
        recs.append(md.NodeDeviceConfiguration(configuration=cfgs[c], sharding_specs=tuple(sp), pipeline_stage=stage))
    node.device_configurations = tuple(recs)
    vm = {vals[k]: (None if t is None else vals[t]) for k, t in case["vm"]}
    cl = _cloner.Cloner(attr_map={}, value_map=vm, metadata_props={}, resolve_ref_attrs=True)
    try:
        n2 = cl.clone_node(node)
    except RuntimeError:
        return {"res": "raised"}, None
    ids = {id(v): i for i, v in enumerate(vals)}
    for j, o in enumerate(n2.outputs):
        assert id(o) not in ids
        ids[id(o)] = case["base"] + j
    d = [[cfgs.index(nc.configuration) if any(nc.configuration is c for c in cfgs) else -1,
          [[ids.get(id(s.value), -1), list(s.device),
            [[sd.axis, None, sd.simple_shardings[0].num_shards] for sd in s.sharded_dims]] for s in nc.sharding_specs],
          nc.pipeline_stage] for nc in n2.device_configurations]
    out = {"res": "ok", "node": {"i": [None if v is None else ids.get(id(v), -1) for v in n2.inputs],
                                 "o": [ids[id(v)] for v in n2.outputs], "d": d, "s": []}}
    for i in range(len(n2.inputs)):  # do not leave the free node registered as a user
        n2.replace_input_with(i, None)
    return out, n2


def run_inst(ctx: Ctx, n: int) -> None:
    """Correspondence + oracle for C19_inline_remap: Cloner.clone_node with the inliner's (None-valued) value map."""
    cases = [_inst_case(ctx.rng) for _ in range(n)]
    outs = _lean([{"m": "device.inst", "node": c["node"], "vm": c["vm"], "base": c["base"]} for c in cases])
    for c, mo in zip(cases, outs):
        ro, _n2 = _inst_real(c)
        io = {v for v in c["node"]["i"] if v is not None} | set(c["node"]["o"])
        hyp = all(sp[0] in io for _c, specs, _s in c["node"]["d"] for sp in specs)  # DevOK's "specs target inputs/outputs"
        dropped = ro["res"] == "ok" and sum(len(x[1]) for x in ro["node"]["d"]) < sum(len(x[1]) for x in c["node"]["d"])
        ctx.case(["inst", c], nontrivial=bool(c["node"]["d"]) and ro["res"] == "ok", sample=c, stream="inline-instantiate",
                 inst_res=ro["res"], inst_hyp=hyp, inst_dropped=dropped)
        if "err" in mo or mo != ro:
            ctx.disagree("instNode (Cloner.clone_node with the inliner's value map) differs", {"inst": c}, mo, ro)
            continue
        if ro["res"] == "ok" and hyp:
            nio = {v for v in ro["node"]["i"] if v is not None} | set(ro["node"]["o"])
            if any(sp[0] not in nio for _c, specs, _s in ro["node"]["d"] for sp in specs):
                ctx.fail("inline: dangling-spec after instantiating a body node",
                         "a spec of the instantiated node targets a value that is not an input/output of it", {"inst": c})


def _inline_worker(arg):
    logging.disable(logging.CRITICAL)
    from harness import c19_inline

    seed, count = arg
    r = random.Random(seed)
    part = Part()
    cases = [c19_inline.gen_case(r) for _ in range(count)]
    try:
        outs = _lean([{"m": "device.inline", **c} for c in cases])
    except Exception as e:
        part.fail(f"inline-pass: harness-exception {type(e).__name__}", repr(e)[:300], {"seed": seed, "regenerate": "inline"})
        return part
    for c, o in zip(cases, outs):
        try:
            c19_inline.run_case(c, o, _kind, part)
        except Exception as e:  # real code crashing on a generated model, or a harness bug
            part.disagree(f"inline-pass: exception {type(e).__name__} while comparing", {"inline": c}, None, repr(e)[:300])
    return part


def run(ctx: Ctx) -> None:
    logging.disable(logging.CRITICAL)
    ctx.rule = (
        "one case = one operation history from an empty world (1 model, then random annotation/edit/rename/"
        "clone/round-trip/removal ops); non-trivial when it contains >= 1 accepted annotation and >= 1 accepted "
        "edit; distinct by the full op list"
    )
    from harness.common import load_corpus

    for obj in load_corpus("C19"):
        replay(ctx, obj)
    n_strict = ctx.pick(480, 6400)
    n_wild = ctx.pick(320, 3200)
    length = ctx.pick(28, 40)
    jobs = []
    per = 20
    for i in range(0, n_strict, per):
        jobs.append((ctx.rng.randrange(1 << 40), min(per, n_strict - i), True, length))
    for i in range(0, n_wild, per):
        jobs.append((ctx.rng.randrange(1 << 40), min(per, n_wild - i), False, length))
    for part in pmap(_worker, jobs):
        ctx.merge(part)
    # oracle-only stream (subgraphs + functions; outside the flat Lean model)
    n_rich = ctx.pick(160, 1600)
    rjobs = [(ctx.rng.randrange(1 << 40), min(20, n_rich - i), ctx.pick(30, 45)) for i in range(0, n_rich, 20)]
    for part in pmap(_rich_worker, rjobs):
        ctx.merge(part)
    # the inliner's instantiation of a body node (C19_inline_remap)
    run_inst(ctx, ctx.pick(600, 6000))
    # the complete InlinePass (C19_inline_pass)
    n_inl = ctx.pick(400, 4000)
    ijobs = [(ctx.rng.randrange(1 << 40), min(50, n_inl - i)) for i in range(0, n_inl, 50)]
    for part in pmap(_inline_worker, ijobs):
        ctx.merge(part)


def replay(ctx: Ctx, obj: dict) -> None:
    logging.disable(logging.CRITICAL)
    case = obj.get("case", obj)
    if "inline" in case:
        from harness import c19_inline

        c = case["inline"]
        part = Part()
        o = _lean([{"m": "device.inline", **c}])[0]
        c19_inline.run_case(c, o, _kind, part, stream="corpus")
        ctx.merge(part)
        return
    if "inst" in case:
        c = case["inst"]
        mo = _lean([{"m": "device.inst", "node": c["node"], "vm": c["vm"], "base": c["base"]}])[0]
        ro, _ = _inst_real(c)
        ctx.case(["inst", c], nontrivial=True, stream="corpus")
        if mo != ro:
            ctx.disagree("instNode differs (corpus)", {"inst": c}, mo, ro)
        return
    ops = case.get("ops") or case.get("history", {}).get("ops")
    if ops is None:
        # a case recorded without its operations (rich stream, harness exception): regenerate it from the seed
        part = Part()
        if "log" in case or case.get("regenerate") == "rich":
            run_rich(case["seed"], case.get("length", 45), part)
        elif "seed" in case:
            ops2, steps, _ = run_history(case["seed"], bool(case.get("strict")), case.get("length", 40), part)
            compare(ops2, steps, part, {"replay": True, "strict": bool(case.get("strict"))})
        else:
            return
        ctx.case(["regenerated", case.get("seed")], nontrivial=True, stream="corpus")
        ctx.merge(part)
        return
    part = Part()
    strict = bool(case.get("history", {}).get("strict", case.get("strict", False)))
    ops2, steps, _ = run_history(0, strict, 0, part, fixed_ops=ops, raw=bool(case.get("raw")))
    compare(ops2, steps, part, {"replay": True})
    ctx.case(ops2, nontrivial=True, stream="corpus")
    ctx.merge(part)

"""C16 helper: real SymPy objects -> the JSON tree of the Lean model `SExpr`
(lean/IrVerif/Model/SymExprSympy.lean, driver command `sym.sympy_pp`).

`sexpr_of_sympy(expr)` serialises a SymPy expression structurally, children in the order the
string printer itself uses (`StrPrinter._as_ordered_terms`, `Mul.as_ordered_factors`,
`sorted(args, key=default_sort_key)` for Max / Min); `None` = outside the modelled fragment.
`real_tokens_of_text(text)` = tokens of a text via the repository's `_ExpressionTokenizer`, in the
JSON shape of the driver's `tokJ`.

Self-test (`cd /verif && /venv/bin/python -m harness.c16_sympy`): random `SymbolicDim` expressions
built through the real operator overloads; the model printer's tokens must equal the tokens of the
real `str(expr)`, and the model parser's value on them must equal the value of the meaning.
"""

from __future__ import annotations

import json
import math
import os
import random
import subprocess
import sys

_FN = {"floor": "floor", "ceiling": "ceiling", "Abs": "Abs", "sign": "sign", "Mod": "Mod",
       "Max": "Max", "Min": "Min"}


def sexpr_of_sympy(expr):
    """SymPy object -> SExpr JSON, or None when outside the fragment."""
    import sympy
    from sympy.core.sorting import default_sort_key
    from sympy.printing.str import StrPrinter

    def go(e):
        if isinstance(e, sympy.Integer):
            return ["int", int(e.p)]
        if isinstance(e, sympy.Rational):  # non-integer Rational (Half included)
            if e.q == 1:
                return ["int", int(e.p)]
            return ["rat", int(e.p), int(e.q)]
        if isinstance(e, sympy.Symbol):
            if not e.is_commutative:
                raise _Outside
            return ["sym", e.name]
        if isinstance(e, sympy.Add):
            terms = StrPrinter()._as_ordered_terms(e, order=None)
            return ["add", [go(t) for t in terms]]
        if isinstance(e, sympy.Mul):
            if not e.is_commutative:
                raise _Outside
            # _print_Mul takes its first (unevaluated-Mul) branch on these; not modelled
            args = e.args
            if args[0] is sympy.S.One or any(
                isinstance(a, sympy.Number)
                or (a.is_Pow and all(ai.is_Integer for ai in a.args))
                for a in args[1:]
            ):
                raise _Outside
            # str.py 312-327: the sign of the coefficient is split off BEFORE the factors are
            # ordered (`as_ordered_factors` on the original would split -3 into -1, 3)
            c, rest = e.as_coeff_Mul()
            if c < 0:
                from sympy.core.mul import _keep_coeff

                fs = list(_keep_coeff(-c, rest).as_ordered_factors())
                if fs and isinstance(fs[0], sympy.Number):
                    fs[0] = -fs[0]
                else:
                    fs.insert(0, sympy.S.NegativeOne)
            else:
                fs = list(e.as_ordered_factors())
            return ["mul", [go(f) for f in fs]]
        if isinstance(e, sympy.Pow):
            b, x = e.args
            # Rational exponents included since wave 4: the model prints the sqrt spellings
            # (sqrt(b), 1/sqrt(b), M/sqrt(b)) and b**(p/q)
            return ["pow", go(b), go(x)]
        if isinstance(e, (sympy.Max, sympy.Min)):
            args = sorted(e.args, key=default_sort_key)
            return ["fn", type(e).__name__, [go(a) for a in args]]
        if isinstance(e, (sympy.floor, sympy.ceiling, sympy.Abs, sympy.sign, sympy.Mod)):
            return ["fn", _FN[type(e).__name__], [go(a) for a in e.args]]
        raise _Outside

    try:
        return go(expr)
    except _Outside:
        return None


class _Outside(Exception):
    pass


def real_tokens_of_text(text: str):
    """tokens of `text` by the repository's tokenizer, as the driver's `tokJ` prints them"""
    from onnx_ir._symbolic_shapes import _ExpressionTokenizer

    tz = _ExpressionTokenizer(text)
    out = []
    try:
        while True:
            t = tz.get_token()
            if t is None:
                return out
            out.append([t[0], t[1]])
    except ValueError:
        return None


def shape_of(j) -> str:
    """constructor skeleton of an SExpr JSON (for listing mismatching shapes)"""
    tag = j[0]
    if tag == "int":
        return "int-" if j[1] < 0 else "int"
    if tag == "rat":
        return "rat-" if j[1] < 0 else "rat"
    if tag == "sym":
        return "s"
    if tag in ("add", "mul"):
        return tag + "(" + ",".join(shape_of(x) for x in j[1]) + ")"
    if tag == "pow":
        return "pow(" + shape_of(j[1]) + "," + shape_of(j[2]) + ")"
    return j[1] + "(" + ",".join(shape_of(x) for x in j[2]) + ")"


# ----------------------------------------------------------------------------------------------
# self-test

_TEXTS = ["N", "M", "K", "max(N, M)", "min(N, 2)", "Max(1, N, M)", "floor(N/2)", "N**2", "2**(-N)",
          "(N + 1)**2", "Mod(N, 3)", "N/M", "ceiling(N/3)", "Abs(N - M)", "sign(N - M)",
          "M/N**2", "N*M", "N - M", "-N", "N/(2*M)", "2**N", "N**M", "1/N", "min(N, M, K)",
          "sqrt(N)", "1/sqrt(N)", "M/sqrt(N)", "sqrt(N + 1)", "N**(1/3)", "M/N**(2/3)", "sqrt(2)*N", "sqrt(N*M)",
          "N**(3/2)", "M*N**(-3/2)", "M*K**(-N)", "M/K**N", "2**(-N)*M", "M*K**(-2*N)", "M*K**(-N/2)", "M*(N + 1)**(-K)", "M*(N - 1)**(-K)", "K**(-N)",
          "M/(K**N*N)", "M*K**(-N)*N**(-M)", "M*K**(-N*M)", "M/(2*K**N)", "-M*K**(-N)", "M*K**(1 - N)", "M*K**(-N - 1)", "M/K**(N*(M + 1))", "K**(-N)/3", "M*K**(-3*N/4)", "sqrt(8)", "K/(M*sqrt(N))", "sqrt(N)/2", "2**sqrt(N)", "sqrt(N)**3", "sqrt(N/M)"]


def _random_dim(rng: random.Random, depth: int):
    import onnx_ir as ir

    if depth <= 0 or rng.random() < 0.2:
        return ir.SymbolicDim(rng.choice(_TEXTS))
    a = _random_dim(rng, depth - 1)
    k = rng.choice([-3, -2, -1, 1, 2, 3, 4, 6])
    op = rng.randrange(20)
    b = _random_dim(rng, depth - 1) if rng.random() < 0.5 else k
    try:
        if op == 0:
            return a + b
        if op == 1:
            return a - b
        if op == 2:
            return a * b
        if op == 3:
            return a / b
        if op == 4:
            return a // b
        if op == 5:
            return a % b
        if op == 6:
            return -a
        if op == 7:
            return math.floor(a)
        if op == 8:
            return math.ceil(a)
        if op == 9:
            return math.trunc(a)
        if op == 10:
            return k + a
        if op == 11:
            return k - a
        if op == 12:
            return k * a
        if op == 13:
            return k / a
        if op == 14:
            return k // a
        if op == 15:
            return k % a
        if op == 16:
            return a * a
        if op == 17:
            return (a + 1) * (a - 1) if rng.random() < 0.5 else a / 2 + rng.choice([1, -1]) * a / 3
        if op == 18:
            return a / b / 2 if isinstance(b, int) else a / (b * 2)
        return a * k / 4
    except (ZeroDivisionError, TypeError, ValueError, RecursionError):
        return a


def _selftest(n: int = 600, seed: int = 0) -> int:
    driver = os.environ.get("C16_SYMPY_DRIVER", os.path.join(os.path.dirname(os.path.dirname(os.path.abspath(__file__))), "lean", ".lake", "build", "bin", "irdriver"))
    rng = random.Random(seed)
    envs = [[["N", a], ["M", b], ["K", c]]
            for (a, b, c) in [(3, 2, 5), (1, 1, 1), (7, 3, 2), (4, 6, 9), (0, 2, 3), (2, 0, -1),
                              (-3, 5, 2), (12, -4, 0)]]
    cases = {}
    outside = 0
    tries = 0
    same_text = seen = 0
    exprs = {}
    while len(cases) < n and tries < 40 * n:
        tries += 1
        d = _random_dim(rng, rng.choice([1, 2, 2, 3, 3, 4]))
        if d.value is None or d.value in cases:
            continue
        same_text += d.value == str(d._expr)
        seen += 1
        j = sexpr_of_sympy(d._expr)
        if j is None:
            outside += 1
            continue
        if len(d.value) > 400:
            continue
        cases[d.value] = j
        exprs[d.value] = str(d._expr)
    texts = list(cases)
    reqs = "".join(json.dumps({"m": "sym.sympy_pp", "e": cases[t], "envs": envs}) + "\n" for t in texts)
    out = subprocess.run([driver], input=reqs, capture_output=True, text=True, check=True).stdout
    answers = [json.loads(line) for line in out.splitlines()]
    assert len(answers) == len(texts), (len(answers), len(texts))
    tok_ok = wf = val_ok = surf_ok = parsed = 0
    bad_shapes = {}
    bad_vals = []
    for t, a in zip(texts, answers):
        if "err" in a:
            bad_shapes.setdefault("driver error: " + str(a["err"]), []).append(t)
            continue
        if a["tokens"] == real_tokens_of_text(exprs[t]):
            tok_ok += 1
        else:
            bad_shapes.setdefault(shape_of(cases[t]), []).append((exprs[t], a["s"]))
        wf += bool(a["wf"])
        parsed += a["parsed"] is not None
        surf_ok += a["parsed"] == a["surf"]
        if a["vals_parsed"] == a["vals_den"] and a["parsed"] is not None:
            val_ok += 1
        else:
            bad_vals.append((t, a["wf"], a["vals_parsed"], a["vals_den"]))
    total = len(texts)
    print(f"cases {total} (outside fragment, skipped: {outside}); "
          f"d.value == str(d._expr) for {same_text}/{seen} generated dims "
          "(the others are raw texts given to SymbolicDim)")
    print(f"tokens == real tokens of str(expr): {tok_ok}/{total}")
    print(f"swf: {wf}/{total}")
    print(f"parseTokens(ppSympy) succeeded: {parsed}/{total}; == surf: {surf_ok}/{total}")
    print(f"vals_parsed == vals_den: {val_ok}/{total}")
    for shp, ex in list(bad_shapes.items())[:20]:
        print("  TOKEN MISMATCH shape", shp, "e.g.", ex[0])
    wf_bad = [b for b in bad_vals if b[1]]
    for b in bad_vals[:10]:
        print("  VALUE MISMATCH", b)
    print(f"value mismatches among wf cases: {len(wf_bad)}")
    # SWfX cases (symbolic negative exponents in a denominator): equal under every binding with denNZ
    wfx_bad = sum(1 for a in answers if "err" not in a and a.get("wfx") and any(ok and x != y for x, y, ok in zip(a["vals_parsed"], a["vals_den"], a["nz"])))
    print(f"swfX: {sum(bool(a.get('wfx')) for a in answers if 'err' not in a)}/{total}; value mismatches under denNZ: {wfx_bad}")
    return 0 if tok_ok == total and not wf_bad and not wfx_bad else 1


if __name__ == "__main__":
    sys.exit(_selftest(int(sys.argv[1]) if len(sys.argv) > 1 else 600,
                       int(sys.argv[2]) if len(sys.argv) > 2 else 0))

"""C13 (meta refinement): what `deep_copy=True/False` means for the OBJECTS stored in `meta`.

Model: `lean/IrVerif/Model/CloneMeta.lean` (`IrVerif.Clone.Meta`: a heap of Python lists / dicts, `copy.deepcopy`
transcribed with its memo, `Cloner.clone_meta`, in-place edits); driver op `clonemeta.run`.

`run_meta(ctx)` builds small real IR objects (graph with a nested subgraph, view, function, model) whose `meta` stores
hold nested lists / dicts of atoms with internal sharing, cycles, aliasing between keys and between the stores of two
owners, and invalid keys; runs the real `clone(deep_copy=..)` under the CPU guard of harness.c13; abstracts source and
clone stores (one fixed traversal of the owners, the same on both sides; object identity -> index by first visit) and
compares with `cloneMetaAll`; then runs a random history of in-place edits on objects reached from the clone's stores,
then from the original's, on the real objects and in the model, and compares the final heaps.

ORACLE on the real objects (independent of the model), deep_copy=True: no mutable object is reachable from both the
original's and the clone's stores; per key the clone's value is structurally the same graph as the source value; the
edit history on the clone side leaves a deep structural snapshot of ALL the original's stores unchanged and vice versa.
deep_copy=False: the stores are different containers holding the identical objects (an observation, not a failure:
the property statement demands new metadata CONTAINERS, and deep_copy=False is the documented default).
"""

from __future__ import annotations

import random

KINDS = ["graph", "subgraph", "view", "function", "model"]
ATOMS = [0, 1, -3, "s", "", None, True, 2.5, "k"]
KEYS = ["a", "b", "c", "pass_x", "shape_cache"]


# --------------------------------------------------------------------------- generation of the stored objects


def _gen_obj(rng: random.Random, pool: list, depth: int, flags: dict):
    """a new list / dict of atoms and (new or already existing) containers; `pool` = containers of this case so far"""
    is_list = rng.random() < 0.55
    obj: list | dict = [] if is_list else {}
    pool.append(obj)
    for i in range(rng.randrange(0, 4)):
        r = rng.random()
        if depth > 0 and r < 0.35:
            v = _gen_obj(rng, pool, depth - 1, flags)
        elif r < 0.5 and pool:
            v = rng.choice(pool)  # internal sharing, a cycle when it is an ancestor (or obj itself)
            flags["shared_ref"] = True
        else:
            v = rng.choice(ATOMS)
        if is_list:
            obj.append(v)
        else:
            obj[rng.choice(KEYS) + str(i)] = v
    return obj


def _fill_store(rng: random.Random, store, pool: list, flags: dict) -> None:
    n = rng.choice([0, 1, 1, 2, 3])
    keys = rng.sample(KEYS, n)
    for k in keys:
        r = rng.random()
        if r < 0.2:
            store[k] = rng.choice(ATOMS)
        elif r < 0.4 and pool:
            store[k] = rng.choice(pool)  # aliasing with another key / another owner's store / a nested object
            flags["alias_roots"] = True
        else:
            store[k] = _gen_obj(rng, pool, rng.choice([0, 1, 2]), flags)
    if rng.random() < 0.3:
        # an invalid key: of an existing entry, or a key that has no entry
        store.invalidate(rng.choice(keys) if keys and rng.random() < 0.7 else "ghost")
        flags["invalid"] = True


def build(seed: int) -> dict:
    """the IR objects of a case (deterministic in `seed`)"""
    import numpy as np
    import onnx_ir as ir

    rng = random.Random(seed)
    flags: dict = {}
    pool: list = []
    x, y = ir.Value(name="x"), ir.Value(name="y")
    w = ir.Value(name="w", const_value=ir.tensor(np.array([1.0], dtype=np.float32), name="w"))
    n1 = ir.Node("", "Add", [x, y], num_outputs=1, name="n1")
    n1.outputs[0].name = "t1"
    sx = ir.Value(name="sx")
    s_in = [sx, n1.outputs[0]] if rng.random() < 0.6 else [sx]  # captured outer value
    sn = ir.Node("", "Sum", s_in, num_outputs=1, name="sn")
    sn.outputs[0].name = "st"
    sub = ir.Graph([sx], [sn.outputs[0]], nodes=[sn], name="sub")
    n2 = ir.Node("", "Loop", [n1.outputs[0], w], attributes=[ir.AttrGraph("body", sub)],
                 num_outputs=rng.choice([1, 2]), name="n2")  # fmt: skip
    for i, o in enumerate(n2.outputs):
        o.name = f"t2_{i}"
    n3 = ir.Node("", "Mul", [n2.outputs[0], x], num_outputs=1, name="n3")
    n3.outputs[0].name = "t3"
    g = ir.Graph([x, y], [n3.outputs[0]], nodes=[n1, n2, n3], initializers=[w], name="g", opset_imports={"": 18})
    # a function with its own small body
    fx = ir.Value(name="fx")
    fn = ir.Node("", "Relu", [fx], num_outputs=1, name="fn")
    fn.outputs[0].name = "ft"
    fg = ir.Graph([fx], [fn.outputs[0]], nodes=[fn], name="fbody", opset_imports={"": 18})
    func = ir.Function("dom", "F", graph=fg, attributes=[])
    model = ir.Model(g, ir_version=10, functions=[func])
    view = ir.GraphView([x, y], [n2.outputs[0]], nodes=[n1, n2], initializers=[w], name="v")
    built = {"g": g, "sub": sub, "view": view, "func": func, "model": model, "flags": flags, "pool": pool}
    # fill: every owner of every kind, in a fixed order, with a shared pool (aliasing between owners)
    for owner in owners_of(g) + owners_of(fg) + [view]:
        if rng.random() < 0.55:
            _fill_store(rng, owner.meta, pool, flags)
    if rng.random() < 0.5:
        model.meta["model_key"] = rng.choice(pool) if pool and rng.random() < 0.5 else [1, 2]
    return built


def owners_of(graph) -> list:
    """every object with a `meta` store the cloner copies, in ONE fixed structural order (used for the source and
    for the clone): inputs, initializers (by name), per node: nested graphs, the node, its outputs; then the graph"""
    out: list = []
    seen: set[int] = set()

    def add(o):
        if id(o) not in seen:
            seen.add(id(o))
            out.append(o)

    def walk(gr):
        for v in gr.inputs:
            add(v)
        for name in sorted(gr.initializers):
            add(gr.initializers[name])
        for node in gr:
            for a in node.attributes.values():
                if a.type.name == "GRAPH":
                    walk(a.as_graph())
                elif a.type.name == "GRAPHS":
                    for sg in a.as_graphs():
                        walk(sg)
            add(node)
            for o in node.outputs:
                add(o)
        add(gr)

    walk(graph)
    return out


def target_owners(built: dict, kind: str, obj) -> list:
    if kind == "model":
        res = owners_of(obj.graph)
        for f in obj.functions.values():
            res += owners_of(f._graph)
        return res
    if kind == "function":
        return owners_of(obj._graph)
    return owners_of(obj)


def source_of(built: dict, kind: str):
    return {"graph": built["g"], "subgraph": built["sub"], "view": built["view"], "function": built["func"],
            "model": built["model"]}[kind]  # fmt: skip


def real_clone(kind: str, src, deep: bool):
    if kind == "subgraph":
        return src.clone(allow_outer_scope_values=True, deep_copy=deep)
    return src.clone(deep_copy=deep)


# --------------------------------------------------------------------------- abstraction to the PyHeap model


def _atom(v) -> dict:
    return {"a": f"{type(v).__name__}:{v!r}"}


class Abs:
    """object identity -> cell index by first visit; cells re-read on demand (`heap()`)"""

    def __init__(self):
        self.idx: dict[int, int] = {}
        self.objs: list = []

    def val(self, v) -> dict:
        if isinstance(v, (list, dict)):
            return {"r": self.cell(v)}
        return _atom(v)

    def cell(self, o) -> int:
        i = self.idx.get(id(o))
        if i is None:
            i = self.idx[id(o)] = len(self.objs)
            self.objs.append(o)
            for c in o if isinstance(o, list) else o.values():  # children in order (iterative enough: depth <= ~6)
                if isinstance(c, (list, dict)):
                    self.cell(c)
        return i

    def store(self, st) -> dict:
        return {"data": [[k, self.val(v)] for k, v in st.items()], "invalid": sorted(st._invalid_keys)}

    def heap(self) -> list:
        out = []
        n = 0
        while n < len(self.objs):  # `val` may discover cells written by edits
            o = self.objs[n]
            if isinstance(o, list):
                out.append({"list": [self.val(c) for c in o]})
            else:
                out.append({"dict": [[k, self.val(c)] for k, c in o.items()]})
            n += 1
        return out


def canon(stores: list, heap: list, base: int):
    """cells < base keep their number; cells >= base are renumbered by first visit from the stores (in order, then
    from the cells < base); unreachable cells >= base are dropped.  Same function for model and real side."""
    ren: dict[int, int] = {}
    order: list[int] = []

    def visit(i):
        if i < base or i in ren or i >= len(heap):
            return
        ren[i] = base + len(order)
        order.append(i)
        for c in _kids(heap[i]):
            if "r" in c:
                visit(c["r"])

    def rv(v):
        if "r" in v:
            i = v["r"]
            return {"r": i if i < base else ren.get(i, f"dangling{i}")}
        return v

    for st in stores:
        for _k, v in st["data"]:
            if "r" in v:
                visit(v["r"])
    for i in range(min(base, len(heap))):
        for c in _kids(heap[i]):
            if "r" in c:
                visit(c["r"])

    def ro(o):
        if "list" in o:
            return {"list": [rv(c) for c in o["list"]]}
        return {"dict": [[k, rv(c)] for k, c in o["dict"]]}

    cstores = [{"data": [[k, rv(v)] for k, v in st["data"]], "invalid": list(st["invalid"])} for st in stores]
    cheap = [ro(heap[i]) for i in range(min(base, len(heap)))] + [ro(heap[i]) for i in order]
    return {"stores": cstores, "heap": cheap}, ren


def _kids(o: dict) -> list:
    return o["list"] if "list" in o else [c for _k, c in o["dict"]]


# --------------------------------------------------------------------------- oracle helpers (real objects only)


def reach_ids(stores: list) -> dict[int, object]:
    seen: dict[int, object] = {}
    stack = [v for st in stores for v in st.values()]
    while stack:
        o = stack.pop()
        if isinstance(o, (list, dict)) and id(o) not in seen:
            seen[id(o)] = o
            stack.extend(o if isinstance(o, list) else o.values())
    return seen


def snap_value(v, num: dict[int, int]):
    """structural snapshot with identities replaced by first-visit numbers (cycle-safe, keeps sharing)"""
    if isinstance(v, (list, dict)):
        if id(v) in num:
            return ("ref", num[id(v)])
        n = num[id(v)] = len(num)
        if isinstance(v, list):
            return ("list", n, [snap_value(c, num) for c in v])
        return ("dict", n, [(k, snap_value(c, num)) for k, c in v.items()])
    return ("atom", type(v).__name__, repr(v))


def snap_all(stores: list):
    """all stores jointly (aliasing between keys and stores is part of the snapshot)"""
    num: dict[int, int] = {}
    return [([(k, snap_value(v, num)) for k, v in st.items()], sorted(st._invalid_keys)) for st in stores]


def snap_per_key(stores: list):
    """every key on its own (what one `copy.deepcopy(value)` call preserves)"""
    return [([(k, snap_value(v, {})) for k, v in st.items()], sorted(st._invalid_keys)) for st in stores]


def has_cycle(stores: list) -> bool:
    color: dict[int, int] = {}

    def dfs(o) -> bool:
        if not isinstance(o, (list, dict)):
            return False
        c = color.get(id(o), 0)
        if c == 1:
            return True
        if c == 2:
            return False
        color[id(o)] = 1
        r = any(dfs(x) for x in (o if isinstance(o, list) else list(o.values())))
        color[id(o)] = 2
        return r

    return any(dfs(v) for st in stores for v in list(st.values()))


def alias_between_keys(stores: list) -> tuple[bool, bool]:
    """(two keys of ONE store reach a common object, two different stores reach a common object)"""
    within = across = False
    per_store = []
    for st in stores:
        sets = [set(reach_ids([{k: v}])) for k, v in st.items()]
        for i in range(len(sets)):
            for j in range(i + 1, len(sets)):
                within = within or bool(sets[i] & sets[j])
        per_store.append(set().union(*sets) if sets else set())
    for i in range(len(per_store)):
        for j in range(i + 1, len(per_store)):
            across = across or bool(per_store[i] & per_store[j])
    return within, across


# --------------------------------------------------------------------------- in-place edits


def random_edits(rng: random.Random, stores: list, ab: Abs, n: int) -> list:
    """n in-place edits of objects reached (at the time of the edit) from `stores`; written values are atoms or
    objects reached from the same stores.  Performed on the real objects; returned in the driver's edit format with
    cells in the numbering of `ab`."""
    out = []
    for _ in range(n):
        reach = list(reach_ids(stores).values())
        if not reach:
            break
        o = rng.choice(reach)
        wv = rng.choice(reach) if rng.random() < 0.35 else rng.choice(ATOMS + ["new", 7])
        i = ab.cell(o)
        r = rng.random()
        try:
            if isinstance(o, list):
                if r < 0.45:
                    e = {"op": "append", "i": i, "v": ab.val(wv)}
                    o.append(wv)
                elif r < 0.8:
                    k = rng.randrange(0, len(o) + 1)  # len(o): IndexError
                    e = {"op": "lset", "i": i, "k": k, "v": ab.val(wv)}
                    o[k] = wv
                else:
                    e = {"op": "pop", "i": i}
                    o.pop()
            else:
                if r < 0.6:
                    k = rng.choice(list(o) + ["z"]) if rng.random() < 0.5 else rng.choice(KEYS)
                    e = {"op": "dset", "i": i, "k": k, "v": ab.val(wv)}
                    o.update({k: wv}) if rng.random() < 0.5 else o.__setitem__(k, wv)
                else:
                    k = rng.choice(list(o) + ["zz"])
                    e = {"op": "ddel", "i": i, "k": k}
                    del o[k]
            e["raised"] = None
        except (IndexError, KeyError) as ex:
            e["raised"] = type(ex).__name__
        out.append(e)
    return out


# --------------------------------------------------------------------------- one case on the real code


def real_meta_case(mc: dict, out) -> dict | None:
    """mc = {"seed", "kind", "deep", "n_edits"}; returns the record for the model comparison (None when the real
    code raised)"""
    import onnx_ir as ir

    kind, deep = mc["kind"], mc["deep"]
    case = {"meta_case": mc}
    built = build(mc["seed"])
    src = source_of(built, kind)
    src_owners = target_owners(built, kind, src)
    src_stores = [o.meta for o in src_owners]
    ab = Abs()
    stores0 = [ab.store(st) for st in src_stores]
    heap0 = ab.heap()
    base = len(heap0)
    snap_src_before = snap_all(src_stores)
    cyc = has_cycle(src_stores)
    within, across = alias_between_keys(src_stores)
    try:
        clone = real_clone(kind, src, deep)
    except Exception as e:  # noqa: BLE001
        out.disagree(f"meta: real clone({kind}, deep_copy={deep}) raised {type(e).__name__}: {e}", case, "ok", "raised")
        return None
    cl_owners = target_owners(built, kind, clone)
    if len(cl_owners) != len(src_owners):
        out.disagree("meta: the clone has a different number of meta owners", case, len(src_owners), len(cl_owners))
        return None
    cl_stores = [o.meta for o in cl_owners]
    stores1 = [ab.store(st) for st in cl_stores]
    heap1 = ab.heap()
    n_obj = len(reach_ids(src_stores))
    out.case({"meta": mc}, nontrivial=n_obj > 0, sample={"meta_case": mc, "stores": stores0, "heap": heap0},
             meta_kind=kind, meta_deep=deep, meta_has_cycle=cyc, meta_alias_between_keys=within,
             meta_alias_between_stores=across, meta_invalid_keys=any(st["invalid"] for st in stores0),
             meta_objects=min(n_obj, 12) // 3 * 3, meta_nonempty_stores=min(sum(1 for s in stores0 if s["data"]), 6))  # fmt: skip
    tag = f"{kind}"
    # ---- oracle: the clone itself
    if snap_all(src_stores) != snap_src_before:
        out.fail(f"meta:clone-changed-source:{tag}", "cloning changed the meta stores of the original", case)
    if any(a is b for a, b in zip(src_stores, cl_stores)):
        out.fail(f"meta:{'deep' if deep else 'shallow'}:store-shared:{tag}",
                 "a MetadataStore of the clone is the store object of the original", case)  # fmt: skip
    if snap_per_key(cl_stores) != snap_per_key(src_stores):
        out.fail(f"meta:{'deep' if deep else 'shallow'}:content:{tag}",
                 "the clone's meta stores differ from the original's (keys / values per key / invalid keys)", case)  # fmt: skip
    r_src, r_cl = reach_ids(src_stores), reach_ids(cl_stores)
    if deep:
        if set(r_src) & set(r_cl):
            out.fail(f"meta:deep:shared-object:{tag}",
                     "deep_copy=True: a mutable object is reachable from the original's and from the clone's meta", case)  # fmt: skip
    else:
        same = all(a.get(k) is b.get(k) for a, b in zip(src_stores, cl_stores) for k in a)
        if r_src:
            out.count("observation=meta-shared:deep_copy=False" if same and set(r_src) == set(r_cl)
                      else "observation=meta-NOT-shared:deep_copy=False")  # fmt: skip
    if kind == "model":
        if src.meta and not clone.meta:
            out.count("observation=model-meta-not-cloned")
        elif src.meta:
            out.count("observation=model-meta-cloned")
    # ---- edits: first on the clone side, then on the original side
    erng = random.Random(mc["seed"] * 31 + 7)
    n_e = mc.get("n_edits", 6)
    snap_src = snap_all(src_stores)
    edits_c = random_edits(erng, cl_stores, ab, n_e)
    src_changed = snap_all(src_stores) != snap_src
    snap_cl = snap_all(cl_stores)
    edits_s = random_edits(erng, src_stores, ab, n_e)
    cl_changed = snap_all(cl_stores) != snap_cl
    if deep:
        if src_changed:
            out.fail(f"meta:deep:frame:clone-edited:{tag}",
                     "deep_copy=True: in-place edits of objects reached from the clone's meta changed the original's meta", case)  # fmt: skip
        if cl_changed:
            out.fail(f"meta:deep:frame:original-edited:{tag}",
                     "deep_copy=True: in-place edits of objects reached from the original's meta changed the clone's meta", case)  # fmt: skip
    elif src_changed or cl_changed:
        out.count("observation=meta-shared:deep_copy=False:edit-visible-in-other-copy")
    # after the edits: re-read both sides (stores did not change as containers; cells did)
    stores2 = [ab.store(st) for st in cl_stores]
    stores2s = [ab.store(st) for st in src_stores]
    heap2 = ab.heap()
    # ---- functionalize: a pass that edits a meta object of the model it is handed, in place
    if kind == "model" and not deep:
        b2 = build(mc["seed"])
        m2 = b2["model"]
        st2 = [o.meta for o in target_owners(b2, "model", m2)]
        objs = list(reach_ids(st2).values())
        if objs:
            before = snap_all(st2)

            class _P(ir.passes.InPlacePass):
                def call(self, model):
                    for o in reach_ids([x.meta for x in target_owners(b2, "model", model)]).values():
                        if isinstance(o, list):
                            o.append("stamp")
                        else:
                            o["stamp"] = 1
                    return ir.passes.PassResult(model, True)

            try:
                res = ir.passes.functionalize(_P())(m2)
                if res.model is m2:
                    out.fail("meta:functionalize:returned-input", "functionalize returned its input model", case)
                out.count("observation=meta-shared:functionalize" if snap_all(st2) != before
                          else "observation=meta-NOT-shared:functionalize")  # fmt: skip
            except Exception as e:  # noqa: BLE001
                out.disagree(f"meta: functionalize raised {type(e).__name__}: {e}", case, "ok", "raised")
    return {"case": case, "base": base, "stores0": stores0, "heap0": heap0, "stores1": stores1, "heap1": heap1,
            "edits": edits_c + edits_s, "n_clone_edits": len(edits_c), "stores2": stores2, "stores2s": stores2s, "heap2": heap2, "deep": deep}


# --------------------------------------------------------------------------- comparison with the model

FUEL = 64


def compare_meta(ctx, recs: list) -> None:
    from harness.common import lean_batch_parallel

    recs = [r for r in recs if r is not None]
    reqs = [{"m": "clonemeta.run", "heap": r["heap0"], "stores": r["stores0"], "deep": r["deep"], "fuel": FUEL,
             "obs": 6} for r in recs]  # fmt: skip
    outs = lean_batch_parallel(reqs)
    reqs2, recs2 = [], []
    for r, o in zip(recs, outs):
        if "err" in o or o.get("outcome") != "ok":
            ctx.disagree("meta: the model did not clone a heap the real code cloned", r["case"], o, "ok")
            continue
        base = r["base"]
        if o["base"] != base:
            ctx.disagree("meta: base mismatch", r["case"], o["base"], base)
            continue
        cm, ren_m = canon(o["stores"], o["heap"], base)
        cr, ren_r = canon(r["stores1"], r["heap1"], base)
        ctx.count(f"meta_hyp:same_obs={o.get('same_obs')}")
        # hypotheses of C13_deep_copy_meta_faithful (`hwf`, `hst`), evaluated by the model on the abstracted heap
        ctx.count(f"meta_hyp:heap_closed={o.get('heap_closed')}:stores_ok={o.get('stores_ok')}")
        if o.get("heap_closed") is not True or o.get("stores_ok") is not True:
            ctx.disagree("meta: the abstraction of a real Python heap has a dangling reference", r["case"], o, None)
        if o["heap"][:base] != r["heap0"]:
            ctx.disagree("meta: the model changed a pre-existing cell", r["case"], o["heap"][:base], r["heap0"])
        if cm != cr:
            ctx.disagree("meta: clone stores / new objects differ (canonical first-visit numbering)", r["case"], cm, cr)
            continue
        if r["deep"] and o.get("same_obs") is not True:
            ctx.disagree("meta: deep copy does not observe like its source in the model (C13_deep_copy_meta_faithful)",
                         r["case"], o.get("same_obs"), True)  # fmt: skip
        # translate the real edits (numbering of the real abstraction) into the model's numbering
        inv_m = {v: k for k, v in ren_m.items()}  # canonical -> model cell

        def to_model(i, ren_r=ren_r, inv_m=inv_m, base=base):
            if i < base:
                return i
            c = ren_r.get(i)
            return None if c is None else inv_m.get(c)

        edits, ok = [], True
        for e in r["edits"]:
            e2 = {k: v for k, v in e.items() if k != "raised"}
            e2["i"] = to_model(e["i"])
            if "v" in e2 and "r" in e2["v"]:
                e2["v"] = {"r": to_model(e2["v"]["r"])}
                ok = ok and e2["v"]["r"] is not None
            ok = ok and e2["i"] is not None
            edits.append(e2)
        if r["deep"] and ok:
            # hypothesis `ht` of C13_deep_copy_meta_frame on the clone-side half of the history: every target is a
            # cell created by the clone (the generator picks objects reached from the clone's stores)
            hyp = all(e["i"] >= base for e in edits[: r["n_clone_edits"]])
            ctx.count(f"meta_hyp:clone_edit_targets_new={hyp}")
            if not hyp:
                ctx.disagree("meta: an object reached from the deep clone's stores is a pre-existing cell "
                             "(C13_deep_copy_meta_fresh (d))", r["case"], edits, base)  # fmt: skip
        if not ok:
            ctx.disagree("meta: an edit names an object the canonical numbering does not know", r["case"], None, r["edits"])
            continue
        reqs2.append({"m": "clonemeta.run", "heap": r["heap0"], "stores": r["stores0"], "deep": r["deep"],
                      "fuel": FUEL, "edits": edits})  # fmt: skip
        recs2.append(r)
    outs2 = lean_batch_parallel(reqs2)
    for r, o in zip(recs2, outs2):
        if "err" in o or o.get("outcome") != "ok":
            ctx.disagree("meta: model error on the edit run", r["case"], o, "ok")
            continue
        base = r["base"]
        want = [("ok" if e["raised"] is None else e["raised"]) for e in r["edits"]]
        if o["edits"] != want:
            ctx.disagree("meta: outcomes of the in-place edits differ", r["case"], o["edits"], want)
            continue
        if o.get("history_agrees") is not True:
            ctx.disagree("meta: runPyHistory differs from the step-wise run", r["case"], o.get("history_agrees"), True)
        # roots: the clone's stores then the original's stores (so that both sides' objects are numbered)
        cm, _ = canon(o["stores"] + r["stores0"], o["heap"], base)
        cr, _ = canon(r["stores2"] + r["stores2s"], r["heap2"], base)
        if cm != cr:
            ctx.disagree("meta: heaps differ after the in-place edit history", r["case"], cm, cr)
        for e in r["edits"]:
            ctx.count(f"meta_edit={e['op']}:{'ok' if e['raised'] is None else e['raised']}")


def model_edge_stream(ctx) -> None:
    """deliberate invalid / edge inputs for the model alone (no Python heap has them): dangling references, fuel
    exhaustion; the answers are fixed by the transcription (`unsupported`, `fuel`)"""
    from harness.common import lean_batch

    cyc = [{"list": [{"r": 0}, {"a": "str:'a'"}, {"r": 1}]}, {"dict": [["k", {"r": 0}]]}]
    chain = [{"list": [{"r": i + 1}]} for i in range(5)] + [{"list": []}]
    st = lambda v: [{"data": [["a", v]], "invalid": []}]  # noqa: E731
    table = [
        ({"heap": cyc, "stores": st({"r": 7}), "deep": True, "fuel": 8}, "unsupported"),
        ({"heap": cyc, "stores": st({"r": 7}), "deep": False, "fuel": 8}, "ok"),  # sharing never follows the reference
        ({"heap": [{"list": [{"r": 3}]}], "stores": st({"r": 0}), "deep": True, "fuel": 8}, "unsupported"),
        ({"heap": chain, "stores": st({"r": 0}), "deep": True, "fuel": 5}, "fuel"),
        ({"heap": chain, "stores": st({"r": 0}), "deep": True, "fuel": 6}, "ok"),
        ({"heap": cyc, "stores": st({"r": 0}), "deep": True, "fuel": 3}, "ok"),  # a cycle needs no more fuel than its depth
        ({"heap": cyc, "stores": st({"r": 0}), "deep": True, "fuel": 2}, "fuel"),  # (the memo-hit call is a call too)
        ({"heap": cyc, "stores": st({"a": "int:1"}), "deep": True, "fuel": 0}, "ok"),  # atoms need no fuel
        ({"heap": [], "stores": [], "deep": True, "fuel": 0}, "ok"),
    ]
    outs = lean_batch([dict(r, m="clonemeta.run") for r, _ in table])
    for (r, want), o in zip(table, outs):
        ctx.case({"meta_edge": r}, nontrivial=True, meta_kind="model-edge", meta_edge_outcome=o.get("outcome"))
        if o.get("outcome") != want:
            ctx.disagree("meta: edge input of the model: outcome differs from the transcription's", {"meta_edge": r}, o, want)


def _guarded_case(mc: dict, out):
    from harness.c13 import CPU_BUDGET_CASE, _Hang, cpu_guarded

    try:
        return cpu_guarded(lambda: real_meta_case(mc, out)), False
    except _Hang:
        out.fail(f"nontermination:meta-clone:{mc['kind']}",
                 f"the real code did not finish a meta clone / edit case within {CPU_BUDGET_CASE:.0f}s of CPU time",
                 {"meta_case": mc})  # fmt: skip
        return None, True


def run_meta(ctx) -> None:
    import logging

    logging.disable(logging.CRITICAL)
    n = ctx.pick(150, 1500)
    base = ctx.rng.randrange(1 << 30)
    recs = []
    for i in range(n):
        mc = {"seed": base + 13 * i, "kind": KINDS[i % len(KINDS)], "deep": ctx.rng.random() < 0.7,
              "n_edits": ctx.rng.choice([3, 6, 9])}  # fmt: skip
        rec, hung = _guarded_case(mc, ctx)
        if hung:  # every further case may burn the CPU budget again
            ctx.count("meta_skipped_after_nontermination", n - i - 1)
            break
        recs.append(rec)
    compare_meta(ctx, recs)
    model_edge_stream(ctx)


def replay_meta(ctx, obj: dict) -> None:
    """obj: a replay file / corpus line whose case carries `meta_case`"""
    import logging

    logging.disable(logging.CRITICAL)
    case = obj.get("case", obj)
    mc = case["meta_case"]
    compare_meta(ctx, [_guarded_case(mc, ctx)[0]])

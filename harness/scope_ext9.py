"""IR version < 10 function value info in the EXTENDED model (Model/ScopeExt9.lean, Drive/ScopeExt9.lean):
type / shape / doc_string AND metadata_props of function values stored in the main graph's value_info under
`domain::function/value`.  Hooked into harness/c17.py (proto side: `scope.medeser9`) and harness/c03.py (IR side:
`scope.meser9`).  Everything here is compared STRICTLY (IR incl. merged metadata of function values, first and
second re-serialization); it replaces the lenient comparison of the core IR<10 request for these cases.

C17 hooks: derive_case (extra generated cases, content-seeded: the streams of c17.py are unchanged), queue_c17,
diff_c17.  C03 hooks: decorate_ir9 (metadata on function values of IR 8/9 models), queue_c03, diff_c03.
"""
from __future__ import annotations

import random
import zlib

import onnx

from harness import serde_common as sc
from harness import serde_meta as sm

OPS = ["scope.medeser9", "scope.meser9"]

_KEYS = ["zz", "b", "a", "k", "A", ""]


def _det(p) -> bytes:
    return p.SerializeToString(deterministic=True)


def _meta(rng, vi, lo=1) -> None:
    for k in rng.sample(_KEYS, k=rng.randrange(lo, 4)):
        e = vi.metadata_props.add()
        e.key, e.value = k, rng.choice(["1", "", "v", "w2"])


def _bump(hist, k) -> None:
    hist["ext9_gen:" + k] = hist.get("ext9_gen:" + k, 0) + 1


# --------------------------------------------------------------------------- C17: generator


def _small_function(rng, m, hist) -> None:
    f = m.functions.add()
    f.name, f.domain = "f", "custom"
    shape = rng.choice(["plain", "plain", "dup_input", "two_inputs", "overload", "overload_pair"])
    if shape == "dup_input":
        # two function inputs of one name: two values, both get the experimental entry of that name
        f.input.extend(["a", "a"])
    elif shape == "two_inputs":
        f.input.extend(["a", "b"])
    else:
        f.input.append("a")
    if shape in ("overload", "overload_pair"):
        f.overload = "ov"
    n = f.node.add()
    n.op_type = "Identity"
    n.input.append("a")
    n.output.append("c")
    n2 = f.node.add()
    n2.op_type = "Identity"
    n2.input.append("c")
    n2.output.extend(rng.choice([["d"], ["d", "e"], ["d", ""]]))
    f.output.append(rng.choice(["d", "c", "a"]))
    o = f.opset_import.add()
    o.domain, o.version = "", 18
    if shape == "overload_pair":
        g = m.functions.add()
        g.CopyFrom(f)
        g.overload = ""
    _bump(hist, "function_" + shape)


def derive_case(m: onnx.ModelProto, hist: dict):
    """an extra case derived from a generated one (seeded by its content): IR version < 10, functions, experimental
    entries with metadata.  None for most cases."""
    rng = random.Random(zlib.crc32(_det(m)) ^ 0x9E9)
    if rng.random() >= 0.16:
        return None
    m = onnx.ModelProto.FromString(_det(m))
    m.ir_version = rng.choice([9, 9, 9, 8, 3])
    if not len(m.functions) or rng.random() < 0.6:
        _small_function(rng, m, hist)
    top = m.graph
    targets = []
    for f in m.functions:
        names = list(f.input) + [o for n in f.node for o in n.output if o]
        for v in names:
            targets.append((f, v))
    if not targets:
        return m
    for _ in range(rng.randrange(1, 5)):
        f, v = rng.choice(targets)
        name = f"{f.domain}::{f.name}/{v}"
        kind = rng.choice(["meta_only", "meta_only", "typed_meta", "repeated", "repeated", "collide", "collide",
                           "func_vinfo", "typed"])
        _bump(hist, kind)
        if kind == "meta_only":
            # metadata_props only: no type, no doc_string
            vi = top.value_info.add()
            vi.name = name
            _meta(rng, vi)
        elif kind == "typed_meta":
            vi = top.value_info.add()
            sc.gen_value_info(rng, vi, name, p_type=1.0)
            _meta(rng, vi)
        elif kind == "typed":
            sc.gen_value_info(rng, top.value_info.add(), name, p_type=0.8)
        elif kind == "repeated":
            # several entries for one value with different metadata: the LAST entry is applied, merged into what
            # the value has (merge vs overwrite is visible when the function's own value_info has other keys)
            for _ in range(rng.randrange(2, 4)):
                vi = top.value_info.add()
                sc.gen_value_info(rng, vi, name, p_type=0.5)
                _meta(rng, vi, lo=0)
            if rng.random() < 0.6:
                vi = f.value_info.add()
                sc.gen_value_info(rng, vi, v, p_type=0.5)
                _meta(rng, vi)
        elif kind == "func_vinfo":
            # a FunctionProto.value_info below IR 10 is read as well (before the post-pass)
            vi = f.value_info.add()
            sc.gen_value_info(rng, vi, v, p_type=0.5)
            _meta(rng, vi)
            if rng.random() < 0.5:
                vi = top.value_info.add()
                vi.name = name
                _meta(rng, vi)
        elif kind == "collide":
            # a main-graph value carries the experimental name (D320 family), the entry has metadata
            how = rng.choice(["node_output", "node_output", "placeholder", "initializer", "input", "output"])
            _bump(hist, "collide_" + how)
            if how == "node_output":
                n2 = top.node.add()
                n2.op_type = "Identity"
                n2.input.append(top.input[0].name if len(top.input) else "")
                n2.output.append(name)
            elif how == "placeholder" and len(top.node):
                rng.choice(list(top.node)).input.append(name)
            elif how == "input":
                vi = top.input.add()
                sc.gen_value_info(rng, vi, name, p_type=0.7)
                if rng.random() < 0.5:
                    _meta(rng, vi)
            elif how == "output":
                vi = top.output.add()
                sc.gen_value_info(rng, vi, name, p_type=0.7)
                if rng.random() < 0.5:
                    _meta(rng, vi)
            else:
                sc.gen_tensor_proto(rng, top.initializer.add(), name)
            vi = top.value_info.add()
            sc.gen_value_info(rng, vi, name, p_type=0.6)
            _meta(rng, vi)
    if rng.random() < 0.2:
        # an annotation under an experimental name: function values never get one
        f, v = rng.choice(targets)
        a = top.quantization_annotation.add()
        a.tensor_name = f"{f.domain}::{f.name}/{v}"
        e = a.quant_parameter_tensor_names.add()
        e.key, e.value = "SCALE_TENSOR", "s"
        _bump(hist, "annotation_under_experimental_name")
    return m


# --------------------------------------------------------------------------- C17: request + diff


def queue_c17(part, m, case, flags, model, err, q, lean_reqs: list, pending: list) -> None:
    """called for every IR < 10 case WITH functions that the core abstraction covers"""
    try:
        body = sm.model_proto_to_ext(m, {})
    except sc.OutsideModel as e:
        part.count(f"ext9_outside_model={e.args[0][:30]}")
        return
    except RecursionError:
        part.count("ext9_outside_model=recursion")
        return
    lean_reqs.append({"m": "scope.medeser9", "ver": int(m.ir_version), **body})
    pending.append(("E9", case, dict(flags), model, err, q, m))


def _has_exp_meta(m) -> bool:
    return any("::" in v.name and "/" in v.name and len(v.metadata_props) for v in m.graph.value_info)


def diff_c17(part, out: dict, case, flags, model, err, q, m) -> None:
    if "err" in out and "ok" not in out:
        part.disagree("driver error (scope.medeser9): " + str(out["err"])[:200], case, out, None)
        return
    if err is not None or not out.get("ok"):
        if err is None:
            part.disagree("extended IR<10 model raises, real code returns an IR", case, out.get("err"), "ok")
        return
    part.count("ext9_cases")
    if _has_exp_meta(m):
        part.count("ext9_cases_with_experimental_metadata")
    part.count(f"ext9_erasure_agrees={out.get('erasure_agrees')}")
    if out.get("erasure_agrees") is not True:
        part.disagree("extended IR<10 model: its core is not the core run deserializeM9 (contradicts C17_ext9_erasure: "
                      "driver / checker defect)", case, out.get("world"), None)
    part.count(f"ext9_init_keys_named={out.get('init_keys_named')}")
    if out.get("init_keys_named") is not True:
        part.disagree("extended IR<10 model: a deserialized model has an initializer keyed by another name than its "
                      "value's (contradicts deserializeME9_keys)", case, out.get("init_keys_named"), True)
    if "reloadable_ext_root" in out:
        part.count(f"ext9_certificate_root_holds={out['reloadable_ext_root']}")
        if out["reloadable_ext_root"] is not True:
            part.disagree("extended IR<10 model: the deserialized model's main graph fails the ReloadableE decision "
                          "procedure (contradicts C17_ext9_reloadable: driver / checker defect)", case, out.get("ext"), None)
    if "inert_agrees" in out:
        # conclusion of C17_ext9_entries_inert (no hypothesis): evaluated by the driver on every case that serializes
        part.count(f"ext9_entries_inert={out['inert_agrees']}")
        if out["inert_agrees"] is not True:
            part.disagree("extended IR<10 model: the experimental entries are not inert for the main graph "
                          "(contradicts C17_ext9_entries_inert: driver / checker defect)", case, out.get("q"), None)
    try:
        real = sm.canon_world_ext(sm.ir_model_to_world_ext(model))
    except sc.OutsideModel as e:
        part.count(f"ext9_ir_outside_model={e.args[0][:30]}")
        return
    except RecursionError:
        return
    mod = sm.canon_world_ext({"world": out["world"], "ext": out["ext"]})
    if real != mod:
        d = sm.first_difference(real, mod)
        part.disagree(f"extended IR<10 model: deserialized IR differs at {d}", case, mod, real)
        return
    part.count("ext9_world_agrees")
    nroot = _count_root_values(real["world"])
    if any(len(x) > 0 for x in real["ext"]["vmeta"][nroot:]):
        part.count("ext9_function_value_with_metadata")
    if q is None:
        why = flags.get("to_proto_error", "")
        if out.get("ser_ok") and any(k in why for k in sm.DEVICE_ERRORS):
            part.disagree("to_proto raises on a device configuration below IR 11, the extended IR<10 model serializes",
                          case, "ok", why)
        elif not out.get("ser_ok"):
            part.count(f"ext9_both_raise={out.get('ser_err')}")
        return
    if not out.get("ser_ok"):
        part.disagree("extended IR<10 model: serialization raises, to_proto returns", case, out.get("ser_err"), "ok")
        return
    try:
        rq = sm.model_proto_to_ext(q, {})
    except (sc.OutsideModel, RecursionError):
        return
    if rq != out["q"]:
        d = sm.first_difference(rq, out["q"])
        part.disagree(f"extended IR<10 model: re-serialized model differs at {d}", case, out["q"], rq)
        return
    part.count("ext9_first_serialization_agrees")
    if any("::" in v[0] and "/" in v[0] and len(v[2]) for v in rq["p"]["vinfo"]):
        part.count("ext9_written_experimental_entry_with_metadata")
    q2 = flags.get("_q2")
    if q2 is None:
        if out.get("deser2_ok") and out.get("ser2_ok"):
            part.disagree("extended IR<10 model: second round succeeds, the real code raises", case, "ok", "raised")
        return
    if not (out.get("deser2_ok") and out.get("ser2_ok")):
        part.disagree("extended IR<10 model: second round raises, the real code does not", case, "raised", "ok")
        return
    try:
        rq2 = sm.model_proto_to_ext(q2, {})
    except (sc.OutsideModel, RecursionError):
        return
    if rq2 != out["q2"]:
        d = sm.first_difference(rq2, out["q2"])
        part.disagree(f"extended IR<10 model: second re-serialization differs at {d}", case, out["q2"], rq2)
        return
    part.count("ext9_second_serialization_agrees")
    fix = out["q"] == out["q2"]
    part.count(f"ext9_model_fixpoint={fix}")
    if not fix and _det(q) == _det(q2):
        part.disagree("extended IR<10 model: no fix-point, the real code has one", case, out["q2"], out["q"])


def _count_root_values(world: dict) -> int:
    seen = set()

    def walk(g):
        for i in g["inputs"]:
            seen.add(i)
        for _, i in g["inits"]:
            seen.add(i)
        for n in g["nodes"]:
            for i in n["i"]:
                if i is not None:
                    seen.add(i)
            for i in n["o"]:
                seen.add(i)
            for s in n["g"]:
                walk(s)
        for i in g["outputs"]:
            seen.add(i)

    walk(world["root"])
    return len(seen)


# --------------------------------------------------------------------------- C03: generator, request, diff


def decorate_ir9(rng, model, part) -> None:
    """IR models at ir_version 8 / 9 with functions: metadata_props on function values (inputs, node outputs), some
    of them without type / doc_string (an experimental entry with metadata only)"""
    if model.ir_version >= 10 or not len(model.functions):
        return
    if rng.random() > 0.7:
        return
    part.count("ext9_gen:ir9_function_values_decorated")
    for f in model.functions.values():
        vals = list(f.inputs) + [o for n in f for o in n.outputs]
        for v in vals:
            r = rng.random()
            if r < 0.35:
                for k in rng.sample(_KEYS, k=rng.randrange(1, 4)):
                    v.metadata_props[k] = rng.choice(["1", "", "v"])
                part.count("ext9_gen:function_value_metadata")
                if rng.random() < 0.4:
                    v.type, v.shape, v.doc_string = None, None, None
                    part.count("ext9_gen:function_value_metadata_only")


def _collision_targets(model) -> list:
    """(main-graph value, function, function value) such that the main-graph value is named
    `domain::function/value-name` of a function WITHOUT overload of the model"""
    res = []
    fvals = {}
    for f in model.functions.values():
        if f.overload:
            continue
        for v in list(f.inputs) + [o for n in f for o in n.outputs]:
            if v.name:
                fvals[f"{f.domain}::{f.name}/{v.name}"] = (f, v)
    if not fvals:
        return res
    seen = set()
    for n in model.graph:
        for v in list(n.inputs) + list(n.outputs):
            if v is not None and v.name in fvals and id(v) not in seen:
                seen.add(id(v))
                res.append((v, *fvals[v.name]))
    for v in list(model.graph.inputs) + list(model.graph.outputs) + list(model.graph.initializers.values()):
        if v.name in fvals and id(v) not in seen:
            seen.add(id(v))
            res.append((v, *fvals[v.name]))
    return res


def leak_trigger(model) -> bool:
    """D321: below IR 10 the value_info entry that to_proto writes for a MAIN-GRAPH value named
    `domain::function/value` is read back as an experimental entry of the function value as well: the trigger is such
    a main-graph value that has something to say (type / doc_string / metadata) while the function value differs"""
    if model.ir_version >= 10 or not len(model.functions):
        return False
    for mv, _f, fv in _collision_targets(model):
        if mv.type is not None or mv.doc_string or mv.metadata_props:
            if (mv.type, mv.shape, mv.doc_string, dict(mv.metadata_props)) != (fv.type, fv.shape, fv.doc_string, dict(fv.metadata_props)):
                return True
    return False


def _leaked(model, m2) -> bool:
    """after the round trip a function value whose experimental name is the name of a main-graph value carries
    something (its own entry is never written under a reserved name, so it must come from the main-graph value)"""
    fs2 = dict(m2.functions.items())
    for _mv, f, fv in _collision_targets(model):
        f2 = fs2.get(f.identifier())
        if f2 is None:
            continue
        vals = list(f.inputs) + [o for n in f for o in n.outputs]
        vals2 = list(f2.inputs) + [o for n in f2 for o in n.outputs]
        if len(vals) != len(vals2):
            continue
        for a, b in zip(vals, vals2):
            if a is fv and (b.type is not None or b.doc_string or b.metadata_props):
                return True
    return False


def collide_ir9(rng, model, part) -> None:
    """D320 / D321 family on the IR side: a main-graph node output named like the experimental entry of a function
    value, WITH metadata (and mostly a type)"""
    import onnx_ir as ir

    if model.ir_version >= 10 or not len(model.functions):
        return False
    fs = [f for f in model.functions.values() if not f.overload and "::" not in f.domain and "/" not in f.name]
    outs = [o for n in model.graph for o in n.outputs if o.name and not o.is_graph_output()]
    if not fs or not outs:
        return False
    f = rng.choice(fs)
    fv = [v for v in list(f.inputs) + [o for n in f for o in n.outputs] if v.name]
    if not fv:
        return False
    v = rng.choice(fv)
    o = rng.choice(outs)
    o.name = f"{f.domain}::{f.name}/{v.name}"
    if rng.random() < 0.8:
        o.type = ir.TensorType(ir.DataType.FLOAT)
    o.metadata_props["k9"] = rng.choice(["1", ""])
    part.count("ext9_gen:main_graph_value_named_like_experimental_entry")
    return True


def collision_case(IRGen, part, case, model0, lean_reqs: list, pending: list) -> None:
    """an EXTRA case for every generated IR < 10 model with functions (a third of them): the model is generated again
    from the same seed, a main-graph node output is renamed to the experimental name of a function value (with
    metadata), and the round-trip oracle + the strict extended IR<10 comparison run on it.  Kept apart from the main
    case because the older comparisons of c03.py recognise experimental entries by the shape of their name."""
    import re

    from onnx_ir import serde

    if model0.ir_version >= 10 or not len(model0.functions):
        return
    gen_seed, p_odd = case["gen_seed"], case["p_odd"]
    if random.Random(gen_seed ^ 0x9E92).random() > 0.35:
        return
    model = IRGen(random.Random(gen_seed), p_odd).model()
    decorate_ir9(random.Random(gen_seed ^ 0x9E9), model, Part9())
    if not collide_ir9(random.Random(gen_seed ^ 0x9E91), model, part):
        return
    reason = sc.serializable_reason(model)
    p1 = m2 = err = None
    try:
        p1 = serde.serialize_model(model)
    except Exception as e:  # noqa: BLE001
        err = e
    n_nodes = sum(1 for g0 in sc.model_graphs(model) for g in sc.iter_graph_tree(g0) for _ in g)
    part.case([gen_seed, p_odd, "ext9_collision"], nontrivial=n_nodes > 0,
              sample={"gen_seed": gen_seed, "ext9_collision": 1, "ir_version": model.ir_version},
              ext9_collision="yes")
    if p1 is not None:
        try:
            m2 = serde.deserialize_model(p1)
        except Exception as e:  # noqa: BLE001
            if reason is None:
                part.fail("roundtrip:from_proto-raises:ext9-collision:" + type(sc.root_cause(e)).__name__,
                          f"from_proto(to_proto(m)) raised: {sc.root_cause(e)!s:.200}", case)
        if reason is None and m2 is not None:
            mm = sc.iso_mismatch(model, m2)
            if mm:
                where = re.sub(r"value '.*", "value", re.sub(r"\[[^\]]*\]", "", mm.split(":")[0]))
                if where.startswith("function") and leak_trigger(model) and _leaked(model, m2):
                    where = "ir9-main-graph-value-info-leaks-onto-function-value"  # D321
                elif where.startswith("function"):
                    # the function value's own entry is not written under a reserved name (repair of D320): lossy by design
                    part.count("ext9_collision_function_value_info_not_representable")
                    where = None
                if where is not None:
                    part.fail("roundtrip:not-isomorphic:" + where[-60:], mm[:300], case)
    queue_c03(part, case, model, p1, err, m2, lean_reqs, pending)


class Part9:
    """sink for the counters of a regenerated model (already counted by the main case)"""

    def count(self, *a, **k) -> None:
        pass


def queue_c03(part, case, model, p1, err, m2, lean_reqs: list, pending: list) -> None:
    if model.ir_version >= 10 or not len(model.functions):
        return
    try:
        we = sm.ir_model_to_world_ext(model, {})
    except sc.OutsideModel as e:
        part.count(f"ext9_outside_model={e.args[0][:30]}")
        return
    except Exception as e:  # noqa: BLE001 - e.g. a tensor that cannot produce bytes
        part.count(f"ext9_outside_model=dump:{type(e).__name__}")
        return
    lean_reqs.append({"m": "scope.meser9", "w": we["world"], "ext": we["ext"], "ver": int(model.ir_version)})
    pending.append(("E9", case, model, p1, err, m2))


def diff_c03(part, out: dict, case, model, p1, err, m2, d107=None) -> None:
    if "err" in out and "ser_ok" not in out:
        part.disagree("driver error (scope.meser9): " + str(out["err"])[:200], case, out, None)
        return
    part.count("ext9_cases")
    if p1 is None:
        r = sc.root_cause(err)
        if out.get("ser_ok") and any(k in str(r) for k in sm.DEVICE_ERRORS):
            part.disagree("to_proto raises on a device configuration below IR 11, the extended IR<10 model serializes",
                          case, "ok", str(r)[:100])
        elif not out.get("ser_ok"):
            part.count("ext9_both_raise")
        return
    if not out.get("ser_ok"):
        part.disagree("extended IR<10 model: serialization raises, to_proto returns", case, out.get("ser_err"), "ok")
        return
    if d107 is not None and d107(model):
        part.count("ext9_d107_stale_tensor_metadata")
        return
    try:
        real_p = sm.model_proto_to_ext(p1, {})
    except (sc.OutsideModel, RecursionError) as e:
        part.count(f"ext9_proto_outside_model={str(e)[:30]}")
        return
    if real_p != out["p"]:
        d = sm.first_difference(real_p, out["p"])
        part.disagree(f"extended IR<10 model: serialized model differs at {d}", case, out["p"], real_p)
        return
    part.count("ext9_proto_agrees")
    if any("::" in v[0] and "/" in v[0] and len(v[2]) for v in real_p["p"]["vinfo"]):
        part.count("ext9_written_experimental_entry_with_metadata")
    if any("::" in v[0] and "/" in v[0] and len(v[2]) and v[1] in (None, [None, None, None]) for v in real_p["p"]["vinfo"]):
        part.count("ext9_written_experimental_entry_metadata_only")
    if out.get("ser2_ok") is not True or out.get("p2") != out["p"]:
        part.disagree("extended IR<10 model: second serialization differs from the first", case, out.get("p2"), out["p"])
    part.count(f"ext9_init_keys_named={out.get('init_keys_named')}")
    # C03_roundtrip_ext_ir9_partial: main-graph part of its hypothesis ReloadableME (reloadableEB) and its main-graph
    # conclusion (needs only that the initializers are keyed by the name of their value: ext9_entries_inert)
    part.count(f"ext9_hyp_reloadable_root={out.get('reloadable_ext_root')}")
    part.count(f"ext9_entries_inert={out.get('inert_agrees')}")
    if out.get("init_keys_named") is True and out.get("inert_agrees") is not True:
        part.disagree("extended IR<10 model: initializers keyed by name but the experimental entries are not inert for "
                      "the main graph (contradicts ext9_entries_inert: driver / checker defect)", case, out.get("p"), None)
    if m2 is None:
        if out.get("deser_ok"):
            part.count("ext9_reload_raises_in_real_code_only")
        return
    if not out.get("deser_ok"):
        part.disagree("extended IR<10 model: deserializeME9(serializeME9 w) raises, from_proto returns", case,
                      out.get("err"), "ok")
        return
    try:
        real2 = sm.canon_world_ext(sm.ir_model_to_world_ext(m2, {}))
    except (sc.OutsideModel, RecursionError):
        return
    mod2 = sm.canon_world_ext({"world": out["world2"], "ext": out["ext2"]})
    if real2 != mod2:
        d = sm.first_difference(real2, mod2)
        part.disagree(f"extended IR<10 model: deserializeME9(serializeME9 w) differs at {d}", case, mod2, real2)
        return
    part.count("ext9_reload_agrees")
    part.count(f"ext9_reload_fixpoint={bool(out.get('reload_fixpoint'))}")

"""C08 — an interrupted single-file external-data save never damages an existing data file
(DESIGN.md section 5, C08).

Model: lean/IrVerif/Model/AtomicSave.lean + Model/AtomicSaveLinks.lean (driver commands `asave.run`, `asave.runL`,
`asave.resolveL`, `asave.parvalid`, `asave.image`, `asave.writeat`, `asave.resolve`).

Correspondence: a fault shim replaces, inside `onnx_ir.external_data` only, `os.replace/remove/rmdir`
(+ every other mutating os/shutil call as an unexpected effect), `tempfile.mkdtemp`, `shutil.copymode` and
`open` (-> counting file object; worker handles of the parallel writer are numbered); external tensors
are a tracing subclass of `ir.ExternalTensor` (release / invalidate / load are events). For every
generated save the real effect trace is compared with the model's effect list, then for EVERY effect
index k (and mid-write) the save is re-run (a) with an `OSError` injected at k, (a') for a third of
the points with a `BaseException`, (a'') with `FileNotFoundError` at the clean-up effects (oracle only),
(b) in a forked child that `os._exit`s at k, (c) with a second fault / a process exit while the handlers
of the first failure run; directory listing, file bytes / modes / inode identity, symlinks,
`ExternalTensor.valid()`, mmap state, `tobytes()` and the bytes embedded for small tensors are compared
with the model's predicted post-state.

Symbolic links are file-system objects of the model (`saveL`): link table (location, absolute/relative text with
`..`), POSIX resolution `walk`; compared per case: islink / realpath / destination_path / the entry os.replace
overwrites / the directory of the temporary directory (`asave.resolveL`), per run: the link table afterwards and the
bytes reachable through the requested path (also at every crash point). Families `gen_links`, `gen_links_rich`
(symlinked parent directories, chains <= 4, dangling chains, `..`, cycles = oracle only), `gen_edge`.

Parallel writer: (1) real thread pool: the observed schedule is checked to be a word of the model's trace language
(`asave.parvalid`) and replayed (model kind `writer`); (2) family `det`: `ThreadPoolExecutor`/`as_completed` and
`threading.Lock/Condition` are replaced inside `onnx_ir.external_data` by a deterministic scheduler (`Sched`: real
worker threads, exactly one runs at a time and yields before EVERY effect and wherever it would block; round robin or
seeded choice of which thread performs its next step; FIFO task queue, started tasks run on after a failure): the
interleaving is effect by effect and a function of the seed, so every effect index is a fault point in parallel mode
too — exception, BaseException, process exit, fault sequences — and the whole marked writer block (failures inside
it, run-on effects of the other workers, closing of the handles) is replayed by the model effect by effect
(`saveMarked`, kind `marked`). Concurrent shard drivers under the same scheduler: every effect is attributed to its
shard, the model `saveShardedConc` (`asave.conc`: one process per shard, own temporary directory, interleaved at the
granularity of effects) follows the schedule the run followed; trace, raised, directory, leftovers per shard and the
state at every crash point are compared; under the sequential schedule the concurrent model is compared with
`saveShardedAll`. A scheduler that finds every thread blocked (or a thread that never comes back) is a
`nontermination:det-scheduler:*` failure; a case that exceeds its time guard a `nontermination:case:*` failure.
Two levels (wave 4): family `sharded-nest` = concurrent shard drivers with max_workers >= 3 * shards, so that every shard
gets >= 2 inner workers and a shard with more than one tensor uses `_write_parallel`; both pools run under the same
deterministic scheduler; every effect is attributed to (shard, inner worker = number of its handle | driver thread, task);
the model `saveShardedNest` (`asave.nest`, Model/AtomicSaveNest.lean) follows the two-level schedule the run followed
(fault at every effect index: exception, BaseException, process exit, fault sequences); trace, raised, directory, leftovers
per shard, state at every crash point, the hypothesis `jobOk` and the complete bytes per shard (`nBytes`) are compared.
Faulted writer blocks (every family with max_workers): after the function returned or raised the harness lets every worker
that is still in the middle of a task run on (deterministic scheduler) / joins the pool threads (real pool): an effect
observed then is a failing input `*:effect-after-return`; a task that was started and neither ran to its end nor failed
before its handle was closed is a failing input `*:task-abandoned` (trace language of faulted blocks).
fd fast paths: a kernel-level fault stream (`fsize`: RLIMIT_FSIZE cuts a write short and fails it inside
copy_file_range / the buffered flush) at EVERY byte position of saves of <= 64 bytes, oracle only.
Oracle-only: parallel writer / concurrent shard drivers under the REAL pool when a fault is injected (post-state
compared for single faults), fd fast paths, a directory as destination, tensors that fail by themselves, os.path
calls as fault points, cyclic links.

Oracle (independent of the model): the English property evaluated on the real directory and the real
tensor objects — incl. through the requested path, link by link, and per shard file across a sharded save.
"""
from __future__ import annotations

import errno
import json
import os
import shutil
import stat
import sys
import tempfile
import time

import numpy as np

from harness.common import Ctx, Infra, Part, load_corpus, pmap
from harness.common import lean_batch as _lean_batch

THEOREMS = [
    "IrVerif.AtomicSave.C08_crash",
    "IrVerif.AtomicSave.C08_exception",
    "IrVerif.AtomicSave.C08_exception_multi",
    "IrVerif.AtomicSave.C08_crash_writer",
    "IrVerif.AtomicSave.C08_new_is_image",
    "IrVerif.AtomicSave.C08_crash_serial",
    "IrVerif.AtomicSave.C08_exception_serial",
    "IrVerif.AtomicSave.C08_post_samefile",
    "IrVerif.AtomicSave.C08_invalidate_only_if",
    "IrVerif.AtomicSave.C08_invalidate_iff",
    "IrVerif.AtomicSave.C08_destination_resolved",
    "IrVerif.AtomicSave.C08_sharded_no_touch",
    "IrVerif.AtomicSave.C08_unload_crash",
    "IrVerif.AtomicSave.C08_unload_fs_frame",
    "IrVerif.AtomicSave.C08_unload_exception",
    "IrVerif.AtomicSave.C08_unload_exception_multi",
    "IrVerif.AtomicSave.C08_destination_entry",
    "IrVerif.AtomicSave.C08_symlink_kept",
    "IrVerif.AtomicSave.C08_crash_links",
    "IrVerif.AtomicSave.C08_exception_links",
    "IrVerif.AtomicSave.C08_invalidate_iff_links",
    "IrVerif.AtomicSave.C08_parallel_language",
    "IrVerif.AtomicSave.C08_crash_schedule",
    "IrVerif.AtomicSave.C08_exception_schedule",
    "IrVerif.AtomicSave.C08_sharded_crash",
    "IrVerif.AtomicSave.C08_sharded_concurrent_crash",
    "IrVerif.AtomicSave.C08_sharded_concurrent_crash_serial",
    "IrVerif.AtomicSave.C08_sharded_concurrent_exception",
    "IrVerif.AtomicSave.C08_sharded_concurrent_nested_crash",
    "IrVerif.AtomicSave.C08_nested_bytes_serial",
    "IrVerif.AtomicSave.C08_nested_bytes_parallel",
    "IrVerif.AtomicSave.C08_sharded_concurrent_nested_exception",
]
ASSUMPTIONS = [
    "os.replace is atomic; tempfile.mkdtemp returns a directory that did not exist (built into the model's Path type; "
    "the harness checks freshness, parent directory and prefix of every mkdtemp call)",
    "no other process touches the directory during the save (TOCTOU outside the model); durability after power loss "
    "(no fsync in the code) outside the model",
    "a failing effect has no effect, except a failing write which may have written a prefix of its bytes",
    "POSIX rename semantics (Windows not modelled)",
    "path resolution: the kernel and os.path.realpath follow the same POSIX algorithm (`walk`; checked against os.path.islink/"
    "realpath and the mkdtemp/replace arguments on every link case); link theorems assume the destination can be resolved (no cycle: "
    "hyp_resolvable) and ends in a proper file name (hyp_properBase); shares published in the evidence",
    "parallel theorems quantify over every marked sequence of temporary-file effects; the tie to the real writer is per observed "
    "schedule (trace language `parValid`) and, under the deterministic scheduler, per effect-granular schedule (round robin / seeded)",
    "concurrent shard drivers: a driver's temporary directory is private to it (mkdtemp contract: a fresh name per call, checked per "
    "call; the shim flags every effect that addresses a path other than the caller's own temporary path or destination); the inode "
    "number of a temporary file is a driver-local name, os.replace publishes bytes and mode under the destination name; hypotheses of "
    "C08_sharded_concurrent_exception (every driver finished, no clean-up call failed) are evaluated per run (hyp_conc_*)",
    "two-level model (inner parallel writers inside concurrent shards): an idle inner worker may take ANY queued task at the moment of "
    "its first effect (the real pool hands tasks out FIFO at moments that are no effects: every real schedule is one of the model's); "
    "locks and the byte budget only remove interleavings and are not modelled; hypothesis jobOk of C08_sharded_concurrent_nested_crash "
    "(the prelude creates the file, task ranges inside the preallocated size, overlapping ranges agree) is decidable and evaluated per "
    "compared run (hyp_nest_jobOk)",
]

CRASH_RC = 17


def lean_batch(reqs: list) -> list:
    """The driver binary is replaced while another check rebuilds the shared lean directory: retry."""
    import time

    for attempt in range(40):
        try:
            return _lean_batch(reqs)
        except (Infra, OSError):
            if attempt == 39:
                raise
            time.sleep(1.5)
    raise Infra("model driver unavailable")


class Injected(OSError):
    pass


class InjectedBase(BaseException):
    """KeyboardInterrupt/SystemExit-like: not an Exception, so `except Exception` / `except OSError` do not see it."""


def _as_list(f) -> list:
    """A fault is None, one (k, p), or a tuple of (k, p) pairs (several effects fail in one run)."""
    if f is None:
        return []
    if len(f) == 2 and isinstance(f[0], int):
        return [tuple(f)]
    return [tuple(x) for x in f]


def _norm_fault(f):
    fs = _as_list(f)
    return None if not fs else (fs[0] if len(fs) == 1 else tuple(fs))


# --------------------------------------------------------------------------- shim


class Shim:
    """Counts effects; the effect with dynamic index fault[0] fails (exception or process exit)."""

    def __init__(self, fault=None, mode="exn"):
        self.events: list = []
        self.n = 0
        self.fault = fault
        self.faults = dict(_as_list(fault))
        self.mode = mode
        self.tmpdir = None  # what mkdtemp returned
        self.expect = {}  # dest_dir, base
        self.payload: dict = {}  # event index -> bytes of a write
        self.nw = 0  # handles opened by workers of the parallel writer
        self.dest_seen: list = []  # destination paths the code derived (from the mkdtemp arguments)
        self.tmp_parent_seen: list = []  # real directories the temporary directories were created in
        self.shard_order: list = []  # sharded saves: shard destinations in the order their saves started
        self.who: list = []  # concurrent shard drivers: the shard (job index) that performed each effect
        self.shards: dict = {}  # job index -> {"base", "dir", "dest", "name", "tmpdir"}
        self.sub: list = []  # two-level runs: the handle number of the inner worker that performed each effect (None = the driver thread)
        self.task: list = []  # two-level runs: the number of the inner task (`_write_one(index)`) the thread is working on
        self.returned_at = None  # number of effects when the function under test returned / raised
        import threading

        self.lock = threading.Lock()
        self.tls = threading.local()  # inner worker thread -> the number of the handle it opened last

    def point(self, ev, partial=None, payload=None, who=None):
        sc = _SCHED[0]
        if sc is not None:
            sc.gate()  # deterministic scheduler: a worker thread waits here for its turn (effect-level interleaving)
        with self.lock:
            idx = self.n
            self.n += 1
            failed = idx in self.faults
            self.events.append(list(ev) + [failed])
            self.who.append(who)
            self.sub.append(getattr(self.tls, "wid", None))
            self.task.append(getattr(_TASK, "idx", None))
            if payload is not None:
                self.payload[idx] = payload
        if failed:
            if partial is not None:
                partial(self.faults[idx])
            if self.mode == "crash" or (self.mode == "exn-crash" and idx == max(self.faults)):
                os._exit(CRASH_RC)
            if self.mode == "base":
                raise InjectedBase("injected fault")
            if self.mode == "fnf":
                raise FileNotFoundError(errno.ENOENT, "injected fault")
            raise Injected(errno.ENOSPC, "injected fault")


class CountingFile:
    """File object handed to the writer: every seek/write/close is an effect. No fileno(): every
    byte goes through write() (the kernel-copy and numpy fast paths are not taken)."""

    def __init__(self, shim: Shim, f, wid=None, who=None):
        self._s, self._f, self._closed, self._wid, self._who = shim, f, False, wid, who

    def _ev(self, name):
        """Events of a worker handle of the parallel writer carry the handle number."""
        return [name] if self._wid is None else [name + "w", self._wid]

    def seek(self, off, whence=0):
        self._s.point(self._ev("seek") + [off], who=self._who)
        return self._f.seek(off, whence)

    def write(self, b):
        b = bytes(b)

        def part(p):
            self._f.write(b[:p])
            self._f.flush()

        self._s.point(self._ev("write") + [len(b)], part, payload=b, who=self._who)
        return self._f.write(b)

    def truncate(self, n=None):
        self._s.point(["truncate", n], who=self._who)
        return self._f.truncate(n)

    def tell(self):
        return self._f.tell()

    def flush(self):
        return self._f.flush()

    def close(self):
        if self._closed:
            return
        self._closed = True

        def part(_p):
            self._f.close()

        self._s.point(self._ev("close"), part, who=self._who)
        self._f.close()

    def __enter__(self):
        return self

    def __exit__(self, et, ev, tb):
        if et is not None:  # unwinding: not an effect of its own
            self._closed = True
            self._f.close()
        else:
            self.close()
        return False


class CountingFileFD(CountingFile):
    """Variant with fileno(): numpy's tofile and copy_file_range write through the descriptor (those
    bytes are not events); used for oracle-only cases."""

    def fileno(self):
        return self._f.fileno()


def _quiet(fn, *a):
    """FileNotFoundError injection = "it is already gone": perform the removal, then report ENOENT."""
    try:
        fn(*a)
    except OSError:
        pass


class _Proxy:
    def __init__(self, real, **over):
        self.__dict__["_real"] = real
        self.__dict__.update(over)

    def __getattr__(self, n):
        return getattr(self._real, n)


def install(shim: Shim):
    from onnx_ir import external_data as ed

    def canon(p):
        p = os.fspath(p)
        if shim.tmpdir is not None:
            if p == shim.tmpdir:
                return "T"
            if p == os.path.join(shim.tmpdir, shim.expect.get("base", "?")):
                return "T/F"
        d = shim.expect.get("dir")
        if d and (os.path.dirname(p) == d or os.path.realpath(os.path.dirname(p)) == os.path.realpath(d)):
            return os.path.basename(p)  # (the directory may be spelled through a symlinked directory)
        return p

    def mkdtemp(suffix=None, prefix=None, dir=None):
        ok = (
            dir is not None
            and os.path.realpath(dir) == os.path.realpath(shim.expect["dir"])
            and prefix == "." + shim.expect["base"] + "."
            and suffix is None
        )
        if dir is not None and prefix:
            shim.dest_seen.append(os.path.normpath(os.path.join(dir, prefix[1:-1])))
            shim.tmp_parent_seen.append(os.path.realpath(dir))
        shim.point(["mkdtemp"] if ok else ["mkdtemp!", str(prefix), str(dir)])
        before = set(os.listdir(dir))
        r = tempfile.mkdtemp(suffix=suffix, prefix=prefix, dir=dir)
        assert os.path.basename(r) not in before
        shim.tmpdir = r
        return r

    def replace(a, b):
        ev = ["replace"] if (canon(a), canon(b)) == ("T/F", shim.expect["base"]) else ["replace!", canon(a), canon(b)]
        shim.point(ev)
        return os.replace(a, b)

    def remove(a):
        gone = (lambda _p: _quiet(os.remove, a)) if shim.mode == "fnf" else None
        shim.point(["remove"] if canon(a) == "T/F" else ["remove!", canon(a)], gone)
        return os.remove(a)

    def rmdir(a):
        gone = (lambda _p: _quiet(os.rmdir, a)) if shim.mode == "fnf" else None
        shim.point(["rmdir"] if canon(a) == "T" else ["rmdir!", canon(a)], gone)
        return os.rmdir(a)

    def copymode(a, b, **kw):
        ev = ["copymode"] if (canon(a), canon(b)) == (shim.expect["base"], "T/F") else ["copymode!", canon(a), canon(b)]
        shim.point(ev)
        return shutil.copymode(a, b, **kw)

    def sopen(path, mode="r", *a, **kw):
        c = canon(path)
        cls = CountingFileFD if shim.expect.get("fd") else CountingFile
        if (c, mode) == ("T/F", "r+b"):  # a worker of the parallel writer opens its own handle
            with shim.lock:
                wid = shim.nw
                shim.nw += 1
            shim.point(["openw", wid])
            return cls(shim, open(path, mode, *a, **kw), wid)
        shim.point(["open"] if (c, mode) == ("T/F", "wb") else ["open!", c, mode])
        return cls(shim, open(path, mode, *a, **kw))

    def other(mod, fname):
        real = getattr(mod, fname)

        def f(*a, **kw):
            shim.point([fname + "!"] + [canon(x) for x in a if isinstance(x, (str, os.PathLike))])
            return real(*a, **kw)

        return f

    if shim.expect.get("conc"):
        # concurrent shard drivers: every effect is attributed to the shard whose temporary directory (or mkdtemp
        # prefix) it addresses; an effect on any other path gets a `!` name and no shard
        def k_of(p):
            p = os.fspath(p)
            for k, sh in shim.shards.items():
                td = sh.get("tmpdir")
                if td and (p == td or os.path.dirname(p) == td):
                    return k
            return None

        def tfile(k):
            return os.path.join(shim.shards[k]["tmpdir"], shim.shards[k]["base"])

        def same(a, b):
            return os.path.normpath(a) == os.path.normpath(b) or os.path.realpath(a) == os.path.realpath(b)

        def mkdtemp(suffix=None, prefix=None, dir=None):  # noqa: F811
            k = next((k for k, sh in shim.shards.items() if prefix == "." + sh["base"] + "."), None)
            ok = k is not None and dir is not None and suffix is None and shim.shards[k].get("tmpdir") is None and os.path.realpath(dir) == os.path.realpath(shim.shards[k]["dir"])
            if dir is not None and prefix:
                shim.dest_seen.append(os.path.normpath(os.path.join(dir, prefix[1:-1])))
                shim.tmp_parent_seen.append(os.path.realpath(dir))
            shim.point(["mkdtemp"] if ok else ["mkdtemp!", str(prefix), str(dir)], who=k)
            before = set(os.listdir(dir))
            r = tempfile.mkdtemp(suffix=suffix, prefix=prefix, dir=dir)
            assert os.path.basename(r) not in before
            if k is not None:
                shim.shards[k]["tmpdir"] = r
                shim.shard_order.append(shim.shards[k]["name"])
            shim.tmpdir = r
            return r

        def replace(a, b):  # noqa: F811
            k = k_of(a)
            ok = k is not None and os.fspath(a) == tfile(k) and same(os.fspath(b), shim.shards[k]["dest"])
            shim.point(["replace"] if ok else ["replace!", os.path.basename(os.fspath(a)), os.path.basename(os.fspath(b))], who=k)
            return os.replace(a, b)

        def remove(a):  # noqa: F811
            k = k_of(a)
            gone = (lambda _p: _quiet(os.remove, a)) if shim.mode == "fnf" else None
            shim.point(["remove"] if (k is not None and os.fspath(a) == tfile(k)) else ["remove!", os.path.basename(os.fspath(a))], gone, who=k)
            return os.remove(a)

        def rmdir(a):  # noqa: F811
            k = k_of(a)
            gone = (lambda _p: _quiet(os.rmdir, a)) if shim.mode == "fnf" else None
            shim.point(["rmdir"] if (k is not None and os.fspath(a) == shim.shards[k]["tmpdir"]) else ["rmdir!", os.path.basename(os.fspath(a))], gone, who=k)
            return os.rmdir(a)

        def copymode(a, b, **kw):  # noqa: F811
            k = k_of(b)
            shim.point(["copymode"], who=k)
            return shutil.copymode(a, b, **kw)

        def sopen(path, mode="r", *a, **kw):  # noqa: F811
            k = k_of(path)
            if k is not None and os.fspath(path) == tfile(k) and mode == "r+b":
                # an inner worker of shard k opens its own handle (handles are numbered per shard)
                with shim.lock:
                    wid = shim.shards[k].get("nw", 0)
                    shim.shards[k]["nw"] = wid + 1
                shim.tls.wid = wid
                shim.point(["openw", wid], who=k)
                return CountingFile(shim, open(path, mode, *a, **kw), wid, who=k)
            ok = k is not None and os.fspath(path) == tfile(k) and mode == "wb"
            shim.point(["open"] if ok else ["open!", os.path.basename(os.fspath(path)), mode], who=k)
            return CountingFile(shim, open(path, mode, *a, **kw), who=k)

    os_over = {n: other(os, n) for n in ("chmod", "rename", "renames", "unlink", "link", "symlink", "truncate", "chown", "utime")}
    os_over.update(replace=replace, remove=remove, rmdir=rmdir)
    sh_over = {n: other(shutil, n) for n in ("copyfile", "copy", "copy2", "copystat", "move", "rmtree")}
    sh_over.update(copymode=copymode)
    if shim.expect.get("pathfaults"):
        # os.path.islink / realpath / exists / samefile as effects and fault points (oracle-only variant)
        path_over = {n: other(os.path, n) for n in ("islink", "realpath", "exists", "samefile")}
        os_over["path"] = _Proxy(os.path, **path_over)
    _SAVED.clear()
    for n in ("os", "tempfile", "shutil", "open", "concurrent", "threading"):
        _SAVED[n] = ed.__dict__.get(n, _MISSING)
    if shim.expect.get("det") is not None:
        import concurrent.futures as cf
        import threading

        _DET["seed"] = shim.expect["det"]
        DetExecutor.clock[0] = 0
        _SCHED[0] = Sched(shim.expect["det"], shim.expect.get("det_policy") or "rand")
        ed.concurrent = _Proxy(ed.concurrent, futures=_Proxy(cf, ThreadPoolExecutor=DetExecutor, as_completed=det_as_completed))
        # locks / conditions of the real code (tensor write locks, call-back lock, _ByteBudget): waiting is a gate
        ed.threading = _Proxy(threading, Lock=DetLock, Condition=DetCondition)
    ed.os = _Proxy(os, **os_over)
    ed.tempfile = _Proxy(tempfile, mkdtemp=mkdtemp)
    ed.shutil = _Proxy(shutil, **sh_over)
    ed.open = sopen



# --------------------------------------------------------------------------- deterministic executor


class DetHang(BaseException):
    """The deterministic scheduler cannot go on: every managed thread is blocked (deadlock) or the thread that was
    given the turn did not come back within the guard. Reported as a `nontermination:*` failure, never a hang."""


class _Abandon(BaseException):
    """Raised inside a parked managed thread when its scheduler has been abandoned (end of the run)."""


class Sched:
    """Cooperative scheduler over real threads (family `det`): exactly one thread runs at any time — the root thread
    (the one that called the real code) or one managed worker thread. A managed thread gives up the turn at every
    *gate*: before each effect (`Shim.point`), when it is idle (waiting for a task), when it has to wait for a lock, a
    condition or a future. The root thread is the controller: whenever it has to wait it picks — round robin or
    seeded choice — which eligible thread performs its next step. So the effects of concurrently running tasks are
    interleaved effect by effect, the interleaving is a function of the seed, and every effect index is a fault
    point whose run can be compared with the model step by step."""

    GUARD_S = 120.0

    def __init__(self, seed, policy="rand"):
        import random
        import threading

        self.th = threading
        self.cv = threading.Condition()
        self.rng = random.Random(f"sched/{seed}")
        self.policy = policy
        self.parked: dict = {}  # tid -> ready predicate
        self.tid_of: dict = {}  # thread ident -> tid
        self.ntid = 0
        self.grant = None
        self.active = None
        self.last = 0
        self.dead = False
        self.root = threading.get_ident()
        self.picks = 0

    def is_root(self) -> bool:
        return self.th.get_ident() == self.root

    def register(self) -> int:
        """Called by the creator (the running thread) for a thread it is about to start: tids follow creation order."""
        self.ntid += 1
        return self.ntid

    def adopt(self, tid: int) -> None:
        self.tid_of[self.th.get_ident()] = tid

    def park(self, ready=None) -> None:
        """Managed thread: give up the turn until the controller grants it again (only when ready() holds)."""
        if self.dead:
            raise _Abandon()
        tid = self.tid_of[self.th.get_ident()]
        with self.cv:
            self.parked[tid] = ready
            if self.active == tid:
                self.active = None
            self.cv.notify_all()
            t0 = time.time()
            while self.grant != tid:
                if self.dead:
                    self.parked.pop(tid, None)
                    raise _Abandon()
                self.cv.wait(1.0)
                if time.time() - t0 > 20 * self.GUARD_S:
                    self.parked.pop(tid, None)
                    raise _Abandon()
            self.grant = None
            self.parked.pop(tid, None)

    def leave(self) -> None:
        """Managed thread ends."""
        tid = self.tid_of.get(self.th.get_ident())
        with self.cv:
            self.parked.pop(tid, None)
            if self.active == tid:
                self.active = None
            self.cv.notify_all()

    def gate(self) -> None:
        """Before an effect: managed threads wait for their turn; the root thread runs only while nobody else does."""
        if not self.is_root() and self.th.get_ident() in self.tid_of:
            self.park(None)

    def wait(self, until) -> None:
        """Block the calling thread until `until()` holds, letting the other threads run meanwhile."""
        if until():
            return
        if not self.is_root():
            self.park(until)
            return
        self.drive(until)

    def drive(self, until) -> None:
        while True:
            with self.cv:
                t0 = time.time()
                while self.active is not None:  # the thread that has the turn is still running
                    self.cv.wait(0.5)
                    if time.time() - t0 > self.GUARD_S:
                        self.dead = True
                        self.cv.notify_all()
                        raise DetHang("the thread that was given the turn did not reach its next gate")
                cands = [t for t in sorted(self.parked) if self.parked[t] is None or self.parked[t]()]
                me = until()
                if not cands and not me:
                    self.dead = True
                    self.cv.notify_all()
                    raise DetHang("deadlock: no thread can make a step")
                self.picks += 1
                if self.policy == "rr":
                    order = ([0] if me else []) + cands
                    nxt = [t for t in order if t > self.last]
                    pick = nxt[0] if nxt else order[0]
                else:
                    if me and (not cands or self.rng.random() < 0.5):
                        pick = 0
                    else:
                        pick = cands[self.rng.randrange(len(cands))]
                self.last = pick
                if pick == 0:
                    return
                self.grant = pick
                self.active = pick
                self.cv.notify_all()

    def abandon(self) -> None:
        with self.cv:
            self.dead = True
            self.cv.notify_all()


_SCHED: list = [None]
import threading as _threading

_TASK = _threading.local()  # deterministic executor: the integer argument of the task the thread runs (`_write_one(index)`)


class DetLock:
    """threading.Lock inside onnx_ir.external_data under the deterministic scheduler: waiting is a gate."""

    def __init__(self):
        import threading

        self._l = threading.Lock()

    def acquire(self, blocking=True, timeout=-1):
        if self._l.acquire(False):
            return True
        if not blocking:
            return False
        _SCHED[0].wait(lambda: not self._l.locked())
        if not self._l.acquire(False):
            raise DetHang("a lock that was free is taken although no other thread ran")
        return True

    def release(self):
        self._l.release()

    def locked(self):
        return self._l.locked()

    def __enter__(self):
        self.acquire()
        return True

    def __exit__(self, *_a):
        self.release()
        return False


class DetCondition:
    """threading.Condition for _ByteBudget: wait / wait_for are gates whose readiness the controller evaluates."""

    def __init__(self, lock=None):
        self._l = lock if lock is not None else DetLock()
        self._gen = 0

    def acquire(self, *a, **kw):
        return self._l.acquire(*a, **kw)

    def release(self):
        self._l.release()

    def __enter__(self):
        self._l.acquire()
        return True

    def __exit__(self, *_a):
        self._l.release()
        return False

    def wait_for(self, predicate, timeout=None):
        while not predicate():
            self._l.release()
            try:
                _SCHED[0].wait(lambda: bool(predicate()) and not self._l.locked())
            finally:
                self._l.acquire()
        return True

    def wait(self, timeout=None):
        g = self._gen
        self._l.release()
        try:
            _SCHED[0].wait(lambda: self._gen != g and not self._l.locked())
        finally:
            self._l.acquire()
        return True

    def notify(self, n=1):
        self._gen += 1

    def notify_all(self):
        self._gen += 1


class _DetFuture:
    def __init__(self, ex, fn, a, kw):
        self.ex, self.fn, self.a, self.kw = ex, fn, a, kw
        self.state = "pending"  # pending | running | done | cancelled
        self.value, self.exc = None, None
        self.order = None  # completion order

    def done(self):
        return self.state in ("done", "cancelled")

    def cancelled(self):
        return self.state == "cancelled"

    def running(self):
        return self.state == "running"

    def cancel(self):
        if self.state == "pending" and self in self.ex.queue:
            self.ex.queue.remove(self)
            self.state = "cancelled"
            self.order = self.ex.tick()
            return True
        return self.state == "cancelled"

    def result(self, timeout=None):
        import concurrent.futures as cf

        _SCHED[0].wait(self.done)
        if self.state == "cancelled":
            raise cf.CancelledError()
        if self.exc is not None:
            raise self.exc
        return self.value

    def exception(self, timeout=None):
        import concurrent.futures as cf

        _SCHED[0].wait(self.done)
        if self.state == "cancelled":
            raise cf.CancelledError()
        return self.exc


class DetExecutor:
    """Stand-in for ThreadPoolExecutor inside onnx_ir.external_data (family `det`): real worker threads (threading.local
    gives one handle per worker), scheduled by `Sched`: one thread runs at a time and yields at every effect, so the
    tasks' effects are interleaved effect by effect in an order that is a function of the seed. FIFO queue as in the real
    pool: an idle worker takes the task at the front; at most max_workers workers; a task that has started runs to its end
    also after another task failed (shutdown(wait=True) waits for it); shutdown(cancel_futures=True) cancels what is still
    queued — whether a queued task starts before the caller reacts to a failure is the scheduler's (seeded) choice."""

    clock = [0]

    def __init__(self, max_workers=None, **_kw):
        self.W = max(1, max_workers or 1)
        self.queue: list = []
        self.threads: list = []
        self.closed = False
        self.live = 0

    def tick(self):
        DetExecutor.clock[0] += 1
        return DetExecutor.clock[0]

    def submit(self, fn, *a, **kw):
        if self.closed:
            raise RuntimeError("cannot schedule new futures after shutdown")
        f = _DetFuture(self, fn, a, kw)
        self.queue.append(f)
        if len(self.threads) < self.W:
            self._spawn()
        return f

    def _spawn(self):
        import threading

        sched = _SCHED[0]
        tid = sched.register()
        started = threading.Event()
        t = threading.Thread(target=self._worker, args=(sched, tid, started), daemon=True)
        self.threads.append(t)
        self.live += 1
        with sched.cv:
            sched.parked[tid] = lambda: bool(self.queue) or self.closed  # parked from birth: nothing races
        t.start()
        started.wait(30)

    def _worker(self, sched, tid, started):
        sched.adopt(tid)
        started.set()
        try:
            # wait for the first turn (the creator has registered this thread as parked already)
            with sched.cv:
                while sched.grant != tid:
                    if sched.dead:
                        return
                    sched.cv.wait(1.0)
                sched.grant = None
                sched.parked.pop(tid, None)
            while True:
                if self.queue:
                    f = self.queue.pop(0)
                    f.state = "running"
                    _TASK.idx = f.a[0] if (f.a and isinstance(f.a[0], int)) else None
                    try:
                        f.value = f.fn(*f.a, **f.kw)
                    except _Abandon:
                        return
                    except BaseException as e:  # noqa: BLE001  (the real pool stores BaseExceptions in the future as well)
                        f.exc = e
                    f.order = self.tick()
                    f.state = "done"
                elif self.closed:
                    return
                sched.park(lambda: bool(self.queue) or self.closed)
        except _Abandon:
            return
        finally:
            self.live -= 1
            sched.leave()

    def shutdown(self, wait=True, cancel_futures=False):
        if cancel_futures:
            for f in list(self.queue):
                f.state = "cancelled"
                f.order = self.tick()
            self.queue = []
        self.closed = True
        if wait:
            _SCHED[0].wait(lambda: self.live == 0)

    def __enter__(self):
        return self

    def __exit__(self, *_a):
        self.shutdown(wait=True)
        return False


def det_as_completed(fs, timeout=None):
    """as_completed for DetExecutor futures: completion order."""
    fs = list(fs)
    yielded: set = set()
    while len(yielded) < len(fs):
        _SCHED[0].wait(lambda: any(f.done() and id(f) not in yielded for f in fs))
        ready = sorted((f for f in fs if f.done() and id(f) not in yielded), key=lambda f: f.order or 0)
        for f in ready[:1]:
            yielded.add(id(f))
            yield f


_DET: dict = {"seed": None}

_MISSING = object()
_SAVED: dict = {}


def uninstall():
    from onnx_ir import external_data as ed

    if _SCHED[0] is not None:
        _SCHED[0].abandon()
        _SCHED[0] = None

    for n, v in list(_SAVED.items()):
        if v is _MISSING:
            ed.__dict__.pop(n, None)
        else:
            ed.__dict__[n] = v
    _SAVED.clear()


_SHIM: list = [None]


def _xt_class():
    import onnx_ir as ir

    class XT(ir.ExternalTensor):
        """ExternalTensor whose state changes are effects of the current shim."""

        def release(self):
            s = _SHIM[0]
            if s is not None:
                s.point(["release", self.c08_id])
            return super().release()

        def invalidate(self):
            s = _SHIM[0]
            if s is not None:
                s.point(["invalidate", self.c08_id])
            return super().invalidate()

        def numpy(self):
            s = _SHIM[0]
            if s is not None and sys._getframe(1).f_code.co_name == "_external_tensor_to_memory_tensor":
                s.point(["load", self.c08_id])
            return super().numpy()

    return XT


_XT = [None]


def XT():
    if _XT[0] is None:
        _XT[0] = _xt_class()
    return _XT[0]


# --------------------------------------------------------------------------- building a case on disk


def _chunks_of(t: dict, chunk: int) -> list:
    """The successive file.write calls the tensor's tofile performs (model input)."""
    b = t["bytes"]
    k = t["kind"]
    if k in ("mem", "lazy", "notofile"):
        return [b]
    if k == "chunky":
        out, i = [], 0
        for n in t["sizes"]:
            out.append(b[i : i + n])
            i += n
        return out
    if k == "ext":
        return [b[i : i + chunk] for i in range(0, len(b), chunk)]
    raise ValueError(k)


def _links(case: dict) -> dict:
    return {n: (t, a) for n, t, a in case.get("links", [])}


def resolve(case: dict, name: str) -> str:
    """Root-relative real path of a root-relative name: POSIX resolution component by component over the case's
    link table (chains, symlinked directories, `..`; a dangling link resolves to its target name). Independent of
    os.path.realpath and of the Lean model (`walk`); a cycle returns the name unchanged."""
    links = _links(case)
    rest, done, n = name.split("/"), [], 0
    while rest:
        c = rest.pop(0)
        if c in ("", "."):
            continue
        if c == "..":
            done = done[:-1]
            continue
        p = "/".join(done + [c])
        if p in links:
            n += 1
            if n > 40:
                return name
            rest, done = links[p][0].split("/") + rest, []
        else:
            done.append(c)
    return "/".join(done)


def _loops(case: dict, name: str) -> bool:
    links = _links(case)
    rest, done, n = name.split("/"), [], 0
    while rest:
        c = rest.pop(0)
        if c in ("", "."):
            continue
        if c == "..":
            done = done[:-1]
            continue
        p = "/".join(done + [c])
        if p in links:
            n += 1
            if n > 40:
                return True
            rest, done = links[p][0].split("/") + rest, []
        else:
            done.append(c)
    return False


def _chain_len(case: dict) -> int:
    n, name, links = 0, case["dest"], _links(case)
    while name in links and n < 16:
        name, n = links[name][0], n + 1
    return n


def _rdest(case: dict) -> str:
    return resolve(case, case["dest"])


def _build(case: dict, root: str):
    """Create the directory content and the tensor objects. Returns (objs, exts, inomap, pre)."""
    import onnx_ir as ir

    inomap: dict = {}
    for d in case.get("dirs", []):
        os.makedirs(os.path.join(root, d), exist_ok=True)
    for name, f in case["pre"].items():
        p = os.path.join(root, name)
        os.makedirs(os.path.dirname(p), exist_ok=True)
        if f.get("dir"):
            os.makedirs(p, exist_ok=True)
            continue
        if "link" in f:
            os.link(os.path.join(root, f["link"]), p)
        else:
            with open(p, "wb") as fh:
                fh.write(bytes(f["bytes"]))
            os.chmod(p, f["mode"])
    for name, target, absolute in case.get("links", []):  # symlinks (chains), relative or absolute text
        p = os.path.join(root, name)
        os.makedirs(os.path.dirname(p), exist_ok=True)
        os.makedirs(os.path.dirname(os.path.join(root, target)), exist_ok=True)
        os.symlink(os.path.join(root, target) if absolute else os.path.relpath(target, os.path.dirname(name) or "."), p)
    for name, f in case["pre"].items():
        if f.get("dir"):
            continue
        st = os.stat(os.path.join(root, name))
        inomap.setdefault(st.st_ino, len(inomap))
    objs = []
    exts = []  # (id, obj, desc) for every external tensor object incl. bystanders

    class Chunky(ir.Tensor):
        def tofile(self, file):
            b, i = self.tobytes(), 0
            for n in self.c08_sizes:
                file.write(b[i : i + n])
                i += n

    class NoToFile:
        def __init__(self, arr, name):
            self._t = ir.Tensor(arr, name=name)
            self.name = name
            self.doc_string = None
            self.metadata_props = {}
            self.meta = {}

        shape = property(lambda self: self._t.shape)
        dtype = property(lambda self: self._t.dtype)
        size = property(lambda self: self._t.size)
        nbytes = property(lambda self: self._t.nbytes)

        def numpy(self):
            return self._t.numpy()

        def __array__(self, dtype=None):
            return self._t.__array__(dtype)

        def tobytes(self):
            return self._t.tobytes()

    def mk(t, idx):
        name = t["name"]
        arr = np.array(t["bytes"], dtype=np.uint8)
        k = t["kind"]
        if k == "mem":
            return ir.Tensor(arr, name=name)
        if k == "lazy":
            return ir.LazyTensor(lambda: ir.Tensor(arr, name=name), dtype=ir.DataType.UINT8, shape=ir.Shape([len(arr)]), name=name)
        if k == "chunky":
            o = Chunky(arr, name=name)
            o.c08_sizes = t["sizes"]
            return o
        if k == "notofile":
            return NoToFile(arr, name)
        if k == "ext":
            e = t["ext"]
            if e.get("abs"):
                o = XT()(os.path.join(root, e["file"]), e["off"], e["len"], ir.DataType.UINT8, shape=ir.Shape([e["len"]]), name=name, base_dir="")
            else:
                o = XT()(e["file"], e["off"], e["len"], ir.DataType.UINT8, shape=ir.Shape([e["len"]]), name=name, base_dir=root)
            o.c08_id = idx
            if e.get("mapped"):
                o.tobytes()
            if e.get("invalid"):  # natural failure: the tensor refuses to be read
                ir.ExternalTensor.invalidate(o)
            try:
                o.c08_ino = os.stat(o.path).st_ino
            except (OSError, ValueError):
                o.c08_ino = None
            exts.append((idx, o, e))
            return o
        raise ValueError(k)

    for i, t in enumerate(case["tensors"]):
        if "same_as" in t:  # the same tensor object under a second initializer name
            objs.append(objs[t["same_as"]])
        else:
            objs.append(mk(t, t["id"]))
    for t in case.get("bystanders", []):
        mk(t, t["id"])
    return objs, exts, inomap


def _link_text(case: dict, root: str, name: str) -> str:
    target, absolute = _links(case)[name]
    return os.path.join("<ROOT>", target) if absolute else os.path.relpath(target, os.path.dirname(name) or ".")


def _observe(case: dict, root: str, inomap: dict, exts, with_tensors=True) -> dict:
    """Regular files by root-relative path (inode identity, bytes, mode), symlinks (their text), leftover
    temporary directories (any new dot-directory), anything else."""
    files, tmp, links = {}, [], {}
    known_dirs = ({os.path.dirname(n) for n in list(case["pre"]) + [x[0] for x in case.get("links", [])] + [x[1] for x in case.get("links", [])]} | set(case.get("dirs", []))) - {""}

    def walk(rel):
        d = os.path.join(root, rel) if rel else root
        for name in sorted(os.listdir(d)):
            r = os.path.join(rel, name) if rel else name
            p = os.path.join(root, r)
            if r == "m.onnx":
                continue
            st = os.lstat(p)
            if stat.S_ISLNK(st.st_mode):
                t = os.readlink(p)
                links[r] = os.path.join("<ROOT>", os.path.relpath(t, root)) if os.path.isabs(t) else t
            elif stat.S_ISDIR(st.st_mode):
                if r in known_dirs:
                    walk(r)
                elif name.startswith("."):
                    tmp.append(["T", sorted(os.listdir(p))])
                else:
                    files[r] = "dir"
            else:
                with open(p, "rb") as fh:
                    b = list(fh.read())
                files[r] = [inomap.get(st.st_ino, "new"), b, stat.S_IMODE(st.st_mode)]

    walk("")
    obs = {"files": files, "tmp": tmp, "links": links}
    try:  # the bytes reachable through the requested path (every link followed by the kernel)
        with open(os.path.join(root, case["dest"]), "rb") as fh:
            obs["reach"] = list(fh.read())
    except OSError:
        obs["reach"] = None
    if with_tensors:
        obs["valid"] = [o.valid() for _, o, _ in exts]
        obs["mapped"] = [o.raw is not None for _, o, _ in exts]
        reads = []
        for _, o, e in exts:
            try:
                r = list(o.tobytes())
                reads.append(r if len(r) == e["len"] else None)
            except Exception:
                reads.append(None)
        obs["reads"] = reads
        same = []
        for _, o, _ in exts:
            try:
                same.append(o.c08_ino is not None and os.stat(o.path).st_ino == o.c08_ino)
            except (OSError, ValueError):
                same.append(False)
        obs["backing_same"] = same
        # what unload_from_model kept in memory for the small external tensors = what the written
        # model file embeds for them
        embedded = {}
        mp = os.path.join(root, "m.onnx")
        if os.path.exists(mp):
            import onnx

            proto = onnx.load(mp, load_external_data=False)
            for init in proto.graph.initializer:
                if init.data_location != onnx.TensorProto.EXTERNAL:
                    embedded[init.name] = list(init.raw_data) if init.raw_data else list(init.int32_data)
        obs["embedded"] = embedded
    return obs


def _big(case):
    """The tensors that are written, in writing order (ir.save: main-graph initializers, then subgraphs')."""
    if case["api"] == "convert":
        return case["tensors"]
    ts = [t for t in case["tensors"] if not t.get("sub")] + [t for t in case["tensors"] if t.get("sub")]
    return [t for t in ts if len(t["bytes"]) > case["threshold"]]


def _invoke(case: dict, root: str, objs) -> None:
    import onnx_ir as ir
    from onnx_ir import external_data as ed

    cb = (lambda t, info: _SHIM[0].point(["cb", info.shard_index if case["api"] == "sharded" else info.index], who=_SHIM[0].expect.get("tensor_shard", {}).get(t.name))) if case["cb"] else None
    kw = {}
    if case.get("workers"):
        kw["max_workers"] = case["workers"]
    if case.get("in_flight"):
        kw["max_in_flight_bytes"] = case["in_flight"]
    if case.get("alignment"):
        kw["alignment"] = case["alignment"]
        kw["align_threshold"] = case["align_threshold"]
    if case["api"] == "convert":
        ed.convert_tensors_to_external(objs, base_dir=root, relative_path=case["dest"], callback=cb, **kw)
        return
    vals = [
        ir.Value(name=t["name"], shape=ir.Shape([len(t["bytes"])]), type=ir.TensorType(ir.DataType.UINT8), const_value=o)
        for t, o in zip(case["tensors"], objs)
    ]
    sub = [v for v, t in zip(vals, case["tensors"]) if t.get("sub")]
    nodes = []
    if sub:  # initializers of a subgraph (an If branch): model.graphs() yields them after the main graph's
        vals = [v for v, t in zip(vals, case["tensors"]) if not t.get("sub")]
        sg = ir.Graph([], [], nodes=[], initializers=sub, name="then")
        sg2 = ir.Graph([], [], nodes=[], name="else")
        cond = ir.Value(name="cond", shape=ir.Shape([]), type=ir.TensorType(ir.DataType.BOOL))
        nodes = [ir.Node("", "If", [cond], attributes=[ir.AttrGraph("then_branch", sg), ir.AttrGraph("else_branch", sg2)], num_outputs=0)]
        g = ir.Graph([cond], [], nodes=nodes, initializers=vals, name="g", opset_imports={"": 20})
    else:
        g = ir.Graph([], [], nodes=[], initializers=vals, name="g", opset_imports={"": 20})
    m = ir.Model(g, ir_version=10)
    if case["api"] == "sharded":
        kw["max_shard_size_bytes"] = case["max_shard"]
    ir.save(m, os.path.join(root, "m.onnx"), external_data=case["dest"], size_threshold_bytes=case["threshold"], callback=cb, **kw)


def run_real(case: dict, fault=None, mode="exn", fsize=None) -> dict:
    """Run the real save once (optionally with an injected fault). mode 'crash' forks. `fsize`: the kernel refuses to
    let any file grow beyond that many bytes (RLIMIT_FSIZE: a real short write followed by EFBIG inside whatever
    performs the write — numpy's tofile on a descriptor, copy_file_range, a buffered flush)."""
    import onnx_ir._core as core

    root = tempfile.mkdtemp(prefix="c08-", dir=_BASE[0])
    old_chunk = core._EXTERNAL_TENSOR_COPY_CHUNK_SIZE
    try:
        objs, exts, inomap = _build(case, root)
        rq = os.path.join(root, case["dest"])
        pre_os = {"islink": os.path.islink(rq), "realpath": os.path.relpath(os.path.realpath(rq), os.path.realpath(root))}
        core._EXTERNAL_TENSOR_COPY_CHUNK_SIZE = case.get("chunk", old_chunk)
        shim = Shim(fault, mode)
        rd = _rdest(case)
        shim.expect = {"dir": os.path.normpath(os.path.join(root, os.path.dirname(rd))), "base": os.path.basename(rd), "fd": case.get("file") == "fd", "pathfaults": bool(case.get("pathfaults")), "root": root, "det": case.get("det"), "det_policy": case.get("det_policy")}
        conc = _is_conc(case)
        if conc:
            shim.expect["conc"] = True
            shim.expect["tensor_shard"] = {case["tensors"][i]["name"]: k for k, (_n, idx) in enumerate(case["jobs"]) for i in idx}
            for k, (n, _idx) in enumerate(case["jobs"]):
                rn = resolve(case, n)
                d = os.path.normpath(os.path.join(root, os.path.dirname(rn)))
                shim.shards[k] = {"name": n, "base": os.path.basename(rn), "dir": d, "dest": os.path.join(d, os.path.basename(rn)), "tmpdir": None}
        if mode in ("crash", "exn-crash"):
            sys.stdout.flush()
            sys.stderr.flush()
            pid = os.fork()
            if pid == 0:
                rc = 0
                try:
                    _SHIM[0] = shim
                    install(shim)
                    if case["api"] == "sharded" and not conc:
                        _sharded_expect(shim, case)
                    try:
                        _invoke(case, root, objs)
                    except DetHang:
                        rc = 5
                    except BaseException:
                        rc = 3
                finally:
                    os._exit(rc)
            _, status = os.waitpid(pid, 0)
            obs = _observe(case, root, inomap, exts, with_tensors=False)
            obs["rc"] = os.waitstatus_to_exitcode(status)
            return obs
        raised = None
        _SHIM[0] = shim
        install(shim)
        if case["api"] == "sharded" and not conc:
            _sharded_expect(shim, case)
        hang = None
        old_lim = None
        if fsize is not None:
            import resource

            old_lim = resource.getrlimit(resource.RLIMIT_FSIZE)
            resource.setrlimit(resource.RLIMIT_FSIZE, (fsize, old_lim[1]))
        try:
            try:
                _invoke(case, root, objs)
            finally:
                if old_lim is not None:
                    resource.setrlimit(resource.RLIMIT_FSIZE, old_lim)
        except Injected:
            raised = "Injected"
        except DetHang as e:
            raised, hang = "DetHang", str(e)
        except BaseException as e:  # injected BaseException / FileNotFoundError, or a natural failure
            raised = type(e).__name__
        finally:
            shim.returned_at = shim.n
            if hang is None and case.get("workers"):
                # the function has returned or raised: a worker that is still in the middle of a task has escaped; let it
                # run on and record what it does (an effect of this save observed after the function returned)
                try:
                    _drain_escaped(shim)
                except BaseException:  # noqa: BLE001
                    pass
            uninstall()
            _SHIM[0] = None
        obs = _observe(case, root, inomap, exts)
        obs["raised"] = raised
        ra = shim.returned_at if shim.returned_at is not None else len(shim.events)
        obs["after_return"] = [list(e) for e in shim.events[ra:]]
        shim.events, shim.who, shim.sub, shim.task = shim.events[:ra], shim.who[:ra], shim.sub[:ra], shim.task[:ra]
        obs["sub"] = list(shim.sub)
        obs["task"] = list(shim.task)
        obs["trace"] = shim.events
        obs["payload"] = {k: list(v) for k, v in shim.payload.items()}
        obs["dest_seen"] = [os.path.relpath(d, root) if os.path.isabs(d) else d for d in shim.dest_seen]
        obs["tmp_parent_seen"] = [os.path.relpath(d, os.path.realpath(root)) for d in shim.tmp_parent_seen]
        obs["shard_order"] = list(shim.shard_order)
        obs["who"] = list(shim.who)
        obs["hang"] = hang
        obs["pre_os"] = pre_os
        for _, o, _ in exts:
            o.release()
        return obs
    finally:
        _SHIM[0] = None
        uninstall()
        core._EXTERNAL_TENSOR_COPY_CHUNK_SIZE = old_chunk
        shutil.rmtree(root, ignore_errors=True)


def _drain_escaped(shim) -> None:
    """Called when the function under test has returned or raised. Deterministic scheduler: a managed thread that is parked
    at an effect gate is in the middle of a task — it is given the turn until it has no effect left. Real pool: the pool's
    worker threads that are still alive are joined. Whatever they do is recorded after `shim.returned_at`."""
    sc = _SCHED[0]
    if sc is not None:
        def quiet():
            return not any(r is None for r in list(sc.parked.values())) and sc.active is None

        for _ in range(400):
            if quiet():
                break
            try:
                sc.drive(quiet)
            except DetHang:
                break
        return
    import threading

    me = threading.current_thread()
    for t in threading.enumerate():
        if t is not me and t.name.startswith("ThreadPoolExecutor"):
            t.join(5.0)


def _wps(case: dict) -> int:
    """`workers_per_shard` (external_data.py 877-878) of a concurrent sharded save."""
    n = len(case.get("jobs", []))
    w = case.get("workers") or 0
    if w <= 1 or n <= 1:
        return 1
    sw = min(w, n)
    return max(1, (w - sw) // sw)


def _is_nested(case: dict) -> bool:
    """Concurrent shard drivers whose inner writers are parallel (two levels): model `saveShardedNest`."""
    return _is_conc(case) and _wps(case) > 1


def _is_conc(case: dict) -> bool:
    """Concurrent shard drivers under the deterministic scheduler: effects are attributed to shards, model `saveShardedConc`."""
    return case["api"] == "sharded" and bool(case.get("workers")) and case.get("det") is not None and len(case.get("jobs", [])) >= 2


def _sharded_expect(shim: Shim, case: dict) -> None:
    """Sharded saves use one destination per shard: `base` follows the mkdtemp prefix."""
    real_mkdtemp = None
    from onnx_ir import external_data as ed

    real_mkdtemp = ed.tempfile.mkdtemp

    def mkdtemp(suffix=None, prefix=None, dir=None):
        for n in [j[0] for j in case["jobs"]]:
            rn = resolve(case, n)  # a shard name may be a (dangling) symlink: the file behind it is written
            if prefix == "." + os.path.basename(rn) + ".":
                shim.expect["base"] = os.path.basename(rn)
                shim.expect["dir"] = os.path.normpath(os.path.join(shim.expect["root"], os.path.dirname(rn)))
                shim.shard_order.append(n)
        return real_mkdtemp(suffix=suffix, prefix=prefix, dir=dir)

    ed.tempfile = _Proxy(tempfile, mkdtemp=mkdtemp)


# --------------------------------------------------------------------------- model side


_CASE: list = [None]  # the case whose names are being resolved (symlink chains -> real names)


def _ext_json(e):
    return {"path": resolve(_CASE[0], e["file"]) if _CASE[0] else e["file"], "off": e["off"], "len": e["len"]}


def _tensor_json(t, off, chunk):
    return {
        "off": off,
        "chunks": _chunks_of(t, chunk),
        "ext": _ext_json(t["ext"]) if t["kind"] == "ext" else None,
    }


_ALIGN: list = [None]  # (alignment, align_threshold) of the case being laid out


def _layout(ts):
    offs, cur = [], 0
    for t in ts:
        n = len(t["bytes"])
        if _ALIGN[0] and n > _ALIGN[0][1]:
            fac = max(4096, _ALIGN[0][0])
            cur = (cur + fac - 1) // fac * fac
        offs.append(cur)
        cur += n
    return offs


_TAIL = ("release", "copymode", "replace", "remove", "rmdir", "invalidate")


def writer_of(obs: dict) -> list:
    """The writer's effects as observed (the thread schedule): everything between mkdtemp and the first
    effect of the release/copymode/replace/clean-up tail, with the bytes of the writes."""
    out, started = [], False
    for k, ev in enumerate(obs["trace"]):
        name = ev[0]
        if not started:
            started = name == "mkdtemp"
            continue
        if name.rstrip("!") in _TAIL:
            break
        args = list(ev[1:-1])
        if name in ("write", "writew"):
            args[-1] = obs["payload"].get(k, obs["payload"].get(str(k), []))
        out.append([name] + args)
    return out


def model_request(case: dict, faults: list, writer=None) -> dict:
    chunk = case.get("chunk", 1 << 20)
    _CASE[0] = case
    _ALIGN[0] = (case["alignment"], case["align_threshold"]) if case.get("alignment") else None
    names = list(case["pre"].keys())
    inos: dict = {}
    files, inodes = [], []
    for n in names:
        f = case["pre"][n]
        if "link" in f:
            files.append([n, inos[f["link"]]])
        else:
            inos[n] = len(inos)
            files.append([n, inos[n]])
            inodes.append([inos[n], f["bytes"], f["mode"]])
    allext = [t for t in case["tensors"] if t["kind"] == "ext"] + case.get("bystanders", [])
    nid = 1 + max([t["id"] for t in allext], default=0)
    valid = [True] * nid
    mapped = [None] * nid
    for t in allext:
        if t["ext"].get("mapped"):
            src = resolve(case, t["ext"]["file"])
            mapped[t["id"]] = dict(files)[src]
    universe = sorted(set(names) | {_rdest(case)} | {resolve(case, j[0]) for j in case.get("jobs", [])})
    req = {
        "m": "asave.run",
        "dest": _rdest(case),
        "newMode": 0o666 & ~_umask(),
        "cb": case["cb"],
        "files": files,
        "dirs": [],
        "inodes": inodes,
        "next": len(inos),
        "valid": valid,
        "mapped": mapped,
        "faults": [list(f) for f in faults],
        "universe": universe,
        "exts": [[t["id"], _ext_json(t["ext"])] for t in allext],
    }
    big = _big(case)
    if case["api"] == "sharded":
        req["kind"] = "sharded"
        req["jobs"] = [[resolve(case, d), [_tensor_json(case["tensors"][i], off, chunk) for i, off in zip(idx, _layout([case["tensors"][i] for i in idx]))]] for d, idx in case["jobs"]]
    else:
        offs = _layout(big)
        req["tensors"] = [_tensor_json(t, off, chunk) for t, off in zip(big, offs)]
        if writer is not None:
            req["kind"] = "writer"
            req["writer"] = writer
        elif case["api"] == "convert":
            req["kind"] = "save"
        else:
            req["kind"] = "unload"
            req["small"] = [
                [t["id"], _ext_json(t["ext"])]
                for t in case["tensors"]
                if t["kind"] == "ext" and len(t["bytes"]) <= case["threshold"]
            ]
    return req



GAS = 64  # path-resolution gas given to the model (kernel: 40 nested links; the generators stay far below)


def _link_table(case: dict) -> list:
    """The case's symbolic links as the model wants them: location, absolute?, text (components)."""
    out = []
    for name, target, absolute in case.get("links", []):
        text = target if absolute else os.path.relpath(target, os.path.dirname(name) or ".")
        out.append([name.split("/"), bool(absolute), text.split("/")])
    return out


def _lext_json(e):
    return {"path": e["file"].split("/"), "off": e["off"], "len": e["len"]}


def _small(case: dict) -> list:
    return [t for t in case["tensors"] if t["kind"] == "ext" and case["api"] == "save" and len(t["bytes"]) <= case["threshold"]]


def uses_links_model(case: dict) -> bool:
    """Cases that go through the link-level model (`saveL`): a link table, single file, serial writer, no
    load-first phase, a request that can be resolved."""
    return bool(case.get("links")) and case["api"] != "sharded" and not case.get("workers") and not _small(case) and not _loops(case, case["dest"])


def model_request_L(case: dict, faults: list) -> dict:
    req = model_request(case, faults)
    chunk = case.get("chunk", 1 << 20)
    big = _big(case)
    allext = [t for t in case["tensors"] if t["kind"] == "ext"] + case.get("bystanders", [])
    req.update(
        {
            "m": "asave.runL",
            "kind": "saveL",
            "links": _link_table(case),
            "gas": GAS,
            "requested": case["dest"].split("/"),
            "tensors": [
                {"off": off, "chunks": _chunks_of(t, chunk), "ext": _lext_json(t["ext"]) if t["kind"] == "ext" else None}
                for t, off in zip(big, _layout(big))
            ],
            "exts": [[t["id"], _lext_json(t["ext"])] for t in allext],
        }
    )
    return req


def model_request_shardedL(case: dict, faults: list) -> dict:
    req = model_request(case, faults)
    chunk = case.get("chunk", 1 << 20)
    req.update({"m": "asave.runL", "kind": "shardedL", "links": _link_table(case), "gas": GAS})
    req["jobs"] = [
        [d.split("/"), [{"off": off, "chunks": _chunks_of(case["tensors"][i], chunk), "ext": _lext_json(case["tensors"][i]["ext"]) if case["tensors"][i]["kind"] == "ext" else None}
                        for i, off in zip(idx, _layout([case["tensors"][i] for i in idx]))]]
        for d, idx in case["jobs"]
    ]
    return req


def model_request_conc(case: dict, sched) -> dict:
    """`saveShardedConc`: the jobs in shard order, the schedule as picks [shard, p | null] (or "seq")."""
    r = model_request(case, [])
    r["m"] = "asave.conc"
    r.pop("kind", None)
    r["sched"] = sched
    return r


def model_request_nest(case: dict, sched) -> dict:
    """`saveShardedNest`: the jobs in shard order (inner writers parallel), the two-level schedule as picks
    [shard, handle of the inner worker | null = the driver thread, p | null]."""
    r = model_request(case, [])
    r["m"] = "asave.nest"
    r.pop("kind", None)
    r["par"] = True
    r["sched"] = sched
    return r


def sched2_of(o: dict, pm: dict, upto=None) -> list:
    """The two-level schedule a real run followed: one pick per effect (shard, inner worker, the task it works on, failed ->
    bytes written)."""
    out = []
    trace, who, sub, task = o["trace"], o["who"], o["sub"], o["task"]
    for i, ev in enumerate(trace if upto is None else trace[:upto]):
        out.append([who[i] if who[i] is not None else 10**6, sub[i], task[i] if sub[i] is not None else None, (pm.get(i, 0) if ev[-1] else None)])
    return out


def _abandoned_tasks(case: dict, obs: dict) -> list:
    """Trace language of FAULTED writer blocks: every task an inner worker started (`seekw`) runs to its end — all bytes of
    a tensor that lives at that offset — or ends in a failed effect, before its handle is closed / the save goes on. Returns
    the tasks that were left in the middle (a writer that does not wait for its running workers)."""
    if not case.get("workers") or "trace" not in obs:
        return []
    _ALIGN[0] = (case["alignment"], case["align_threshold"]) if case.get("alignment") else None
    if case["api"] == "sharded":
        groups = {k: [case["tensors"][i] for i in idx] for k, (_n, idx) in enumerate(case.get("jobs", []))}
    else:
        groups = {None: _big(case)}
    want: dict = {}
    for k, ts in groups.items():
        for t, off in zip(ts, _layout(ts)):
            want.setdefault((k, off), set()).add(len(t["bytes"]))
    who = obs.get("who") or [None] * len(obs["trace"])
    keyed = any(w is not None for w in who)
    cur: dict = {}
    bad = []

    def end(key):
        st = cur.pop(key, None)
        if st is not None and not st[2]:
            lens = want.get((key[0], st[0])) if keyed else set().union(*[v for (kk, o), v in want.items() if o == st[0]] or [set()])
            if st[1] not in (lens or set()):
                bad.append({"shard": key[0], "handle": key[1], "offset": st[0], "written": st[1]})

    for i, ev in enumerate(obs["trace"]):
        name, k = ev[0], (who[i] if keyed else None)
        if name == "seekw":
            end((k, ev[1]))
            cur[(k, ev[1])] = [ev[2], 0, bool(ev[-1])]
        elif name == "writew":
            st = cur.get((k, ev[1]))
            if st is not None:
                if ev[-1]:
                    st[2] = True
                else:
                    st[1] += ev[2]
        elif name == "closew":
            end((k, ev[1]))
    for key in list(cur):
        end(key)
    return bad


def sched_of(trace: list, who: list, pm: dict, upto=None) -> list:
    """The schedule a real run followed: one pick per effect (the shard that performed it; failed -> bytes written)."""
    out = []
    for i, ev in enumerate(trace if upto is None else trace[:upto]):
        out.append([who[i] if who[i] is not None else 10**6, (pm.get(i, 0) if ev[-1] else None)])
    return out


def marked_of(obs_or_trace, payload, fault_at=None) -> list:
    """The writer block of a trace as the model's marked list `[tag, args.., failed, p]`. `fault_at` = (k, p):
    mark the effect with global index k as failed (for runs whose own trace is not available: crash modes)."""
    out, started = [], False
    for k, ev in enumerate(obs_or_trace):
        name = ev[0]
        if not started:
            started = name == "mkdtemp"
            continue
        if name.rstrip("!") in _TAIL:
            break
        args = list(ev[1:-1])
        failed = bool(ev[-1])
        pbytes = 0
        if name in ("write", "writew"):
            args[-1] = payload.get(k, payload.get(str(k), []))
        if fault_at is not None:
            failed = k == fault_at[0]
            pbytes = fault_at[1] if failed else 0
        out.append([name] + args + [failed, pbytes])
    return out


def _canon_links_model(links: list) -> dict:
    return {"/".join(loc): (os.path.join("<ROOT>", "/".join(t)) if ab else "/".join(t)) for loc, ab, t in links}


_UM = [None]


def _umask() -> int:
    if _UM[0] is None:
        m = os.umask(0)
        os.umask(m)
        _UM[0] = m
    return _UM[0]


def _canon_model_state(st: dict, next0: int, exts_desc) -> dict:
    files = {}
    for name, ino, isdir in st["files"]:
        if isdir:
            files[name] = "dir"
        elif ino is not None:
            files[name] = [ino[0] if ino[0] < next0 else "new", ino[1], ino[2]]
    tmp = []
    if st["tmpdir"]:
        tmp.append(["T", ["F"] if st["tmpfile"] is not None else []])
    reads = []
    for r, e in zip(st["reads"], exts_desc):
        reads.append(r if (r is not None and len(r) == e["len"]) else None)
    return {
        "files": files,
        "tmp": tmp,
        "valid": st["valid"],
        "mapped": [m is not None for m in st["mapped"]],
        "reads": reads,
        "mem": st["mem"],
    }


def _canon_real_tmp(obs: dict, case) -> list:
    ok = {os.path.basename(_rdest(case))} | {os.path.basename(resolve(case, j[0])) for j in case.get("jobs", [])}
    return [["T", ["F"] if names else []] if (names == [] or (len(names) == 1 and names[0] in ok)) else ["T", names] for _, names in obs["tmp"]]


# --------------------------------------------------------------------------- oracle (the property itself)


def expected_image(case: dict) -> list:
    _ALIGN[0] = (case["alignment"], case["align_threshold"]) if case.get("alignment") else None
    big = _big(case)
    buf: list = []
    for t, off in zip(big, _layout(big)):
        b = t["bytes"]
        if not b:
            continue
        if len(buf) < off:
            buf += [0] * (off - len(buf))
        buf[off : off + len(b)] = b
    return buf


def oracle(part, case: dict, obs: dict, fault, mode: str) -> None:
    """English property on the real directory and the real tensor objects."""
    where = f"{case['api']}{'[' + case['label'] + ']' if case.get('label') else ''}/{mode}@{_fault_name(obs, fault)}"
    dest = _rdest(case)  # the file the (possibly symlinked) destination resolves to
    pre = case["pre"]
    tag = {"case": case, "fault": fault, "mode": mode}
    if mode not in ("crash", "exn-crash") and case.get("workers"):
        # the exception (or the result) reaches the caller only after every worker of this save has stopped
        if obs.get("after_return"):
            part.fail(f"{where}:effect-after-return", "an effect of this save was performed by a worker thread after the function had returned or raised (the writer did not wait for its running workers)", {**tag, "after_return": obs["after_return"][:6]})
        left = _abandoned_tasks(case, obs)
        if left:
            part.fail(f"{where}:task-abandoned", "a task an inner worker had started neither ran to its end nor failed before the writer went on (closing the handles / clean-up / os.replace)", {**tag, "tasks": left[:4]})
    if case["api"] != "sharded" and _loops(case, case["dest"]):
        # D360 (observed, not part of the C08 statement): the request is a cyclic symbolic link; os.path.realpath
        # gives up and the save replaces a link of the cycle by the new regular file. No data file existed behind
        # the request; what the statement says about every other file is still checked.
        if obs.get("links", {}) != {n: _link_text(case, "", n) for n in _links(case)}:
            part.count("observed_D360_cyclic_link_replaced")
        for n, f in pre.items():
            got = obs["files"].get(n)
            if not f.get("dir") and (got is None or got == "dir" or got[0] == "new" or got[1] != (pre[f["link"]]["bytes"] if "link" in f else f["bytes"])):
                part.fail(f"{where}:bystander-file-changed", f"pre-existing file {n!r} was changed by the save", tag)
        return
    # every pre-existing symlink is still the same symlink (a link stays a link)
    for n in _links(case):
        want = _link_text(case, "", n)
        if obs.get("links", {}).get(n) != want:
            part.fail(f"{where}:link-changed", f"pre-existing symlink {n!r} is no longer the same symlink", {**tag, "now": obs.get("links", {}).get(n, obs["files"].get(n))})
    for n in obs.get("links", {}):
        if n not in _links(case):
            part.fail(f"{where}:stray-link", f"unexpected symlink {n!r} after the save", tag)

    def pre_bytes(n):
        f = pre[n]
        return pre[f["link"]]["bytes"] if "link" in f else f["bytes"]

    for n, f in pre.items():  # a directory stays a directory
        if f.get("dir") and obs["files"].get(n, "dir") != "dir":
            part.fail(f"{where}:directory-replaced", f"pre-existing directory {n!r} is no longer a directory", tag)
    if pre.get(dest, {}).get("dir"):
        # the destination is a directory: the save must fail and leave nothing behind
        if mode not in ("crash", "exn-crash"):
            if obs["raised"] is None:
                part.fail(f"{where}:dest-dir-accepted", "saving onto a directory did not raise", tag)
            cleanup_failed = any(ev[0].rstrip("!") in ("remove", "rmdir") and ev[-1] for ev in obs["trace"])
            if obs["tmp"] and not cleanup_failed:
                part.fail(f"{where}:temp-left", "save failed with an exception but a temporary file or directory remains", {**tag, "left": obs["tmp"]})
        return
    pre = {n: f for n, f in pre.items() if not f.get("dir")}

    # bystander files: never changed, never created
    for n in pre:
        if n == dest and case["api"] != "sharded":
            continue
        got = obs["files"].get(n)
        if got is None or got == "dir" or got[1] != pre_bytes(n) or got[0] == "new":
            part.fail(f"{where}:bystander-file-changed", f"pre-existing file {n!r} was changed by the save", tag)
    for n in obs["files"]:
        if n not in pre and n != dest and n not in [resolve(case, j[0]) for j in case.get("jobs", [])]:
            part.fail(f"{where}:stray-file", f"unexpected file {n!r} after the save", tag)
    if case["api"] == "sharded":
        return _oracle_sharded(part, case, obs, fault, mode, where, tag)
    old = pre_bytes(dest) if dest in pre else None
    new = expected_image(case)
    got = obs["files"].get(dest)
    gotb = None if got is None else got[1]
    if gotb != old and gotb != new:
        part.fail(f"{where}:dest-damaged", "destination holds neither its previous bytes nor the complete new bytes", {**tag, "got": gotb})
    if "reach" in obs and not _loops(case, case["dest"]) and obs["reach"] != old and obs["reach"] != new:
        # the statement read through the path the caller asked for (the whole chain of links, as it is now)
        part.fail(f"{where}:reach-damaged", "the bytes reachable through the requested path are neither the previous bytes nor the complete new bytes", {**tag, "got": obs["reach"]})
    if mode in ("crash", "exn-crash"):
        return
    trace = obs["trace"]
    replaced = any(ev[0].rstrip("!") == "replace" and not ev[-1] for ev in trace)
    cleanup_failed = any(ev[0].rstrip("!") in ("remove", "rmdir") and ev[-1] for ev in trace)
    raised = obs["raised"] is not None
    failed_kinds = {ev[0].rstrip("!") for ev in trace if ev[-1]}
    # (clean-up and the invalidation loop — incl. its samefile test — come after the new file is in place)
    if raised and replaced and failed_kinds - {"remove", "rmdir", "invalidate", "samefile"}:
        # an effect that belongs to producing the new file failed, yet the rename had already happened
        part.fail(f"{where}:raised-after-replace", "the save failed with an exception in a step other than clean-up although the destination had already been replaced (it no longer holds the previous bytes)", {**tag, "got": gotb})
    if raised and not replaced:
        if gotb != old or (got is not None and (got[0] == "new" or got[2] != pre[dest].get("mode", got[2]))):
            part.fail(f"{where}:dest-not-old", "save failed before the replace but the destination is not exactly as before", {**tag, "got": got})
        if obs["tmp"] and not cleanup_failed:
            part.fail(f"{where}:temp-left", "save failed with an exception but a temporary file or directory remains", {**tag, "left": obs["tmp"]})
    if not raised:
        if gotb != new:
            part.fail(f"{where}:dest-not-new", "save returned normally but the destination does not hold the new bytes", {**tag, "got": gotb})
        if obs["tmp"]:
            part.fail(f"{where}:temp-left-ok", "save returned normally but a temporary directory remains", tag)
    if case["api"] == "save" and not raised:
        for t in case["tensors"]:
            if t["kind"] == "ext" and len(t["bytes"]) <= case["threshold"]:
                if obs.get("embedded", {}).get(t["name"]) != t["bytes"]:
                    part.fail(f"{where}:small-tensor-not-preserved", "a small external tensor was not copied to memory before the data file was replaced: the written model embeds other bytes", {**tag, "tensor": t["name"], "embedded": obs.get("embedded", {}).get(t["name"])})
    allext = [t for t in case["tensors"] if t["kind"] == "ext"] + case.get("bystanders", [])
    for t, v, r, same in zip(allext, obs["valid"], obs["reads"], obs.get("backing_same", [False] * len(allext))):
        tf = resolve(case, t["ext"]["file"])
        backed = dest in pre and _same_file(pre, tf, dest)
        if t["ext"].get("invalid") or t["ext"].get("short"):
            continue  # unreadable already before the save (natural-failure stream)
        if not v and not (replaced and backed):
            part.fail(f"{where}:invalidated-without-replace", "an external tensor was invalidated although its backing file was not replaced", {**tag, "tensor": t["name"]})
        if not v and same:
            via = "hardlink" if tf != dest else "path"
            part.fail(f"{where}:invalidated-backing-intact:{via}", "an external tensor was invalidated although its path still names the very inode it was backed by (its backing file was not replaced)", {**tag, "tensor": t["name"]})
        if not raised and replaced and not failed_kinds and dest in pre and tf == dest and v and any(t is b for b in _big(case)) and not _loops(case, t["ext"]["file"]):
            # "iff": a written tensor whose path resolves (by name, through links) to the entry that was replaced
            part.fail(f"{where}:alias-not-invalidated", "the save returned normally and replaced the file an external tensor's path resolves to, but the tensor is still valid", {**tag, "tensor": t["name"]})
        if raised and not replaced and backed:
            if not v or r != t["bytes"]:
                part.fail(f"{where}:tensor-broken", "save failed before the replace but an external tensor backed by the destination is invalid or reads other bytes", {**tag, "tensor": t["name"], "read": r})


def _same_file(pre, a, b):
    def root(n):
        return pre[n].get("link", n) if n in pre else None

    return root(a) is not None and root(a) == root(b)


def _shard_image(case, idx):
    _ALIGN[0] = (case["alignment"], case["align_threshold"]) if case.get("alignment") else None
    ts = [case["tensors"][i] for i in idx]
    buf: list = []
    for t, off in zip(ts, _layout(ts)):
        b = t["bytes"]
        if not b:
            continue
        if len(buf) < off:
            buf += [0] * (off - len(buf))
        buf[off : off + len(b)] = b
    return buf


def _oracle_sharded(part, case, obs, fault, mode, where, tag):
    pre = case["pre"]
    names = [j[0] for j in case["jobs"]]
    clash = [n for n in names if resolve(case, n) in pre]
    # across the whole multi-file save: a shard destination is absent or holds exactly its complete bytes
    state = []
    for n, idx in case["jobs"]:
        rn = resolve(case, n)
        got = obs["files"].get(rn)
        if rn in pre:
            continue  # pre-existing: covered by bystander-file-changed (never changed)
        if got is None:
            state.append(False)
            continue
        state.append(True)
        if got == "dir" or got[1] != _shard_image(case, idx):
            part.fail(f"{where}:shard-partial", f"shard file {rn!r} holds neither nothing nor exactly the complete bytes of its shard", {**tag, "got": got})
    if not clash and not case.get("workers") and any(b and not a for a, b in zip(state, state[1:])):
        part.fail(f"{where}:shard-order", "a later shard file exists although an earlier one is missing (sequential sharded save)", {**tag, "present": state})
    if not clash and mode not in ("crash", "exn-crash") and obs["raised"] is None and not all(state):
        part.fail(f"{where}:shard-missing", "the sharded save returned normally but a shard file is missing", {**tag, "present": state})
    if mode not in ("crash", "exn-crash"):
        cleanup_failed = any(ev[0].rstrip("!") in ("remove", "rmdir") and ev[-1] for ev in obs["trace"])
        if obs["tmp"] and not cleanup_failed:
            # after the sharded save returned or raised no temporary directory of any shard remains — also of the
            # shards that were running or queued when another one failed
            part.fail(f"{where}:temp-left-sharded", "the sharded save has ended (no clean-up call failed) but a temporary file or directory of a shard remains", {**tag, "left": obs["tmp"]})
        if obs["raised"] is not None and not clash and not any(ev[-1] for ev in obs["trace"]):
            part.fail(f"{where}:raised-without-failure", "the sharded save raised although no effect failed", {**tag, "raised": obs["raised"]})
        if clash and (obs["trace"] or obs["raised"] is None):
            part.fail(f"{where}:preflight", "a shard destination existed but the sharded save performed effects or did not raise", tag)
        for v in obs["valid"]:
            if not v:
                part.fail(f"{where}:invalidated-sharded", "a sharded save invalidated an external tensor (no pre-existing file may be replaced)", tag)


def _fault_name(obs, fault):
    fs = _as_list(fault)
    if not fs:
        return "none"
    tr = obs.get("trace")
    names = []
    for k, p in fs:
        if tr and k < len(tr):
            names.append(tr[k][0] + ("+partial" if p else ""))
        else:
            names.append("k")
    return "&".join(names)


# --------------------------------------------------------------------------- one case, all faults


def ctx_fsize_all() -> int:
    """Saves of at most this many bytes get the kernel-level fault (RLIMIT_FSIZE) at every byte position."""
    return 64


def fault_points(trace: list) -> list:
    pts = []
    for k, ev in enumerate(trace):
        pts.append((k, 0))
        if ev[0] == "write" and ev[1] >= 2:
            pts.append((k, ev[1] // 2))
    return pts


def check_case(part, case: dict, crash: bool = True, only=None) -> None:
    base_obs = run_real(case)
    trace0 = base_obs["trace"]
    pts = fault_points(trace0)
    use_model = case.get("model", True)
    runs = [(None, "exn", base_obs)]
    if only is not None:
        pts = [_norm_fault(only["fault"])] if only.get("fault") else []
    import random

    rng = random.Random(json.dumps(case, sort_keys=True, default=str))
    doubles = []
    omode = None if only is None else only.get("mode", "exn")
    for f in pts:
        single = len(_as_list(f)) == 1
        if omode in (None, "exn"):
            o = run_real(case, f, "exn")
            runs.append((f, "exn", o))
            fs = _as_list(f)
            if only is None and single and len(o["trace"]) > fs[0][0] + 1:
                doubles.append((fs[0], o["trace"]))
        # exception classes: a BaseException (KeyboardInterrupt-like) instead of OSError at a third of the points
        if omode == "base" or (only is None and rng.random() < 0.35):
            runs.append((f, "base", run_real(case, f, "base")))
        # FileNotFoundError is the class the clean-up suppresses: inject it at the clean-up effects (oracle only)
        k0 = _as_list(f)[0][0]
        if omode == "fnf" or (only is None and single and k0 < len(trace0) and trace0[k0][0].rstrip("!") in ("remove", "rmdir")):
            runs.append((f, "fnf", run_real(case, f, "fnf")))
        if crash and single and omode in (None, "crash"):
            runs.append((f, "crash", run_real(case, f, "crash")))
        if omode == "exn-crash":
            runs.append((f, "exn-crash", run_real(case, f, "exn-crash")))
    # fault sequences: a second effect fails (or the process dies) while the handlers of the first failure run
    for j, (f1, tr) in enumerate(rng.sample(doubles, min(2, len(doubles)))):
        k2 = rng.randrange(f1[0] + 1, len(tr))
        f = (f1, (k2, 0))
        runs.append((f, "exn", run_real(case, f, "exn")))
        if crash and j == 0:
            runs.append((f, "exn-crash", run_real(case, f, "exn-crash")))
    if case.get("file") == "fd" and only is None and case["api"] == "convert":
        # fd fast paths (numpy tofile / copy_file_range write through the descriptor, invisible to the counting file
        # object): faults *inside* them are produced by the kernel — the temporary file may not grow beyond L bytes
        # (short write, then EFBIG) for L at the start, in the middle and one byte before the end of the new file
        total = len(expected_image(case))
        # (wave 4: EVERY byte position of a small save, not only start / middle / end)
        for L in (range(total) if total <= ctx_fsize_all() else sorted({0, 1, total // 2, max(total - 1, 0)})):
            if L < total:
                o = run_real(case, None, "exn", fsize=L)
                part.count("fd_fsize_raised:" + str(o["raised"] is not None))
                part.count("fd_fsize_every_byte:" + str(total <= ctx_fsize_all()))
                runs.append((None, "fsize", o))
    linkL = use_model and uses_links_model(case)
    par = bool(case.get("workers"))  # schedule dependent: the model gets the writer effects each run observed
    det = case.get("det") is not None  # deterministic executor: the schedule is a function of the seed
    shL = use_model and case["api"] == "sharded" and bool(case.get("links")) and not par
    shAll = use_model and case["api"] == "sharded" and par and det
    nested = shAll and _is_nested(case)  # inner writers are parallel: two-level model `saveShardedNest`
    tag0 = {"case": case, "fault": None, "mode": "exn"}
    # per-case model questions, asked in one batch together with the runs (below)
    pre_reqs: dict = {}
    if case.get("links") and not case.get("rich") and case["api"] != "sharded" and base_obs.get("dest_seen"):
        # Model `destinationOf` (external_data.py 453-456) vs the destination the code derived
        pre_reqs["resolve"] = {"m": "asave.resolve", "links": [[n, t] for n, t, _a in case["links"]], "requested": case["dest"]}
    if case.get("links") and case["api"] != "sharded":
        # Model `destinationPathL` / `destEntryL` / `tmpParentL` / `isLinkL` / `realpathL` (453-457, 467-471, 496)
        pre_reqs["resolveL"] = {"m": "asave.resolveL", "links": _link_table(case), "gas": GAS, "requested": case["dest"].split("/")}
    if use_model and case["api"] != "sharded":
        # Model `image` (the "complete new bytes" of C08_new_is_image) vs the bytes the real fault-free save wrote
        big = _big(case)
        chunk = case.get("chunk", 1 << 20)
        _ALIGN[0] = (case["alignment"], case["align_threshold"]) if case.get("alignment") else None
        _CASE[0] = case
        tj = [_tensor_json(t, off, chunk) for t, off in zip(big, _layout(big))]
        pre_reqs["image"] = {"m": "asave.image", "tensors": tj}
        if par and base_obs["raised"] is None:
            # the observed schedule of the real parallel writer is a word of the model's trace language (`parValid`)
            pre_reqs["parvalid"] = {"m": "asave.parvalid", "tensors": tj, "cb": case["cb"], "maxWorkers": case["workers"], "writer": writer_of(base_obs)}

    if shAll and not nested:
        # tie between the concurrent model and the sequential one: under the sequential schedule `saveShardedConc`
        # performs the effects of `saveShardedAll` and ends with the same directory
        pre_reqs["concseq"] = model_request_conc(case, "seq")
        r0 = model_request(case, [])
        r0["kind"] = "shardedAll"
        pre_reqs["seqall"] = r0

    def after_pre(ans: dict) -> None:
        if "concseq" in ans and "seqall" in ans:
            a, b = ans["concseq"], ans["seqall"]
            if "err" in a or "err" in b:
                part.disagree("model error " + str(a.get("err") or b.get("err")), tag0)
            else:
                part.count("conc_seq_tie")
                if [x[1:] for x in a["trace"]] != [list(x) for x in b["trace"]] or a["final"]["files"] != b["final"]["files"] or a["raised"] != b["raised"]:
                    part.disagree("saveShardedConc under the sequential schedule != saveShardedAll", tag0, a["trace"], b["trace"])
                if not a["refused"] and [x is not None for x in a["newBytes"]] != [True] * len(a["newBytes"]):
                    part.disagree("model: a shard's writer produces no file", tag0, a["newBytes"], None)
        if "resolve" in ans:
            md, seen = ans["resolve"].get("r"), base_obs["dest_seen"][0]
            if md != seen:
                part.disagree("destination: model != implementation", tag0, md, seen)
        if "resolveL" in ans:
            # hypotheses of the link theorems evaluated on the case; model vs what the code derived and the OS says
            ml = ans["resolveL"]
            part.count("hyp_properBase:" + str(ml.get("proper")))
            part.count("hyp_resolvable:" + str(ml.get("entry") is not None))
            if "err" in ml:
                part.disagree("model error " + str(ml["err"]), tag0)
            elif ml.get("entry") is None:
                if not _loops(case, case["dest"]):
                    part.disagree("the model cannot resolve a destination that has no cycle", tag0, ml, None)
            else:
                j = "/".join
                if ml["entryIsLink"]:
                    part.disagree("model: the entry os.replace overwrites is a symbolic link", tag0, ml, None)
                if ml["islink"] != base_obs["pre_os"]["islink"]:
                    part.disagree("islink: model != os.path.islink", tag0, ml["islink"], base_obs["pre_os"]["islink"])
                if ml["realpath"] is not None and j(ml["realpath"]) != base_obs["pre_os"]["realpath"]:
                    part.disagree("realpath: model != os.path.realpath", tag0, ml["realpath"], base_obs["pre_os"]["realpath"])
                if base_obs.get("dest_seen"):
                    if j(ml["dest"]) != base_obs["dest_seen"][0]:
                        part.disagree("destination path: model != implementation", tag0, ml["dest"], base_obs["dest_seen"][0])
                    tp = base_obs["tmp_parent_seen"][0]
                    tp = "" if tp == "." else tp
                    if j(ml["tmpParent"] if ml["tmpParent"] is not None else ["?"]) != tp:
                        part.disagree("directory of the temporary directory: model != implementation", tag0, ml["tmpParent"], tp)
                    if j(ml["entry"]) != os.path.join(tp, os.path.basename(base_obs["dest_seen"][0])):
                        part.disagree("entry overwritten by os.replace: model != implementation", tag0, ml["entry"], [tp, base_obs["dest_seen"][0]])
        if "image" in ans:
            img = ans["image"].get("r")
            real_new = base_obs["files"].get(_rdest(case))
            if base_obs["raised"] is None and (real_new is None or real_new[1] != img):
                part.disagree("image: model != bytes written by the fault-free save", tag0, img, real_new)
        if "parvalid" in ans:
            pv = ans["parvalid"]
            part.count("parvalid:" + str(pv.get("r")))
            if pv.get("r") is not True:
                part.disagree("the writer trace of the parallel writer is not in the model's trace language", tag0, pv, writer_of(base_obs))

    def pmap_of(f):
        return dict(_as_list(f))

    def mk_req(f, mode, obs):
        """The model request for one run (None: this run is not compared with the model)."""
        fl = _as_list(f)
        if linkL:
            return model_request_L(case, fl)
        if shL:
            return model_request_shardedL(case, fl)
        if nested:
            # two levels (shard drivers x inner workers): the model follows the schedule the run followed at both levels
            def pick_at(o, k, p):
                return [o["who"][k] if o["who"][k] is not None else 10**6, o["sub"][k], o["task"][k] if o["sub"][k] is not None else None, p]

            if mode in ("exn", "base"):
                return model_request_nest(case, sched2_of(obs, pmap_of(f)))
            if mode == "crash":
                k0, p0 = fl[0]
                if k0 >= len(trace0):
                    return None
                return model_request_nest(case, sched2_of(base_obs, {}, upto=k0) + [pick_at(base_obs, k0, p0)])
            twin = next((o for (g, m2, o) in runs if m2 == "exn" and g == f), None)
            if twin is None or max(k for k, _ in fl) >= len(twin["trace"]):
                return None
            kl = max(k for k, _ in fl)
            pm = pmap_of(f)
            return model_request_nest(case, sched2_of(twin, pm, upto=kl) + [pick_at(twin, kl, pm[kl])])
        if shAll:
            # concurrent shard drivers, interleaved effect by effect: the model follows the schedule the run followed
            if mode in ("exn", "base"):
                return model_request_conc(case, sched_of(obs["trace"], obs["who"], pmap_of(f)))
            if mode == "crash":
                k0, p0 = fl[0]
                if k0 >= len(trace0):
                    return None
                return model_request_conc(case, sched_of(trace0, base_obs["who"], {}, upto=k0) + [[base_obs["who"][k0] if base_obs["who"][k0] is not None else 10**6, p0]])
            # exn-crash: the process dies at the last fault of a sequence; the schedule up to there is the one of the
            # exception run with the same faults
            twin = next((o for (g, m2, o) in runs if m2 == "exn" and g == f), None)
            if twin is None or max(k for k, _ in fl) >= len(twin["trace"]):
                return None
            kl = max(k for k, _ in fl)
            pm = pmap_of(f)
            sc = sched_of(twin["trace"], twin["who"], pm, upto=kl)
            return model_request_conc(case, sc + [[twin["who"][kl] if twin["who"][kl] is not None else 10**6, pm[kl]]])
        if par and det and case["api"] != "sharded":
            if mode in ("exn", "base"):
                pm = pmap_of(f)
                m = marked_of(obs["trace"], obs["payload"])
                k0 = 1  # global index of the first effect of the block
                for i, x in enumerate(m):
                    if x[-2]:
                        x[-1] = pm.get(k0 + i, 0)
            else:
                if len(fl) != 1:
                    return None
                m = marked_of(trace0, base_obs["payload"], fault_at=fl[0])
            r = model_request(case, fl, writer=[])
            r["kind"] = "marked"
            r["writer"] = m
            return r
        if par:
            if mode not in ("exn", "base") or len(fl) > 1:
                # real thread pool + several faults / a process exit: the indices depend on how far the other
                # workers got (not reproducible) -> oracle only
                return None
            return model_request(case, fl, writer=writer_of(obs))
        return model_request(case, fl)

    jobs_idx, reqs = [], []
    for ri, (f, mode, obs) in enumerate(runs):
        if not use_model or mode in ("fnf", "fsize"):
            continue
        r = mk_req(f, mode, obs)
        if r is not None:
            jobs_idx.append(ri)
            reqs.append(r)
    pre_keys = list(pre_reqs)
    answers = lean_batch([pre_reqs[k] for k in pre_keys] + reqs) if (pre_keys or reqs) else []
    after_pre(dict(zip(pre_keys, answers[: len(pre_keys)])))
    by_run = dict(zip(jobs_idx, answers[len(pre_keys) :]))
    allext = [t for t in case["tensors"] if t["kind"] == "ext"] + case.get("bystanders", [])
    exts_desc = [t["ext"] for t in allext]
    next0 = len([1 for f in case["pre"].values() if "link" not in f])
    boundaries = set()
    if case["api"] == "sharded":  # first effect of every shard save but the first: "between shard i and shard i+1"
        boundaries = {k for k, ev in enumerate(trace0) if ev[0].startswith("mkdtemp") and k > 0}
    for ri, (f, mode, obs) in enumerate(runs):
        mo = by_run.get(ri)
        part.case(
            [case, f, mode],
            nontrivial=True,
            sample={"case": case, "fault": f, "mode": mode, "real_trace": obs.get("trace")} if f == (3, 0) and mode == "exn" else None,
            api=case["api"],
            mode=mode,
            compared_with_model=mo is not None,
            model_kind=("none" if mo is None else "links" if linkL else "sharded-links" if shL else "sharded-nest" if nested else "sharded-conc" if shAll else "marked" if (par and det) else "writer" if par else case["api"]),
            variant=case.get("label", "plain"),
            dest_exists=_rdest(case) in case["pre"],
            link_chain=_chain_len(case),
            kinds="+".join(sorted({t["kind"] for t in case["tensors"]})),
            fault_at=_fault_name(obs if "trace" in obs else {"trace": trace0}, f),
            shard_boundary=bool(boundaries & {k for k, _ in _as_list(f)}),
            n_effects=min(len(trace0), 40) // 5 * 5,
            shards_queued=(case["api"] == "sharded" and bool(case.get("workers")) and len(case.get("jobs", [])) > case["workers"]),
            det_policy=case.get("det_policy", "-"),
            conc_switches=(min(sum(1 for a, b in zip(obs["who"], obs["who"][1:]) if a != b), 12) // 4 * 4 if (shAll and obs.get("who")) else "-"),
        )
        if obs.get("hang") or obs.get("rc") == 5:
            # the deterministic scheduler found every thread blocked, or a thread never came back: the real code deadlocks
            # or loops under this schedule
            part.count("nontermination:det-scheduler")
            part.fail(f"nontermination:det-scheduler:{case['api']}[{case.get('label', 'plain')}]", "the save did not terminate under the deterministic scheduler: " + str(obs.get("hang") or "in the crash run"), {"case": case, "fault": f, "mode": mode})
            continue
        oracle(part, case, obs, f, mode)
        if det and par and mode in ("exn", "base") and f is not None:
            k0 = min(k for k, _ in _as_list(f))
            if [e[:-1] for e in obs["trace"][:k0]] != [e[:-1] for e in trace0[:k0]]:
                part.disagree("deterministic executor: the schedule before the fault is not the fault-free schedule", {"case": case, "fault": f, "mode": mode}, trace0[:k0], obs["trace"][:k0])
        if mo is None:
            continue
        tagr = {"case": case, "fault": f, "mode": mode}
        if "err" in mo:
            part.disagree("model error " + str(mo["err"]), tagr)
            continue
        if mo.get("unresolvable"):
            part.disagree("the model cannot resolve the destination", tagr)
            continue
        cleanup_failed = any(ev[0].rstrip("!") in ("remove", "rmdir") and ev[-1] for ev in obs.get("trace", []))
        if nested:
            # hypothesis of C08_sharded_concurrent_nested_crash evaluated on the run; the model's complete bytes per shard
            # against the independent layout of the harness
            part.count("hyp_nest_jobOk:" + str(all(mo["jobOk"])))
            part.count("nest_parallel_shards:" + str(sum(1 for x in mo["parallel"] if x)))
            if mo["nBytes"] != [_shard_image(case, idx) for _n, idx in case["jobs"]]:
                part.disagree("complete bytes of a shard (nBytes): model != layout of the harness", tagr, mo["nBytes"], [_shard_image(case, idx) for _n, idx in case["jobs"]])
            mo["cleanFaults"] = not any(x[-1] and x[2] in ("remove", "rmdir") for x in mo["trace"])
            mo["writerBodies"] = True
        if shAll:
            # hypotheses of C08_sharded_concurrent_exception evaluated on the run (shares in the evidence)
            if mode in ("exn", "base") and not nested:  # (a crash run has no "the driver returned")
                part.count("hyp_conc_preflight_passed:" + str(not mo["refused"]))
                part.count("hyp_conc_allDone:" + str(mo["allDone"]))
                part.count("hyp_conc_cleanFaults:" + str(mo["cleanFaults"]))
                part.count("hyp_conc_writerBodies:" + str(mo["writerBodies"]))
            for stn in ("final", "crash", "crashLast"):
                if mo.get(stn) is not None:
                    mo[stn]["tmpdir"], mo[stn]["tmpfile"] = False, None
        if mode in ("exn", "base"):
            mtrace = [list(x) for x in mo["trace"]]
            if shAll:
                rtrace = [[w] + list(ev) for w, ev in zip(obs["who"], obs["trace"])]
                if nested:
                    rtrace = [[w, sb] + list(ev) for w, sb, ev in zip(obs["who"], obs["sub"], obs["trace"])]
                if mtrace != rtrace:
                    part.disagree("effect trace of the interleaved shard drivers: model != implementation", tagr, mtrace, rtrace)
                mtrace = obs["trace"]
                if mo["allDone"] is not True and not mo["refused"]:
                    part.disagree("model: the shard drivers have not all finished although the real function returned", tagr, mo["final"].get("pcs"), None)
                # what the theorem concludes, on the model's answer: raises iff an effect failed; nothing left when no clean-up failed
                if mo["raised"] != (mo["refused"] or any(x[-1] for x in mo["trace"])):
                    part.disagree("model: raised is not equivalent to 'some effect failed'", tagr, mo["raised"], None)
                if mo["cleanFaults"] and any(a or b for a, b in mo["final"]["tmps"]):
                    part.disagree("model: a temporary path remains although no clean-up effect failed", tagr, mo["final"]["tmps"], None)
            # real thread pool: after a worker's failure the other workers run on until the pool is shut down, the
            # `writer` model kind leaves the block at once: traces compared for fault-free runs only (the `marked`
            # kind of the deterministic executor replays the whole block and is compared always)
            if mtrace != obs["trace"] and not (par and not det and f is not None):
                part.disagree("effect trace: model != implementation", tagr, mtrace, obs["trace"])
            if mo["raised"] != (obs["raised"] is not None):
                part.disagree("raised: model != implementation", tagr, mo["raised"], obs["raised"])
            ms = _canon_model_state(mo["final"], next0, exts_desc)
            real = {
                "files": {k: v for k, v in obs["files"].items()},
                "tmp": _canon_real_tmp(obs, case),
                "valid": obs["valid"],
                "mapped": obs["mapped"],
                "reads": obs["reads"],
            }
            mmem = ms.pop("mem")
            if shAll:  # one temporary directory per shard driver
                ms["tmp"] = sorted(["T", ["F"] if b else []] for a, b in mo["final"]["tmps"] if a)
                real["tmp"] = sorted(real["tmp"])
            if ms != real:
                part.disagree("post-state: model != implementation", tagr, ms, real)
            if linkL:
                if _canon_links_model(mo["final"]["links"]) != obs["links"]:
                    part.disagree("symbolic links after the save: model != implementation", tagr, mo["final"]["links"], obs["links"])
                if mo["final"]["reach"] != obs["reach"]:
                    part.disagree("bytes through the requested path: model != implementation", tagr, mo["final"]["reach"], obs["reach"])
                if not mo["linksKept"]:
                    part.disagree("model: a visited state has a changed link table", tagr)
            if case["api"] == "save" and obs["raised"] is None:
                # memory copies of the small external tensors (model: St.mem) vs the bytes embedded in m.onnx
                want = {t["name"]: m for t, m in zip(allext, mmem) if m is not None}
                got = {n: b for n, b in obs.get("embedded", {}).items() if n in {t["name"] for t in allext}}
                if want != got:
                    part.disagree("memory copies of small external tensors: model != implementation", tagr, want, got)
        else:
            st = mo["crash"] if mo["crash"] is not None else mo["final"]
            if mode == "exn-crash":
                st = mo["crashLast"] if mo.get("crashLast") is not None else mo["final"]
            ms = _canon_model_state(st, next0, exts_desc)
            # a crashed process leaves no tensor objects; the temporary file's content depends on
            # user-space buffering and is not compared (the destination and the listing are)
            real = {"files": obs["files"], "tmp": _canon_real_tmp(obs, case)}
            if obs["rc"] != CRASH_RC:
                part.disagree("crash run did not reach the fault point", {"case": case, "fault": f}, None, obs["rc"])
            if shAll:
                ms["tmp"] = sorted(["T", ["F"] if b else []] for a, b in st["tmps"] if a)
                real["tmp"] = sorted(real["tmp"])
            if {"files": ms["files"], "tmp": ms["tmp"]} != real:
                part.disagree("crash state: model != implementation", tagr, ms, real)
            if linkL:
                if _canon_links_model(st["links"]) != obs["links"]:
                    part.disagree("symbolic links at the crash point: model != implementation", tagr, st["links"], obs["links"])
                if st["reach"] != obs["reach"]:
                    part.disagree("bytes through the requested path at the crash point: model != implementation", tagr, st["reach"], obs["reach"])


# --------------------------------------------------------------------------- generators


def gen_case(rng, api=None) -> dict:
    api = api or rng.choice(["save", "save", "convert"])
    dest = rng.choice(["m.data", "w.bin", "model.onnx.data"])
    pre: dict = {}
    dest_exists = rng.random() < 0.8
    if dest_exists:
        n = rng.choice([1, 5, 12, 40])
        pre[dest] = {"bytes": [rng.randrange(256) for _ in range(n)], "mode": rng.choice([0o644, 0o600, 0o664, 0o444])}
    if rng.random() < 0.5:
        pre["other.data"] = {"bytes": [rng.randrange(256) for _ in range(rng.choice([3, 9, 20]))], "mode": 0o644}
    hard = dest_exists and api == "convert" and rng.random() < 0.2
    if hard:
        pre["hard.data"] = {"link": dest}
    tensors, nid = [], 0
    nt = rng.choice([1, 1, 2, 2, 3, 4])
    kinds = ["mem", "mem", "lazy", "ext", "ext", "chunky"] + (["notofile"] if api == "convert" else [])
    for i in range(nt):
        k = rng.choice(kinds)
        t = {"kind": k, "name": f"t{i}", "id": i}
        if k == "ext":
            srcs = [n for n in pre if "link" not in pre[n]] + (["hard.data"] if hard else [])
            if not srcs:
                k = t["kind"] = "mem"
            else:
                src = rng.choice(srcs)
                fb = pre[pre[src].get("link", src)]["bytes"]
                ln = rng.randrange(1, len(fb) + 1)
                off = rng.randrange(0, len(fb) - ln + 1)
                t["ext"] = {"file": src, "off": off, "len": ln, "mapped": rng.random() < 0.5, "abs": hard and src in (dest, "hard.data")}
                t["bytes"] = fb[off : off + ln]
        if k != "ext":
            n = rng.choice([0, 1, 2, 3, 7, 16, 33]) if api == "convert" else rng.choice([1, 2, 3, 7, 16, 33])
            t["bytes"] = [rng.randrange(256) for _ in range(n)]
            if k == "chunky":
                sizes, left = [], n
                while left > 0:
                    c = rng.randrange(1, left + 1)
                    sizes.append(c)
                    left -= c
                if rng.random() < 0.2:
                    sizes.insert(rng.randrange(len(sizes) + 1), 0)
                t["sizes"] = sizes
        tensors.append(t)
    case = {
        "api": api,
        "dest": dest,
        "pre": pre,
        "tensors": tensors,
        "threshold": rng.choice([0, 0, 2, 5]) if api == "save" else 0,
        "cb": rng.random() < 0.4,
        "chunk": rng.choice([4, 16, 1 << 20]),
    }
    if dest_exists and rng.random() < 0.4:
        fb = pre[dest]["bytes"]
        ln = rng.randrange(1, len(fb) + 1)
        off = rng.randrange(0, len(fb) - ln + 1)
        case["bystanders"] = [
            {"kind": "ext", "name": "by", "id": nt, "bytes": fb[off : off + ln], "ext": {"file": dest, "off": off, "len": ln, "mapped": rng.random() < 0.5, "abs": hard}}
        ]
    return finalize(case)


def shard_name(base: str, idx: int, total: int) -> str:
    """Independent re-implementation of the shard naming rule (marker before the extension chain)."""
    if total == 1:
        return base
    name, sufs = base, []
    while True:
        stem, suf = os.path.splitext(name)
        ext = suf[1:]
        if not suf or not (ext and ext[0].isascii() and ext[0].isalpha() and all(c.isascii() and (c.isalnum() or c == "_") for c in ext)):
            break
        name = stem
        sufs.append(suf)
    return f"{name}-{idx:05d}-of-{total:05d}{''.join(reversed(sufs))}"


def shard_split(sizes: list, limit: int) -> list:
    shards, size = [[]], 0
    for i, n in enumerate(sizes):
        off = size
        if off + n > limit and shards[-1]:
            shards.append([])
            off = 0
        shards[-1].append(i)
        size = off + n
    return shards


def gen_sharded(rng) -> dict:
    """Sequential sharded save through ir.save(max_shard_size_bytes=...); sometimes a shard name is taken."""
    dest = rng.choice(["m.data", "w.bin", "model.onnx.data"])
    pre: dict = {}
    if rng.random() < 0.5:
        pre[dest] = {"bytes": [rng.randrange(256) for _ in range(rng.choice([4, 12, 30]))], "mode": rng.choice([0o644, 0o600])}
    if rng.random() < 0.5:
        pre["other.data"] = {"bytes": [rng.randrange(256) for _ in range(rng.choice([3, 9, 20]))], "mode": 0o644}
    tensors = []
    for i in range(rng.choice([1, 2, 3, 3, 4, 5])):
        k = rng.choice(["mem", "mem", "lazy", "chunky", "ext"])
        t = {"kind": k, "name": f"t{i}", "id": i}
        if k == "ext" and pre:
            src = rng.choice(list(pre))
            fb = pre[src]["bytes"]
            ln = rng.randrange(1, len(fb) + 1)
            off = rng.randrange(0, len(fb) - ln + 1)
            t["ext"] = {"file": src, "off": off, "len": ln, "mapped": rng.random() < 0.5, "abs": False}
            t["bytes"] = fb[off : off + ln]
        else:
            if k == "ext":
                k = t["kind"] = "mem"
            n = rng.choice([1, 2, 3, 7, 16])
            t["bytes"] = [rng.randrange(256) for _ in range(n)]
            if k == "chunky":
                sizes, left = [], n
                while left > 0:
                    c = rng.randrange(1, left + 1)
                    sizes.append(c)
                    left -= c
                t["sizes"] = sizes
        tensors.append(t)
    case = {"api": "sharded", "dest": dest, "pre": pre, "tensors": tensors, "threshold": 0, "cb": rng.random() < 0.4, "chunk": rng.choice([4, 16, 1 << 20])}
    case["max_shard"] = rng.choice([1, 4, 8, 10, 20, 1000])
    sizes = [len(t["bytes"]) for t in tensors]
    shards = shard_split(sizes, case["max_shard"])
    names = [shard_name(dest, i + 1, len(shards)) for i in range(len(shards))]
    case["jobs"] = [[n, idx] for n, idx in zip(names, shards)]
    if len(shards) > 1 and rng.random() < 0.4:
        taken = rng.choice(names[1:]) if rng.random() < 0.6 else rng.choice(names)
        pre[taken] = {"bytes": [rng.randrange(256) for _ in range(4)], "mode": 0o644}
    if len(shards) > 1 and not any(n in pre for n in names) and rng.random() < 0.25:
        # a shard name is a symlink: dangling (the file behind it is created, the link stays) or to an
        # existing file (the pre-flight must refuse)
        ln = rng.choice(names)
        if "other.data" in pre and rng.random() < 0.4:
            case["links"] = [[ln, "other.data", False]]
        else:
            case["links"] = [[ln, "store/shard.bin", rng.random() < 0.3]]
        case["label"] = "sharded-link"
    if len(shards) > 1 and rng.random() < 0.35:
        # concurrent shard drivers (external_data.py 858-895): effect order is schedule dependent -> oracle only
        case["workers"] = rng.choice([2, 4])
        case["model"] = False
        case["label"] = "sharded-par"
    return finalize(case)


def gen_variant(rng) -> dict:
    """Oracle-only variants: the parallel writer (max_workers=2..3; effect order is schedule dependent) and a
    file object with fileno() (numpy / copy_file_range fast paths write through the descriptor)."""
    case = gen_case(rng)
    case["model"] = False
    r = rng.random()
    if r < 0.4:
        case["workers"] = rng.choice([2, 3])
        case["label"] = "parallel"
    else:
        case["file"] = "fd"
        case["label"] = "fd"
    return case


def gen_links(rng) -> dict:
    """The destination is reached through a chain of 0..3 symlinks (relative or absolute text, targets in
    sub-directories); external tensors read the data file through the requested name, an intermediate link,
    the real file, or a hard link."""
    api = rng.choice(["save", "convert"])
    dest = rng.choice(["model.data", "m.data"])
    real = rng.choice(["weights-v1.bin", "sub/weights-v1.bin", "store/w.bin"])
    chain = rng.choice([0, 1, 1, 2, 2, 3])
    mids = rng.sample(["current.data", "sub/alias.data", "store/latest.data"], max(chain - 1, 0))
    names = [dest] + mids + [real] if chain else [dest]
    realname = names[-1]
    fb = [rng.randrange(256) for _ in range(rng.choice([4, 12, 30]))]
    pre = {realname: {"bytes": fb, "mode": rng.choice([0o644, 0o600, 0o640])}}
    links = [[names[i], names[i + 1], rng.random() < 0.3] for i in range(len(names) - 1)]
    hard = rng.random() < 0.3
    if hard:
        pre["hard.data"] = {"link": realname}
    if rng.random() < 0.4:
        pre["other.data"] = {"bytes": [rng.randrange(256) for _ in range(6)], "mode": 0o644}
    tensors = []
    for i in range(rng.choice([1, 2, 3])):
        k = rng.choice(["ext", "ext", "mem", "chunky", "lazy"])
        t = {"kind": k, "name": f"t{i}", "id": i}
        if k == "ext":
            src = rng.choice(names + (["hard.data"] if hard else []) + (["other.data"] if "other.data" in pre else []))
            b = pre["other.data"]["bytes"] if src == "other.data" else fb
            ln = rng.randrange(1, len(b) + 1)
            off = rng.randrange(0, len(b) - ln + 1)
            t["ext"] = {"file": src, "off": off, "len": ln, "mapped": rng.random() < 0.5, "abs": hard and src != "other.data"}
            t["bytes"] = b[off : off + ln]
        else:
            n = rng.choice([1, 3, 7, 16])
            t["bytes"] = [rng.randrange(256) for _ in range(n)]
            if k == "chunky":
                c = rng.randrange(1, n + 1)
                t["sizes"] = [c, n - c] if n - c else [c]
        tensors.append(t)
    case = {"api": api, "dest": dest, "pre": pre, "links": links, "tensors": tensors, "threshold": rng.choice([0, 0, 2]) if api == "save" else 0,
            "cb": rng.random() < 0.3, "chunk": rng.choice([4, 1 << 20]), "label": f"chain{chain}"}
    if rng.random() < 0.4:
        src = rng.choice(names)
        ln = rng.randrange(1, len(fb) + 1)
        case["bystanders"] = [{"kind": "ext", "name": "by", "id": 99, "bytes": fb[:ln], "ext": {"file": src, "off": 0, "len": ln, "mapped": rng.random() < 0.5, "abs": hard}}]
    return finalize(case)


def gen_parallel(rng) -> dict:
    """The parallel writer (max_workers 2..4, >= 3 tensors written, sometimes a tiny in-flight budget),
    compared with the model on the schedule each run observed."""
    for _ in range(50):
        case = gen_case(rng)
        if len(_big(case)) >= 3 and not any(t["kind"] == "notofile" for t in case["tensors"]):
            break
        extra = [{"kind": rng.choice(["mem", "lazy", "chunky"]), "name": f"x{i}", "id": 0, "bytes": [rng.randrange(256) for _ in range(rng.choice([6, 9, 17]))]} for i in range(3)]
        for t in extra:
            if t["kind"] == "chunky":
                t["sizes"] = [2, len(t["bytes"]) - 2]
        case["tensors"] = [t for t in case["tensors"] if t["kind"] != "notofile"] + extra
        finalize(case)
        if len(_big(case)) >= 3:
            break
    case["workers"] = rng.choice([2, 3, 4])
    if rng.random() < 0.4:
        case["in_flight"] = rng.choice([1, 8, 64])
    case["label"] = "parallel"
    case["threshold"] = 0  # no load-first phase in front of the writer (the "writer" model kind starts at mkdtemp)
    case["tensors"] = [t for t in case["tensors"] if t["bytes"] or case["api"] == "convert"]
    return finalize(case)


def gen_edge(rng) -> dict:
    """Edge streams: destination that is a directory / a dangling symlink / behind a symlinked directory / in a
    sub-directory; tensors that fail by themselves (invalidated, source file too short); aligned layouts with
    holes; the same tensor object under two names; initializers of a subgraph; os.path calls as fault points."""
    kind = rng.choice(["dest-dir", "dangling", "dirlink", "subdir", "natural", "aligned", "shared", "subgraph", "pathfault"])
    case = gen_case(rng, api=rng.choice(["save", "convert"]))
    case.pop("bystanders", None)
    pre, dest = case["pre"], case["dest"]
    hard = "hard.data" in pre
    case["label"] = kind
    if kind == "dest-dir":
        pre.pop("hard.data", None)
        case["tensors"] = [t for t in case["tensors"] if not (t["kind"] == "ext" and t["ext"]["file"] in (dest, "hard.data"))] or [{"kind": "mem", "name": "t0", "id": 0, "bytes": [1, 2, 3]}]
        pre[dest] = {"dir": True}
        case["model"] = False
    elif kind in ("dangling", "dirlink", "subdir"):
        pre.pop("hard.data", None)
        old = pre.pop(dest, None)
        for t in case["tensors"]:
            if t["kind"] == "ext" and t["ext"]["file"] in (dest, "hard.data"):
                t["kind"] = "mem"
                t.pop("ext")
        if kind == "dangling":
            case["links"] = [[dest, "store/new.bin", rng.random() < 0.3]]
        elif kind == "subdir":
            case["dest"] = "sub/" + dest
            case["dirs"] = ["sub"]
            if old is not None:
                pre["sub/" + dest] = old
        else:
            case["links"] = [["ld", "sub", False]]
            case["dirs"] = ["sub"]
            case["dest"] = "ld/" + dest
            if old is not None:
                pre["sub/" + dest] = old
            case["rich"] = True  # a symlinked parent directory: link-level model (`saveL`)
    elif kind == "natural":
        srcs = [n for n in pre if "link" not in pre[n]]
        if not srcs:
            pre["other.data"] = {"bytes": [5, 6, 7, 8], "mode": 0o644}
            srcs = ["other.data"]
        src = rng.choice(srcs)
        fb = pre[src]["bytes"]
        t = {"kind": "ext", "name": "bad", "id": 0, "bytes": list(fb)}
        if rng.random() < 0.5:
            t["ext"] = {"file": src, "off": 0, "len": len(fb), "mapped": False, "abs": hard, "invalid": True}
        else:
            t["ext"] = {"file": src, "off": 1, "len": len(fb) + 3, "mapped": False, "abs": hard, "short": True}
            t["bytes"] = fb[1:] + [0, 0, 0, 0]
        case["tensors"].insert(rng.randrange(len(case["tensors"]) + 1), t)
        case["threshold"] = 0
        case["model"] = False
    elif kind == "aligned":
        case["alignment"] = rng.choice([1, 4096, 8192])
        case["align_threshold"] = rng.choice([0, 2, 6])
        case["tensors"] = case["tensors"][:3]
    elif kind == "shared":
        i = rng.randrange(len(case["tensors"]))
        src = case["tensors"][i]
        dup = {k: (dict(v) if isinstance(v, dict) else v) for k, v in src.items()}
        dup["name"] = "dup"
        dup["same_as"] = i
        case["tensors"].append(dup)
        if src["kind"] == "ext" or case["api"] == "convert":
            case["model"] = src["kind"] != "ext"
    elif kind == "subgraph":
        case["api"] = "save"
        case["threshold"] = rng.choice([0, 2])
        for j in range(rng.choice([1, 2])):
            case["tensors"].append({"kind": rng.choice(["mem", "chunky"]), "name": f"s{j}", "id": 0, "sub": True, "bytes": [rng.randrange(256) for _ in range(rng.choice([1, 5, 9]))]})
            if case["tensors"][-1]["kind"] == "chunky":
                case["tensors"][-1]["sizes"] = [len(case["tensors"][-1]["bytes"])]
    else:
        case["pathfaults"] = True
        case["model"] = False
    return finalize(case)



def gen_links_rich(rng, shape=None) -> dict:
    """Symbolic links as file-system objects (model `saveL`): the request goes through a symlinked parent directory
    and/or a chain of 0..4 links (relative texts with `..`, absolute texts, links inside sub-directories), the chain may
    end in an existing file or dangle; external tensors spell the data file through the request, through other
    aliases (directory link, a link with `..`), through the real name or through a hard link. Sometimes the chain is
    a cycle (oracle only: the model does not resolve it)."""
    api = rng.choice(["convert", "convert", "save"])
    real = rng.choice(["store/w.bin", "sub/deep/w.bin", "w-v1.bin"])
    links, dirs = [], ["sub", "store", "sub/deep"]
    base = rng.choice(["model.data", "m.data"])
    forced = shape
    shape = rng.choice(["dirlink", "dirlink+chain", "chain", "chain", "dotdot", "dangling-chain", "plain-in-dirlink", "cycle"])
    shape = forced or shape
    fb = [rng.randrange(256) for _ in range(rng.choice([4, 12, 30]))]
    pre = {}
    exists = shape not in ("dangling-chain",) and rng.random() < 0.85
    aliases = []
    if shape == "plain-in-dirlink":
        # ld -> sub ; request ld/<base>, a regular file (or absent) behind a symlinked directory
        links.append(["ld", "sub", rng.random() < 0.3])
        dest, real = "ld/" + base, "sub/" + base
        aliases = [dest, real]
    elif shape == "dirlink":
        # ld -> sub ; sub/<base> -> real
        links.append(["ld", "sub", rng.random() < 0.3])
        links.append(["sub/" + base, real, rng.random() < 0.3])
        dest = "ld/" + base
        aliases = [dest, "sub/" + base, real]
    elif shape == "dirlink+chain":
        links.append(["ld", "sub", False])
        links.append(["sub/" + base, "store/latest.data", rng.random() < 0.3])
        links.append(["store/latest.data", "current.data", rng.random() < 0.3])
        links.append(["current.data", real, rng.random() < 0.3])
        dest = "ld/" + base
        aliases = [dest, "sub/" + base, "store/latest.data", "current.data", real]
    elif shape == "chain":
        n = rng.choice([1, 2, 3, 4])
        mids = rng.sample(["current.data", "sub/alias.data", "store/latest.data", "sub/deep/x.data"], n - 1)
        names = [base] + mids + [real]
        links += [[names[i], names[i + 1], rng.random() < 0.3] for i in range(n)]
        dest = base
        aliases = names
    elif shape == "dotdot":
        # sub/deep/<base> -> ../../store/w.bin (relative text with ..), reached through up -> sub/deep
        real = "store/w.bin"
        links.append(["up", "sub/deep", False])
        links.append(["sub/deep/" + base, real, False])
        dest = "up/" + base
        aliases = [dest, "sub/deep/" + base, real, "up/../deep/" + base]
    elif shape == "dangling-chain":
        n = rng.choice([1, 2, 3])
        mids = rng.sample(["current.data", "sub/alias.data", "store/latest.data"], n - 1)
        names = [base] + mids + [rng.choice(["store/new.bin", "sub/deep/new.bin"])]
        links += [[names[i], names[i + 1], rng.random() < 0.3] for i in range(n)]
        dest, real = base, names[-1]
        aliases = []
    else:  # cycle
        links += [[base, "current.data", False], ["current.data", base, False]]
        dest, real, exists = base, base, False
        aliases = []
    if exists:
        pre[real] = {"bytes": fb, "mode": rng.choice([0o644, 0o600, 0o640])}
    hard = exists and rng.random() < 0.3
    if hard:
        pre["hard.data"] = {"link": real}
    if rng.random() < 0.4:
        pre["other.data"] = {"bytes": [rng.randrange(256) for _ in range(6)], "mode": 0o644}
    if exists and rng.random() < 0.3:
        # one more alias: a link whose relative text climbs with `..`
        links.append(["sub/deep/back.data", real, False])
        aliases.append("sub/deep/back.data")
    tensors = []
    for i in range(rng.choice([1, 2, 3])):
        k = rng.choice(["ext", "ext", "mem", "chunky", "lazy"]) if exists else rng.choice(["mem", "chunky", "lazy"])
        t = {"kind": k, "name": f"t{i}", "id": i}
        if k == "ext":
            src = rng.choice(aliases + (["hard.data"] if hard else []) + (["other.data"] if "other.data" in pre else []))
            b = pre["other.data"]["bytes"] if src == "other.data" else fb
            ln = rng.randrange(1, len(b) + 1)
            off = rng.randrange(0, len(b) - ln + 1)
            t["ext"] = {"file": src, "off": off, "len": ln, "mapped": rng.random() < 0.5, "abs": (hard and src != "other.data") or rng.random() < 0.3}
            t["bytes"] = b[off : off + ln]
        else:
            n = rng.choice([1, 3, 7, 16])
            t["bytes"] = [rng.randrange(256) for _ in range(n)]
            if k == "chunky":
                c = rng.randrange(1, n + 1)
                t["sizes"] = [c, n - c] if n - c else [c]
        tensors.append(t)
    case = {"api": api, "dest": dest, "pre": pre, "links": links, "dirs": dirs, "tensors": tensors, "threshold": 0,
            "cb": rng.random() < 0.3, "chunk": rng.choice([4, 1 << 20]), "label": "rich-" + shape, "rich": True}
    if shape == "cycle":
        case["model"] = False
    if exists and aliases and rng.random() < 0.4:
        src = rng.choice(aliases)
        ln = rng.randrange(1, len(fb) + 1)
        case["bystanders"] = [{"kind": "ext", "name": "by", "id": 99, "bytes": fb[:ln], "ext": {"file": src, "off": 0, "len": ln, "mapped": rng.random() < 0.5, "abs": hard}}]
    return finalize(case)


def gen_parallel_det(rng) -> dict:
    """The parallel writer under the deterministic executor (family `det`): every fault position, exception and
    process exit, several faults — compared with the model's `saveMarked` on the marked writer block."""
    case = gen_parallel(rng)
    case["det"] = rng.randrange(1 << 30)
    case["det_policy"] = rng.choice(["rr", "rand", "rand"])  # which worker performs its next effect: round robin / seeded choice
    case["label"] = "parallel-det"
    return case


def gen_sharded_det(rng) -> dict:
    """Concurrent shard drivers (max_workers 2..4, >= 2 shards) under the deterministic executor: model `saveShardedAll`."""
    for _ in range(200):
        case = gen_sharded(rng)
        if len(case["jobs"]) >= 2 and not case.get("links"):
            break
    case["workers"] = rng.choice([2, 3, 4])
    if len(case["jobs"]) >= 3 and rng.random() < 0.6:
        case["workers"] = 2  # more shards than drivers: some shard saves are still queued when another one fails
    case["det"] = rng.randrange(1 << 30)
    case["det_policy"] = rng.choice(["rr", "rand", "rand"])
    case["model"] = len(case["jobs"]) >= 2
    case["label"] = "sharded-det"
    return case


def gen_sharded_nested(rng) -> dict:
    """Two levels: concurrent shard drivers (2..3 shards) with max_workers >= 3 * shards, so that every shard gets
    `workers_per_shard` >= 2 inner workers and a shard with more than one tensor uses the parallel writer — under the
    deterministic scheduler (both pools). Model `saveShardedNest`."""
    for _ in range(400):
        case = gen_sharded(rng)
        n = len(case["jobs"])
        if 2 <= n <= 3 and not case.get("links") and any(len(idx) >= 2 for _n, idx in case["jobs"]) and len(case["tensors"]) <= 5:
            break
    n = len(case["jobs"])
    for name, _idx in case["jobs"]:
        if name in case["pre"] and rng.random() < 0.85:  # (a taken shard name = pre-flight refusal: keep a few)
            del case["pre"][name]
    case["workers"] = 3 * n + rng.choice([0, 0, 1, n, 2 * n])
    if rng.random() < 0.3:
        case["in_flight"] = rng.choice([1, 8, 64])
    case["det"] = rng.randrange(1 << 30)
    case["det_policy"] = rng.choice(["rr", "rand", "rand"])
    case["model"] = True
    case["label"] = "sharded-nest"
    return case


def gen_nul(rng) -> dict:
    """An external tensor whose location contains a NUL byte: os.path.samefile raises ValueError while
    the overwritten tensors are collected (oracle only; the model has no such path)."""
    api = rng.choice(["convert", "save"])
    dest = "m.data"
    pre = {dest: {"bytes": [rng.randrange(256) for _ in range(8)], "mode": 0o644}} if rng.random() < 0.7 else {}
    tensors = [
        {"kind": "mem", "name": "t0", "id": 0, "bytes": [1, 2, 3, 4]},
        {"kind": "ext", "name": "t1", "id": 1, "bytes": [5, 6, 7], "ext": {"file": "bad\0name", "off": 0, "len": 3, "mapped": False, "abs": False}},
    ]
    if rng.random() < 0.5:
        tensors.reverse()
    return finalize({"api": api, "dest": dest, "pre": pre, "tensors": tensors, "threshold": 0, "cb": False, "chunk": 16, "model": False, "label": "nul-location"})


def finalize(case: dict) -> dict:
    """Object ids: tensors that are written get their position in the written list (the model's
    index space), the others follow."""
    big = _big(case)
    nxt = len(big)
    for i, t in enumerate(big):
        t["id"] = i
    for t in case["tensors"]:
        if not any(t is b for b in big):
            t["id"] = nxt
            nxt += 1
    for t in case.get("bystanders", []):
        t["id"] = nxt
        nxt += 1
    return case


_BASE = [None]  # per-run scratch directory; every real directory is created below it


def _new_base() -> str:
    """Scratch directory of this run (`c08run-<pid>-...`); removes those of runs whose process is gone."""
    tmp = tempfile.gettempdir()
    for n in os.listdir(tmp):
        if n.startswith("c08run-"):
            parts = n.split("-")
            alive = False
            if len(parts) >= 3 and parts[1].isdigit():
                try:
                    os.kill(int(parts[1]), 0)
                    alive = True
                except ProcessLookupError:
                    alive = False
                except PermissionError:
                    alive = True
            else:  # old naming: stale when untouched for an hour
                try:
                    alive = (time.time() - os.stat(os.path.join(tmp, n)).st_mtime) < 3600
                except OSError:
                    alive = True
            if not alive:
                shutil.rmtree(os.path.join(tmp, n), ignore_errors=True)
    return tempfile.mkdtemp(prefix=f"c08run-{os.getpid()}-")


def _merge_part(dst, src: dict) -> None:
    dst["evaluations"] += src["evaluations"]
    dst["distinct"] += src["distinct"]
    for x in src["samples"]:
        if len(dst["samples"]) < 2:
            dst["samples"].append(x)
    for k, v in src["dist"].items():
        dst["dist"][k] = dst["dist"].get(k, 0) + v
    dst["disagreements"] += src["disagreements"][: max(0, 10 - len(dst["disagreements"]))]
    dst["failures"] += src["failures"][: max(0, 10 - len(dst["failures"]))]


def _isolated(case: dict, crash: bool, only=None, timeout: int = 600, attempt: int = 0) -> dict:
    """Check one case in a forked child: real code that dies with SIGBUS/SIGSEGV (an mmap of a file that was
    truncated in place is read) must not take the harness down, it is an observation. Any other abnormal end
    of the child (OOM kill, a BaseException in the harness, ...) is an infrastructure problem: one retry, then
    Infra (exit 2) — never a violation."""
    import signal

    r, w = os.pipe()
    sys.stdout.flush()
    sys.stderr.flush()
    pid = os.fork()
    if pid == 0:
        rc = 0
        try:
            os.close(r)
            signal.alarm(timeout)
            part = Part()
            try:
                check_case(part, case, crash=crash, only=only)
            except Infra as e:
                part["infra"] = str(e)
            except Exception as e:  # harness problem: reported as a disagreement so that it is looked at
                import traceback

                part.disagree("harness exception " + repr(e), {"case": case, "tb": traceback.format_exc()[-800:]})
            data = json.dumps(part, default=str).encode()
            with os.fdopen(w, "wb") as fh:
                fh.write(data)
        except BaseException:
            rc = 4
        finally:
            os._exit(rc)
    os.close(w)
    chunks = []
    with os.fdopen(r, "rb") as fh:
        while True:
            b = fh.read(1 << 16)
            if not b:
                break
            chunks.append(b)
    _, status = os.waitpid(pid, 0)
    code = os.waitstatus_to_exitcode(status)
    out = Part()
    if code == 0 and chunks:
        _merge_part(out, json.loads(b"".join(chunks)))
        if "infra" in json.loads(b"".join(chunks)):
            raise Infra(json.loads(b"".join(chunks))["infra"])
        return out
    if code == -signal.SIGALRM:
        # the real code did not return (loop / deadlock outside the deterministic scheduler's reach): a failure of
        # the real code on this input, never a hung check
        out.case([case, "timeout"], api=case["api"], mode="timeout")
        out.count("nontermination:case-timeout")
        out.fail(f"nontermination:case:{case['api']}[{case.get('label', 'plain')}]", f"the saves of this case did not finish within {timeout}s (the child running them was killed)", {"case": case})
        return out
    if code not in (-signal.SIGBUS, -signal.SIGSEGV):
        if attempt == 0:
            return _isolated(case, crash, only, timeout, attempt=1)
        raise Infra(f"the child checking a case ended abnormally twice (exit status {code}; negative = signal)")
    out.case([case, "process-died"], api=case["api"], mode="died")
    out.fail(
        f"{case['api']}:process-killed:{'SIGBUS' if code == -signal.SIGBUS else 'SIGSEGV'}",
        "the process running the saves of this case was killed by a memory fault: an mmap of a data file that was "
        "truncated or rewritten in place was read (an external tensor backed by the destination)",
        {"case": case},
    )
    return out


def check_writeat(part, rng, n: int, base: str) -> None:
    """Model `writeAt` vs a real file: write buf, seek(pos), write(bs), read back."""
    reqs, real, cases = [], [], []
    path = os.path.join(base, "writeat.bin")
    for _ in range(n):
        buf = [rng.randrange(256) for _ in range(rng.choice([0, 1, 3, 8, 20]))]
        pos = rng.choice([0, 1, 2, 5, 8, 20, 27])
        bs = [rng.randrange(256) for _ in range(rng.choice([0, 0, 1, 2, 7]))]
        with open(path, "wb") as fh:
            fh.write(bytes(buf))
            fh.seek(pos)
            fh.write(bytes(bs))
        with open(path, "rb") as fh:
            real.append(list(fh.read()))
        reqs.append({"m": "asave.writeat", "buf": buf, "pos": pos, "bs": bs})
        cases.append({"buf": buf, "pos": pos, "bs": bs})
    os.remove(path)
    for c, r, o in zip(cases, real, lean_batch(reqs)):
        part.case(["writeat", c], nontrivial=bool(c["bs"]), api="writeAt", mode="pure")
        if o.get("r") != r:
            part.disagree("writeAt: model != real file", c, o, r)


def _worker(args):
    import logging

    logging.getLogger("onnx_ir.external_data").setLevel(logging.ERROR)
    cases, crash, base = args
    _BASE[0] = base
    part = Part()
    for case in cases:
        _merge_part(part, _isolated(case, crash))
    return part


def run(ctx: Ctx) -> None:
    ctx.rule = (
        "one evaluation = one real save of one generated directory+tensor list under one fault (none / exception at effect k / "
        "process exit at effect k, incl. mid-write); distinct by (case, fault, mode); the fault position is enumerated "
        "exhaustively per case"
    )
    cases = []
    for obj in load_corpus("C08"):
        if "case" in obj:
            cases.append(obj["case"])
    n = ctx.pick(48, 600)
    for _ in range(n):
        cases.append(gen_case(ctx.rng))
    for _ in range(ctx.pick(32, 300)):
        cases.append(gen_sharded(ctx.rng))
    for _ in range(ctx.pick(2, 6)):
        cases.append(gen_nul(ctx.rng))
    for _ in range(ctx.pick(14, 120)):
        cases.append(gen_variant(ctx.rng))
    for _ in range(ctx.pick(24, 200)):
        cases.append(gen_links(ctx.rng))
    for _ in range(ctx.pick(10, 100)):
        cases.append(gen_parallel(ctx.rng))
    for _ in range(ctx.pick(18, 180)):
        cases.append(gen_edge(ctx.rng))
    for _ in range(ctx.pick(28, 260)):
        cases.append(gen_links_rich(ctx.rng))
    # D360 (observation, outside the C08 statement): a cyclic symbolic link as destination is generated on EVERY run
    # (both entry points) and counted (`observed_D360_cyclic_link_replaced`)
    for _ in range(ctx.pick(2, 6)):
        cases.append(gen_links_rich(ctx.rng, shape="cycle"))
    ctx.count("D360_cycle_cases_generated", sum(1 for c in cases if c.get("label") == "rich-cycle"))
    for _ in range(ctx.pick(10, 100)):
        cases.append(gen_parallel_det(ctx.rng))
    for _ in range(ctx.pick(10, 100)):
        cases.append(gen_sharded_det(ctx.rng))
    for _ in range(ctx.pick(6, 60)):
        cases.append(gen_sharded_nested(ctx.rng))
    base = _new_base()
    try:
        wp = Part()
        check_writeat(wp, ctx.rng, ctx.pick(300, 3000), base)
        ctx.merge(wp)
        chunks = [cases[i::16] for i in range(16)]
        for part in pmap(_worker, [(c, True, base) for c in chunks if c]):
            ctx.merge(part)
    finally:
        shutil.rmtree(base, ignore_errors=True)
    ctx.exhaustive_scopes.append("every effect index k of each generated save (exception and crash), plus one mid-write point per write of >= 2 bytes")


def replay(ctx: Ctx, obj: dict) -> None:
    """Re-run a recorded failing input (`kind: failing-input`) or the recorded disagreeing cases."""
    items = []
    if obj.get("kind") == "unchecked-obligation":
        items = [d.get("case") or {} for d in obj.get("correspondence_disagreements", [])]
    else:
        items = [obj.get("case", obj)]
    base = _new_base()
    _BASE[0] = base
    try:
        for c in items:
            case = c["case"] if "case" in c else c
            if "api" not in case:
                continue
            only = {"fault": c.get("fault"), "mode": c.get("mode", "exn")} if c.get("fault") is not None else None
            ctx.merge(_isolated(case, True, only))
    finally:
        shutil.rmtree(base, ignore_errors=True)

"""C12 — topological sort: correct across scopes, stable, deterministic, atomic (DESIGN.md 5/C12).

Correspondence: the real `Graph.sort()` / `Function.sort()` / `TopologicalSortPass` (and
`RecursiveGraphIterator`) vs the Lean model `IrVerif.Sort` (driver commands sort.*) on the same
object graphs: new node order of every graph of the tree, raised-vs-ok, the node orders observable
after the call (also when it raised), the pre-order universe, `Graph.extend` on nodes already held vs
`relink`, and the hypotheses `WellScoped` / `OrderedG` of the fixpoint theorems vs the oracle's reading.
Oracle (independent of the model, on the real objects): every graph keeps exactly its own nodes;
after a successful sort every node comes after the same-graph producers of every value used by it
or by a node nested in it; a graph already in such an order is left as it was; a dependency cycle
gives ValueError and no graph's order changes; two isomorphic object graphs built in different
allocation orders sort identically.
Stateful sequences: build, sort, edit the SAME objects (replace_input_with / resize_inputs, inserts into
nested graphs, moving a node to another place or graph), sort again ...; every sort is compared with the
model applied to the structure of that moment and followed by the oracle (no hidden state between sorts).
Stateful model (`sort.state`): every public call on a node container (DoublyLinkedSet) made while the objects are
built, edited and sorted is traced and the whole history replayed on `sortW` over C11's pointer-level containers;
per sort: outcome, write trace (which container got which `extend`, in the code's order) and every container's
sequence.  Identity-keyed transcription `sortIds` (universe may list a node twice) compared on every case.
Shared Graph objects (also at nesting depth >= 2) and graphs nested in themselves are generated deliberately.
Full stateful model (`sort.full`, round 3b): the same histories plus, before every sort, what the checking phase (fix D89)
and the naming half of Graph.extend read - node.graph, node / value / tensor names, whether a backing tensor accepts a
name, the owner of every node output, counters and name sets of every name authority - replayed on `sortF` / `passF`;
compared per sort or pass: outcome (ok, ValueError, RecursionError, AssertionError, refused), write trace, containers,
node.graph and every name, every name authority.  Generator dimensions: nodes / outputs that lost their names, an unnamed
output backed by a tensor that refuses a name (the sort must be rejected as a whole), node.graph = None, sort while a
Journal records, TopologicalSortPass (also on models with functions and nested subgraphs) traced and replayed like
the sorts (per-sort re-link orders recovered from the trace), already sorted nests with captures (fixpoint oracle).
`heapq` (heapify / heappush / heappop) is compared with its transcription `Model/Heap.lean` step by step.
"""
from __future__ import annotations

import gc
import itertools

from harness.common import Ctx, Part, lean_batch_parallel, load_corpus, pmap

THEOREMS = [
    "IrVerif.Sort.C12_fuel_suffices",
    "IrVerif.Sort.C12_kahn_refines",
    "IrVerif.Sort.C12_kahn_perm",
    "IrVerif.Sort.C12_kahn_respects",
    "IrVerif.Sort.C12_kahn_cycle_iff",
    "IrVerif.Sort.C12_kahn_stable",
    "IrVerif.Sort.C12_relink",
    "IrVerif.Sort.C12_relink_refines",
    "IrVerif.Sort.C12_perm",
    "IrVerif.Sort.C12_respects",
    "IrVerif.Sort.C12_cycle_iff",
    "IrVerif.Sort.C12_cycle_lifted",
    "IrVerif.Sort.C12_cycle_iff_lifted",
    "IrVerif.Sort.C12_cycle_no_change",
    "IrVerif.Sort.C12_order_independent",
    "IrVerif.Sort.C12_pass_atomic",
    "IrVerif.Sort.C12_pass_result",
    "IrVerif.Sort.C12_fixpoint_graph",
    "IrVerif.Sort.C12_fixpoint",
    "IrVerif.Sort.C12_deterministic",
    "IrVerif.Sort.C12_effect_equivariant",
    "IrVerif.Sort.C12_state_raise_no_write",
    "IrVerif.Sort.C12_state_sort",
    "IrVerif.Sort.C12_state_abs_only",
    "IrVerif.Sort.C12_self_nested_recursion",
    "IrVerif.Sort.C12_shared_raises",
    "IrVerif.Sort.C12_state_deterministic",
    "IrVerif.Sort.C12_ids_refines",
    "IrVerif.Sort.C12_ids_shared_raises",
    "IrVerif.Sort.C12_ids_equivariant",
    "IrVerif.Sort.C12_full_no_late",
    "IrVerif.Sort.C12_full_raise_no_write",
    "IrVerif.Sort.C12_full_frame",
    "IrVerif.Sort.C12_full_refines_state",
    "IrVerif.Sort.C12_state_pass_atomic",
    "IrVerif.Sort.C12_heappop_min_partial",
    "IrVerif.Sort.C12_heap_invariant",
    "IrVerif.Sort.C12_heap_refines_queue",
    "IrVerif.Sort.C12_heap_extract_min",
    "IrVerif.Sort.C12_heap_pops_increasing",
    "IrVerif.Sort.C12_heap_kahn_refines",
    "IrVerif.Sort.C12_heap_sort_refines",
    "IrVerif.Sort.C12_passF_refines_passW",
    "IrVerif.Sort.C12_pass_success_sorted",
    "IrVerif.Sort.C12_passF_success_sorted",
    "IrVerif.Sort.C12_state_pass_atomic_D392",
    "IrVerif.Sort.C12_passF_refines_passW_D392",
]
ASSUMPTIONS = [
    "Function.sort is `self._graph.sort()`: it is modelled as the same sortEffect on the function's graph; "
    "TopologicalSortPass.call is modelled by passEffect (record the orders, sort main graph then functions, on "
    "ValueError re-extend every recorded graph in its recorded order and re-raise: the code since fix D201, 1715aa4); "
    "the correspondence requires the atomic state, a partially sorted model is a disagreement and an oracle failure",
    "'the result depends only on the current tree' is a theorem about the stateful model sortW (C12_state_abs_only: equal "
    "abstraction => equal outcome/trace/abstraction; C12_state_deterministic: also up to relabelling of identities); what ties "
    "sortW to the code is the replay of every traced history (construction, edits, sorts: each public DoublyLinkedSet call on "
    "the real objects) on C11's pointer-level containers: outcome, write trace and every container's sequence per sort. The "
    "hypotheses of C12_state_sort are evaluated per sort and published (state_hyp_* in the distribution)",
    "the full stateful model sortF (Model/SortFull.lean) adds node.graph (buckets and keys come from node.graph as in the code, "
    "not from the listing container), node / value / tensor names, name authorities, _check_node_can_be_added in the checking "
    "phase of fix D89 and again inside Graph.extend / _set_node_graph_to_self_and_assign_names, the Value.name setter renaming "
    "the backing tensor first; a value is its name, (tensor refuses a name, tensor name) and value.graph as read before the "
    "sort; two values sharing one tensor object and node outputs that are initializers are outside (a value without a name is "
    "never an initializer). C12_full_no_late / _raise_no_write / _frame hold for every world; C12_full_refines_state needs "
    "`Consistent` (node.graph = listing container, evaluated per sort: full_hyp_consistent; false only on the deliberate "
    "node.graph=None stream). Branch order of the model on a world that has BOTH a shared Graph object and a popped node with "
    "graph None: ValueError (summary branch) - the code would raise AssertionError first; not generated",
    "TopologicalSortPass.call is transcribed on the stateful world twice: passF (full: the restore loop is Graph.extend with "
    "checks and naming; only ValueError is handled - observation D391) and passW (containers only; C12_state_pass_atomic). Both "
    "are replayed on every traced pass; hypothesis PassHyp (every successful sort of the pass: well-formed tree, order is an "
    "arrangement of the keys) is evaluated by passHypB per pass (full_hyp_pass_hyp; false only with a shared empty Graph "
    "object). Round 5: that passF's containers equal passW's is PROVED (C12_passF_refines_passW: for any world in which, at each "
    "sort of the pass, node.graph names the listing container - passConsB, evaluated per pass: full_hyp_pass_cons; a refused pass "
    "has written a prefix of passW's writes) and still compared per pass (full_passW_compared); 'success => EVERY graph-like "
    "is sorted at the END of the pass' is proved (C12_pass_success_sorted / C12_passF_success_sorted: every graph of every "
    "graph-like holds its entry of sortModel's result in the final world) under PassHyp and passDisjB (no later sort writes a "
    "container of an earlier graph-like's tree; decidable, evaluated per pass: full_hyp_pass_disj); the tree of a graph-like is "
    "the one its own sort read (that earlier sorts of disjoint trees do not change what a later traversal reads is not proved "
    "separately)",
    "finding D392 (known): on a CYCLE the restore loop of the pass re-extends never-sorted graph-likes (names assigned / "
    "AttributeError instead of ValueError). The pass is transcribed twice: as it is (passF / passW) and as it is after "
    "proposed_fixes/D392.diff (passFD / passWD: only graph-likes whose order changed are re-extended, tested when the loop gets "
    "to them); C12_state_pass_atomic_D392 and C12_passF_refines_passW_D392 are the counterparts of the theorems about the "
    "current loop; the harness probes the real pass once (d392_fixed) and has the driver replay every traced pass on the "
    "matching transcription, so the check follows the fix without a change of the model. That the fixed loop can neither be "
    "rejected nor assign a name (restored graph-likes were sorted successfully, so all their nodes passed the checks and are "
    "named) is not proved: it is what the oracle observes (the D392 signatures stop firing)",
    "heapq: the binary heap (heapify / heappush / heappop with _siftup / _siftdown, CPython's heapq.py; the C accelerator is the "
    "same algorithm) is transcribed in Model/Heap.lean and compared with the real heapq step by step. Round 5: 'heapq is an "
    "extract-min priority queue' is no longer trusted: C12_heap_invariant proves that heapify establishes and heappush / heappop "
    "re-establish the heap invariant and keep the multiset of keys, C12_heap_extract_min / _refines_queue that every pop returns "
    "the smallest key present, and the Kahn loop is transcribed once more with the queue as it is in the code (Model/SortHeap.lean: "
    "a list of keys len(nodes)-position under heapify / heappop / heappush, the popped node read off as nodes[position]); "
    "C12_heap_kahn_refines proves for EVERY tree that it pops the same nodes as the maxKey loop of sortIds (so 'heappop returns "
    "the queued node with the largest position' is derived), C12_heap_sort_refines that on well-formed trees it is sortModel. "
    "Tie to the code: sortHeap's result is compared with the real sort on every case and the real queue is observed (the heapq "
    "functions Graph.sort calls are wrapped): the list of positions before every heappop, the popped node and the final list are "
    "compared with the model's heap list (sort.heaptrace). What the model abstracts: the tuples (neg index, node) are represented "
    "by their first component (two entries with the same position are entries of the same node, nodeIndex being last-wins; a tie "
    "would make Python compare two Node objects - no node is queued twice:). That no two queue "
    "entries ever carry the same position (so heapq never compares two Node objects) follows from C12_ids_shared_raises / "
    "C12_ids_refines (no node is queued twice). The dicts keyed by node are modelled twice: by position (sortModel, all correctness theorems) "
    "and by identity with a universe that may repeat a node (sortIds, the line-by-line transcription); C12_ids_refines proves "
    "them equal on well-formed trees, both are compared with the real sort on every case; dict insertion order is not used by "
    "steps 1-4, the iteration order of sorted_nodes_by_graph (from a set) is a parameter (`order`) every theorem quantifies over",
    "the object graph is a tree: every Graph object is the value of at most one attribute and node.graph is the "
    "graph whose node list contains the node (ownership consistency is property C01's subject); a Graph object "
    "shared by two attributes: the sort raises ValueError and nothing is re-linked - derived line by line from the "
    "identity-keyed transcription (C12_ids_shared_raises, hypothesis: the sorted graph's own nodes are listed once, evaluated "
    "per case as ids_hyp_root_nodes_listed_once) and stated for the pure and the stateful model (C12_shared_raises); shared "
    "graphs are excluded from the theorems about successful sorts by hypothesis WF (distinct node ids / graph ids, asserted "
    "on every unshared case); a graph nested in itself: RecursiveGraphIterator raises RecursionError (depth ~330 of nested "
    "generators), nothing is written - modelled by the depth bound of unfoldG (C12_self_nested_recursion: no bound suffices) "
    "and checked on generated self-nested graphs (terminates within the time limit, no order changes, outcome compared with "
    "sortW); the property's quantifier (graphs nested to any finite depth) does not cover it and RecursionError instead of "
    "ValueError is not claimed as a defect. The model's depth bound is #containers+1, Python's is the interpreter's recursion "
    "limit: a legitimate nest deeper than ~330 levels would raise RecursionError in the code only (outside the generators' reach)",
    "a value is represented by what Graph.sort reads from it: input_value.producer()",
    "C12_fixpoint* (stability: 'a graph already in order is left as it was') assume well-scoped graphs (a value is "
    "used only inside the graph of its producer or graphs nested in it), as in the property's quantifier ('subgraphs "
    "capturing values produced anywhere in ENCLOSING graphs'); on ill-scoped trees (a node using a value produced in a "
    "sibling scope) the clause is false of the code — confirmed: g0=[Y{g2=[w]}, X, Z{g1=[u]}], u uses X, w uses u: every "
    "graph is in order, yet g0 becomes [X,Y,Z] (corpus) — which is not claimed as a defect because such IR is not valid "
    "ONNX (a subgraph may only refer to names of its own or enclosing scopes); there only perm/respects/cycle are "
    "proved and checked",
    "reference attributes (value None) of type GRAPH/GRAPHS carry no graph: the model input skips them (defect D46, "
    "fixed in /repo by 31ed6b5; a TypeError on such an attribute is reported with signature ...:ref-graph-attr:TypeError)",
]

# --------------------------------------------------------------------------- specs
#
# graph spec : {"g": gid, "nin": k, "nodes": [node...]}          (nodes in their *initial* order)
# node spec  : {"i": id, "nout": k, "in": [ref...], "attrs": [attr...]}
# ref        : None | ["n", node id, output index] | ["gi", gid, index] | ["free", k]
# attr       : ["int"] | ["g", graph] | ["gs", [graph...]] | ["refg"] | ["refgs"]   (in attribute dict order)


def walk_nodes(gs):
    """all node specs below a graph spec, pre-order (harness-side; used for generation only)"""
    for n in gs["nodes"]:
        yield n
        for a in n["attrs"]:
            if a[0] == "g":
                yield from walk_nodes(a[1])
            elif a[0] == "gs":
                for sg in a[1]:
                    yield from walk_nodes(sg)


def walk_graphs(gs):
    yield gs
    for n in gs["nodes"]:
        for a in n["attrs"]:
            if a[0] == "g":
                yield from walk_graphs(a[1])
            elif a[0] == "gs":
                for sg in a[1]:
                    yield from walk_graphs(sg)


class SpecGen:
    def __init__(self, rng, max_depth, max_nodes, p_sub, mode):
        self.rng, self.max_depth, self.max_nodes, self.p_sub, self.mode = rng, max_depth, max_nodes, p_sub, mode
        self.nid = itertools.count()
        self.gid = itertools.count()
        self.free = itertools.count()

    def ref(self, pool):
        r = self.rng.random()
        if r < 0.10:
            return None
        if r < 0.16 or not pool:
            return ["free", next(self.free)]
        return list(self.rng.choice(pool))

    def graph(self, depth, visible):
        rng = self.rng
        gid = next(self.gid)
        nin = rng.randrange(0, 3)
        local = [("gi", gid, k) for k in range(nin)]
        nodes = []
        for _ in range(rng.randrange(0 if depth else max(1, self.max_nodes // 2), self.max_nodes + 1)):
            nid = next(self.nid)
            nout = rng.choice([1, 1, 1, 1, 2, 2, 3, 0])
            ins = []
            for _ in range(rng.choice([0, 1, 1, 2, 2, 2, 3, 4])):
                if ins and rng.random() < 0.2:
                    ins.append(rng.choice(ins))  # repeated input
                else:
                    ins.append(self.ref(local + visible))
            attrs = []
            if depth < self.max_depth and rng.random() < self.p_sub:
                for _ in range(rng.choice([1, 1, 2, 3])):
                    k = rng.random()
                    if k < 0.25:
                        attrs.append(["int"])
                    elif k < 0.75:
                        attrs.append(["g", self.graph(depth + 1, visible + local)])
                    else:
                        attrs.append(["gs", [self.graph(depth + 1, visible + local) for _ in range(rng.randrange(0, 3))]])
            elif rng.random() < 0.2:
                attrs.append(["int"])
            nodes.append({"i": nid, "nout": nout, "in": ins, "attrs": attrs})
            local = local + [("n", nid, k) for k in range(nout)]
        return {"g": gid, "nin": nin, "nodes": nodes}


def scope_tables(root):
    """graph-of-node, owner-of-graph (node id or None) for a spec tree"""
    gof, owner, nodes = {}, {root["g"]: None}, {}
    for g in walk_graphs(root):
        for n in g["nodes"]:
            gof[n["i"]] = g["g"]
            nodes[n["i"]] = n
            for a in n["attrs"]:
                for sg in [a[1]] if a[0] == "g" else (a[1] if a[0] == "gs" else []):
                    owner[sg["g"]] = n["i"]
    return gof, owner, nodes


def add_edges(rng, root, k, ill):
    """extra uses: from values visible by scope regardless of order (may create cycles), or (ill)
    from anywhere in the tree (ill-scoped)"""
    gof, owner, nodes = scope_tables(root)
    ids = sorted(nodes)
    if not ids:
        return
    for _ in range(k):
        u = nodes[rng.choice(ids)]
        if ill:
            chain, g = set(), gof[u["i"]]
            while g is not None:
                chain.add(g)
                o = owner[g]
                g = gof[o] if o is not None else None
            cands = [i for i in ids if nodes[i]["nout"] and gof[i] not in chain] or [i for i in ids if nodes[i]["nout"]]
        else:
            chain, g = set(), gof[u["i"]]
            while g is not None:
                chain.add(g)
                o = owner[g]
                g = gof[o] if o is not None else None
            cands = [i for i in ids if gof[i] in chain and nodes[i]["nout"]]
        if not cands:
            continue
        p = nodes[rng.choice(cands)]
        ref = ["n", p["i"], rng.randrange(p["nout"])]
        if u["in"] and rng.random() < 0.5:
            u["in"][rng.randrange(len(u["in"]))] = ref
        else:
            u["in"].insert(rng.randrange(len(u["in"]) + 1), ref)


def permute(rng, root, how):
    for g in walk_graphs(root):
        ns = g["nodes"]
        if how == "id" or len(ns) < 2:
            continue
        if how == "rev":
            ns.reverse()
        elif how == "shuffle":
            rng.shuffle(ns)
        elif how == "swap":
            for _ in range(rng.randrange(1, 3)):
                i, j = rng.randrange(len(ns)), rng.randrange(len(ns))
                ns[i], ns[j] = ns[j], ns[i]
        elif how == "mixed":
            permute_one = rng.choice(["id", "rev", "shuffle", "swap"])
            if permute_one == "rev":
                ns.reverse()
            elif permute_one == "shuffle":
                rng.shuffle(ns)
            elif permute_one == "swap":
                i, j = rng.randrange(len(ns)), rng.randrange(len(ns))
                ns[i], ns[j] = ns[j], ns[i]


def gen_model_case(rng):
    """a whole model for TopologicalSortPass: permuted main graph + 1..3 functions, often one of them cyclic"""
    specs = []
    k = rng.choice([2, 3, 3, 4])
    cyclic_at = rng.randrange(k) if rng.random() < 0.6 else None
    for j in range(k):
        depth = rng.choice([0, 1, 1, 2])
        sg = SpecGen(rng, depth, rng.choice([2, 3, 4, 6]), rng.choice([0.25, 0.5]), "dag")
        root = sg.graph(0, [])
        if j == cyclic_at:
            add_edges(rng, root, rng.randrange(2, 6), ill=False)
        permute(rng, root, rng.choice(["rev", "shuffle", "shuffle", "mixed", "id"]))
        specs.append(root)
    case = {"entry": "model", "specs": specs, "spec": specs[0], "mode": "model", "perm": "mixed",
            "variant": rng.randrange(4), "sub": rng.randrange(1 << 30), "shared": False, "steps": []}
    r = rng.random()
    if r < 0.12:
        case["inj"] = {"kind": "unnamed", "seed": rng.randrange(1 << 20), "p": 0.3, "at": rng.randrange(k)}
    elif r < 0.2:
        case["inj"] = {"kind": "locked", "seed": rng.randrange(1 << 20), "p": 0.15, "at": rng.randrange(k)}
    if rng.random() < 0.1:
        case["journal"] = True
    return case


def do_model_case(case, part):
    """TopologicalSortPass on a model with functions: EVERY graph of the model is snapshot (main graph,
    every function body, all nested graphs); compared with `passEffect`, oracle = the English clauses."""
    import onnx_ir as ir
    from onnx_ir.passes.common.topological_sort import TopologicalSortPass

    import contextlib

    _patch_containers()
    t = Tracer(None)
    Tracer.cur = t
    try:
        bs = [Built(spec, case["variant"], seed=case["sub"] + j) for j, spec in enumerate(case["specs"])]
        funcs = [ir.Function("d", f"f{j}", graph=b.root, attributes=[]) for j, b in enumerate(bs[1:], start=1)]
        model = ir.Model(bs[0].root, ir_version=10, functions=funcs)
        inj_info = None
        if case.get("inj"):
            jb = case["inj"]["at"] % len(bs)
            inj_info = inject(bs[jb], case, 0)
        before = [b.orders() for b in bs]
        nbefore = [name_state(b) for b in bs]
        reqs = [b.encode(b.root) for b in bs]
        trees = [[b.gidmap[id(g)] for g in tree_graphs(b, b.root)] for b in bs]
        cyc = [flat_cycle(b, b.root) for b in bs]
        lockd = [any(v.name is None and isinstance(v.const_value, RefusingTensor) for n in b.node.values() for v in n.outputs) for b in bs]
        t.events.append(world_tables(bs[0]))
        recs_ev = t.recs_event()
        t.events.append(recs_ev)
        t.in_sort, t.trace, t.marks = True, [], []
        if case.get("journal"):
            from onnx_ir.journaling import Journal

            ctxm = Journal()
        else:
            ctxm = contextlib.nullcontext()
        try:
            with ctxm:
                TopologicalSortPass()(model)
            outcome = "ok"
        except ValueError:
            outcome = "raised"
        except Exception as e:  # noqa: BLE001
            outcome = "raised:" + type(e).__name__
        finally:
            t.in_sort = False
        trace = t.trace
        wellformed = all(not (isinstance(x[1], list) and x[1] and isinstance(x[1][0], str)) for x in trace)
        orders = []
        for m in t.marks:
            o = [x[0] for x in trace[m[0] : m[1]]]
            orders.append(o if (m[2] and wellformed and len(set(o)) == len(o)) else None)
        t.has_pass = True
        t.events.append({"e": "pass", "roots": [t.gidx(b.root) for b in bs], "orders": orders})
        o = {"out": OUTCOME_CODES.get(outcome, outcome), "trace": trace, "after": [[t.nid(n) for n in c] for c in t.conts], "pass": True}
        o.update(t.observe_recs(recs_ev))
        t.obs.append(o)
    finally:
        Tracer.cur = None
    after = [b.orders() for b in bs]
    n_nodes = sum(len(v) for o in before for v in o.values())
    nested = sum(len(tr) - 1 for tr in trees)
    part.case(
        {"specs": case["specs"], "entry": "model", "inj": case.get("inj"), "journal": bool(case.get("journal"))},
        nontrivial=n_nodes >= 2,
        sample={"graphs": reqs, "entry": "model", "outcome": outcome},
        mode="model", entry="model", outcome=outcome.split(":")[0], functions=len(funcs),
        model_cyclic_member=("none" if not any(cyc) else ("main" if cyc[0] else "function")),
        model_nested_graphs=min(nested, 4), model_inj=(case["inj"]["kind"] if case.get("inj") else "none"),
        journal=bool(case.get("journal")),
    )
    rec = {"case": case}
    sig = "TopologicalSortPass(model)"
    nafter = [name_state(b) for b in bs]
    if case.get("journal"):
        part.count("model_journal")
    has_locked = any(v.name is None and isinstance(v.const_value, RefusingTensor) for b in bs for n in b.node.values() for v in n.outputs)
    # the first graph-like (in the order the pass sorts them) that cannot be sorted, and why: within one Graph.sort the
    # cycle test comes before the checking phase, so a cyclic graph-like fails with ValueError whatever else it holds
    first_bad = next(((("cycle" if cyc[j] else "locked"), j) for j in range(len(bs)) if cyc[j] or lockd[j]), None)
    if outcome == "raised:AttributeError" and has_locked:
        if first_bad is not None and first_bad[0] == "cycle":
            # D392: the pass met a CYCLE; its restore loop re-extended a never-sorted graph-like holding the refusing
            # tensor and was rejected: AttributeError reaches the caller instead of the ValueError the property promises
            part.fail(f"{sig}:cycle:raises-AttributeError",
                      "a graph-like has a cycle but the pass raised AttributeError (restore loop re-extends never-sorted graph-likes) instead of ValueError", rec)
            if after != before:
                part.fail("TopologicalSortPass:model-partially-sorted-on-cycle",
                          "a cycle was met but graphs sorted earlier in the same call keep their new order", rec)
            if any(nafter[i] != nbefore[i] for i in range(first_bad[1], len(bs))):
                part.fail(f"{sig}:cycle:restore-loop-names-assigned",
                          "cycle: the restore loop of the pass assigned names in graph-likes that were never sorted", rec)
        else:
            # a later graph-like is rejected because a node cannot be re-added: the handler of the pass only catches
            # ValueError, so graph-likes sorted earlier in the same call keep their new order (observation D391; the
            # stateful model `passF` transcribes exactly that and is compared below)
            part.count("observation=D391:pass-rejected-AttributeError:" + ("earlier-graphs-keep-new-order" if after != before else "nothing-changed"))
        r = {"kind": "model-refused", "case": case, "outcome": outcome, "after": [{str(k): v for k, v in aft.items()} for aft in after],
             "state": state_record(t)}
        return {"recs": [r], "outcome": [outcome], "after": [r["after"]]}
    if outcome.startswith("raised:"):
        part.fail(f"{sig}:raises-{outcome[7:]}", f"pass raised {outcome[7:]}", rec)
        return None
    if outcome == "raised":
        if nafter != nbefore:
            j0 = next((j for j in range(len(bs)) if cyc[j]), 0)
            named_only = all(only_named(x, y) for x, y in zip(nbefore, nafter))
            if named_only and any(nafter[i] != nbefore[i] for i in range(j0, len(bs))):
                # D392: graph-likes from the cyclic one on were never sorted, yet the restore loop re-extended them
                part.fail(f"{sig}:cycle:restore-loop-names-assigned",
                          "cycle: ValueError raised but the restore loop of the pass assigned names in graph-likes that were never sorted", rec)
            elif named_only:
                # names assigned by the successful sorts of EARLIER graph-likes stay (orders are restored): outside the
                # property's text ('no graph's order changes'), counted
                part.count("observation=pass-cycle:earlier-sorted-graphs-keep-names")
            else:
                part.fail(f"{sig}:cycle-names-changed", "ValueError raised but names / node.graph / a name authority changed", rec)
        if not any(cyc):
            part.fail(f"{sig}:raise-without-cycle", "ValueError although no graph of the model has a cycle", rec)
        if after != before:
            part.fail(
                "TopologicalSortPass:model-partially-sorted-on-cycle",
                "ValueError raised (a function or the main graph has a cycle) but graphs sorted earlier in the "
                "same call keep their new order",
                rec,
            )
    else:
        if any(cyc):
            part.fail(f"{sig}:cycle-not-raised", "a graph of the model has a dependency cycle but the pass returned", rec)
        for b, bef, aft in zip(bs, before, after):
            for g in tree_graphs(b, b.root):
                gid = b.gidmap[id(g)]
                if sorted(bef[gid]) != sorted(aft[gid]):
                    part.fail(f"{sig}:nodes-moved", "a graph does not keep exactly its own nodes", rec)
                bad = ordered(b, g)
                if bad is not None:
                    part.fail(f"{sig}:producer-after-consumer", f"producer {bad[0]} not before consumer {bad[1]}", rec)
    r = {
        "kind": "model",
        "req": {"m": "sort.pass", "graphs": reqs},
        "impl_raised": outcome == "raised",
        "impl_after": [[[g, aft[g]] for g in tree] for aft, tree in zip(after, trees)],
        "case": case,
        "outcome": outcome,
        "after": [{str(k): v for k, v in aft.items()} for aft in after],
        "state": state_record(t),
    }
    return {"recs": [r], "outcome": [outcome], "after": [r["after"]]}


def gen_case(rng, quick=True):
    mode = rng.choice(["dag", "dag", "dag", "dag", "dag", "free", "free", "ill"])
    depth = rng.choice([0, 1, 1, 2, 2, 3, 3])
    max_nodes = rng.choice([3, 4, 5, 6, 8]) if depth else rng.choice([4, 6, 8, 12, 16])
    sg = SpecGen(rng, depth, max_nodes, rng.choice([0.25, 0.4, 0.6]), mode)
    root = sg.graph(0, [])
    if mode == "free":
        add_edges(rng, root, rng.randrange(1, 3), ill=False)
    elif mode == "ill":
        add_edges(rng, root, rng.randrange(1, 4), ill=True)
    if rng.random() < 0.04:  # a graph-typed reference attribute (function bodies may carry them)
        ns = list(walk_nodes(root))
        if ns:
            rng.choice(ns)["attrs"].append([rng.choice(["refg", "refgs"])])
    how = rng.choice(["id", "rev", "shuffle", "shuffle", "swap", "mixed", "mixed"])
    permute(rng, root, how)
    shared = False
    shared_depth = 0
    if rng.random() < 0.07:
        # one Graph object as the value of two attributes (of the same node or of two nodes); preferably a graph
        # at nesting depth >= 2, so that the duplicated part of the universe sits below other subgraphs
        depths = {}

        def rec(g, d):
            depths[g["g"]] = d
            for n in g["nodes"]:
                for a in n["attrs"]:
                    for sg in [a[1]] if a[0] == "g" else (a[1] if a[0] == "gs" else []):
                        rec(sg, d + 1)

        rec(root, 0)
        cands = [sg for n in walk_nodes(root) for a in n["attrs"] if a[0] in ("g", "gs") for sg in ([a[1]] if a[0] == "g" else a[1])]
        deep = [sg for sg in cands if depths[sg["g"]] >= 2]
        if deep and rng.random() < 0.7:
            cands = deep
        if cands:
            gshare = rng.choice(cands)
            inside = {id(x) for x in walk_nodes(gshare)}
            targets = [n for n in walk_nodes(root) if id(n) not in inside]
            t = rng.choice(targets)
            if rng.random() < 0.5:
                t["attrs"].append(["g", gshare])
            else:
                t["attrs"].append(["gs", [gshare] if rng.random() < 0.5 else [gshare, gshare]])
            shared = True
            shared_depth = depths[gshare["g"]]
    entry = rng.choice(["graph", "graph", "graph", "function", "pass", "subgraph"])
    variant = rng.randrange(4)
    steps = []
    if not shared and rng.random() < 0.4:  # stateful: sort, edit the same objects, sort again ...
        steps = [rng.randrange(1 << 30) for _ in range(rng.choice([1, 2, 2, 3, 4]))]
    case = {"spec": root, "mode": mode, "perm": how, "entry": entry, "variant": variant, "sub": rng.randrange(1 << 30), "shared": shared,
            "shared_depth": shared_depth, "steps": steps}
    r = rng.random()
    if r < 0.10:  # some nodes / outputs lose their names before every sort: the sort names them through the authority
        case["inj"] = {"kind": "unnamed", "seed": rng.randrange(1 << 20), "p": rng.choice([0.15, 0.3, 0.6])}
    elif r < 0.16 and not shared:  # an unnamed output whose tensor refuses a name: the sort must be rejected as a whole
        case["inj"] = {"kind": "locked", "seed": rng.randrange(1 << 20), "p": rng.choice([0.0, 0.15, 0.3])}
    if rng.random() < 0.08:  # the sort runs while a Journal records (journaling wrappers around Graph.extend / sort)
        case["journal"] = True
    return case


def gen_nest_case(rng):
    """an already sorted, well-scoped nest with captures: bodies whose nodes use values of enclosing graphs, and
    independent earlier nodes in the enclosing graph (stability: the nest must come back exactly as it was, and a
    shuffled copy must come back in an order that a second sort leaves alone)"""
    sg = SpecGen(rng, rng.choice([1, 2, 2, 3]), rng.choice([3, 4, 5, 6]), rng.choice([0.5, 0.7]), "dag")
    root = sg.graph(0, [])
    how = rng.choice(["id", "id", "id", "swap"])
    permute(rng, root, how)
    case = {"spec": root, "mode": "nest", "perm": how, "entry": rng.choice(["graph", "graph", "function", "pass"]), "variant": rng.randrange(4),
            "sub": rng.randrange(1 << 30), "shared": False, "shared_depth": 0, "steps": []}
    if rng.random() < 0.15:
        case["journal"] = True
    return case


def gen_graphnone_case(rng):
    """invalid stream: a node whose `graph` attribute was set to None while its container still lists it"""
    sg = SpecGen(rng, rng.choice([0, 1, 2]), rng.choice([2, 3, 4]), 0.5, rng.choice(["dag", "dag", "free"]))
    root = sg.graph(0, [])
    if sg.mode == "free":
        add_edges(rng, root, rng.randrange(1, 3), ill=False)
    how = rng.choice(["id", "rev", "shuffle"])
    permute(rng, root, how)
    return {"spec": root, "mode": "graph_none", "perm": how, "entry": rng.choice(["graph", "graph", "function"]), "variant": rng.randrange(4),
            "sub": rng.randrange(1 << 30), "shared": False, "steps": [], "graph_none": rng.randrange(1 << 16)}


def gen_selfnest_case(rng):
    """a graph nested in itself: some node of the tree gets, as a graph attribute, its own graph or a graph
    enclosing it (outside the property's quantifier; the check is that the sort terminates and changes nothing)"""
    sg = SpecGen(rng, rng.choice([0, 1, 2, 2, 3]), rng.choice([2, 3, 4]), 0.6, "dag")
    root = sg.graph(0, [])
    how = rng.choice(["id", "rev", "shuffle"])
    permute(rng, root, how)
    gof, owner, nodes = scope_tables(root)
    n = rng.choice(sorted(nodes))
    chain, g = [], gof[n]
    while g is not None:
        chain.append(g)
        o = owner[g]
        g = gof[o] if o is not None else None
    return {"spec": root, "mode": "selfnest", "perm": how, "entry": rng.choice(["graph", "graph", "function"]), "variant": rng.randrange(4),
            "sub": rng.randrange(1 << 30), "shared": False, "steps": [],
            "selfnest": {"node": n, "graph": rng.choice(chain), "kind": rng.choice(["g", "gs"]), "hops": len(chain)}}


# --------------------------------------------------------------------------- container tracer (stateful model)


class RefusingTensor:
    """a TensorProtocol implementation whose `name` cannot be assigned (read-only property): a value backed by it that
    has no name cannot be named by a graph (`_check_value_can_be_named`)"""

    def __init__(self, name="ro"):
        self._n = name
        self.doc_string = None
        self.metadata_props = {}
        self.meta = {}
        self.raw = None

    @property
    def name(self):
        return self._n

    @property
    def shape(self):
        import onnx_ir as ir

        return ir.Shape([1])

    @property
    def dtype(self):
        import onnx_ir as ir

        return ir.DataType.FLOAT

    @property
    def size(self):
        return 1

    @property
    def nbytes(self):
        return 4

    def numpy(self):
        import numpy as np

        return np.zeros(1, dtype=np.float32)

    def __array__(self, dtype=None, copy=None):
        return self.numpy()

    def tobytes(self):
        return b"\0\0\0\0"


class Tracer:
    """Records every outermost public call on a `DoublyLinkedSet` (the node containers of the graphs) made while
    it is the current tracer: outside a sort as an event of the world's history, inside a sort as an entry of the
    write trace of that sort.  The history is replayed on the stateful Lean models (`sort.state`: C11's pointer-level
    containers, `sortW`; `sort.full`: the same plus node.graph, names and name authorities, `sortF` / `passF`), which
    must reproduce outcome, write trace, every container's sequence and (full) every name, `node.graph` and name
    authority."""

    cur = None
    ID_STRIDE = 100000

    def __init__(self, b):
        self.bs = [] if b is None else [b]
        self.widx = {}  # id(container) -> world index
        self.conts = []  # keeps the containers alive (ids are not reused)
        self.gobj = {}  # world index -> Graph object (when known)
        self.events = []
        self.obs = []
        self.in_sort = False
        self.trace = []
        self.marks = []  # per Graph.sort call inside the traced call: [trace index at entry, at exit, ended normally]
        self.depth = 0
        self.bad = None  # why this history cannot be replayed on the model
        self.vidx = {}  # id(value) -> value id
        self.vobj = []
        self.has_pass = False

    @property
    def b(self):
        return self.bs[0] if self.bs else None

    @b.setter
    def b(self, x):
        if x is not None and all(x is not y for y in self.bs):
            self.bs.append(x)

    def index_of(self, cont, graph=None):
        k = self.widx.get(id(cont))
        if k is None:
            k = self.widx[id(cont)] = len(self.conts)
            self.conts.append(cont)
            self.events.append({"e": "new"})
        if graph is not None:
            self.gobj[k] = graph
        return k

    def gidx(self, graph):
        return None if graph is None else self.index_of(graph._nodes, graph)

    def nid(self, node):
        for j, b in enumerate(self.bs):
            i = b.nid.get(id(node))
            if i is not None:
                return j * self.ID_STRIDE + i
        self.bad = "a node unknown to the harness entered a container"
        return 0

    def vid(self, value):
        k = self.vidx.get(id(value))
        if k is None:
            k = self.vidx[id(value)] = len(self.vobj)
            self.vobj.append(value)
        return k

    def all_nodes(self):
        for j, b in enumerate(self.bs):
            for i, node in sorted(b.node.items()):
                yield j * self.ID_STRIDE + i, node

    def all_graphs(self):
        seen = set()
        for b in self.bs:
            for g in list(b.graph.values()) + list(getattr(b, "extra_graphs", [])):
                if id(g) not in seen:
                    seen.add(id(g))
                    yield g

    def recs_event(self):
        """what the checking phase and the naming step of Graph.sort read, as it is now on the real objects"""
        nodes, vals, seenv = [], [], set()
        for i, node in self.all_nodes():
            nodes.append([i, self.gidx(node.graph), node.name, node.op_type, [self.vid(v) for v in node.outputs]])
            for v in node.outputs:
                if id(v) in seenv:
                    continue
                seenv.add(id(v))
                c = v.const_value
                vals.append([self.vid(v), v.name, None if c is None else [isinstance(c, RefusingTensor), c.name], self.gidx(v.graph)])
        auths = []
        for g in self.all_graphs():
            a = g._name_authority
            auths.append([self.gidx(g), a._value_counter, a._node_counter, sorted(a._value_names), sorted(a._node_names)])
        # the indices may have been assigned just now (new containers): the "new" events precede this one
        return {"e": "recs", "nodes": nodes, "vals": vals, "auths": auths}

    def observe_recs(self, ev):
        nodes = []
        byid = dict(self.all_nodes())
        for rec in ev["nodes"]:
            node = byid[rec[0]]
            nodes.append([rec[0], self.gidx(node.graph), node.name])
        vals = []
        for rec in ev["vals"]:
            v = self.vobj[rec[0]]
            c = v.const_value
            vals.append([rec[0], v.name, None if c is None else c.name])
        auths = []
        for rec in ev["auths"]:
            a = self.gobj[rec[0]]._name_authority
            auths.append([rec[0], a._value_counter, a._node_counter, sorted(a._value_names), sorted(a._node_names)])
        return {"nodes": nodes, "vals": vals, "auths": auths}

    def record(self, cont, code, args, ok):
        k = self.index_of(cont)
        if not ok:
            self.bad = f"container call {code} raised"
            return
        if code == "append":
            ev = {"e": "op", "g": k, "o": "append", "v": self.nid(args[0])}
        elif code == "extend":
            ev = {"e": "op", "g": k, "o": "extend", "vs": [self.nid(n) for n in args[0]]}
        elif code in ("ia", "ib"):
            ev = {"e": "op", "g": k, "o": code, "a": self.nid(args[0]), "vs": [self.nid(n) for n in args[1]]}
        else:
            ev = {"e": "op", "g": k, "o": "rm", "v": self.nid(args[0])}
        if self.in_sort:
            self.trace.append([k, ev["vs"]] if code == "extend" else [k, [code, ev]])
        else:
            self.events.append(ev)


_PATCHED = False


def _patch_containers():
    """wrap the five public editing methods of DoublyLinkedSet (class level, once per process); the wrappers do
    nothing unless a Tracer is current"""
    global _PATCHED
    if _PATCHED:
        return
    _PATCHED = True
    from onnx_ir import _linked_list

    cls = _linked_list.DoublyLinkedSet
    for name, code in (("append", "append"), ("extend", "extend"), ("insert_after", "ia"), ("insert_before", "ib"), ("remove", "rm")):
        orig = getattr(cls, name)

        def wrap(self, *a, _orig=orig, _code=code):
            t = Tracer.cur
            if t is None:
                return _orig(self, *a)
            if t.depth:
                t.depth += 1
                try:
                    return _orig(self, *a)
                finally:
                    t.depth -= 1
            if _code == "extend":
                a = (list(a[0]),)
            elif _code in ("ia", "ib"):
                a = (a[0], list(a[1]))
            t.depth = 1
            ok = False
            try:
                r = _orig(self, *a)
                ok = True
                return r
            finally:
                t.depth = 0
                t.record(self, _code, a, ok)

        wrap.__name__ = name
        setattr(cls, name, wrap)

    from onnx_ir import _core

    orig_sort = _core.Graph.sort

    def sort(self, _orig=orig_sort):
        """marks the part of the write trace that belongs to this Graph.sort call (a pass performs several)"""
        t = Tracer.cur
        if t is None or not t.in_sort:
            return _orig(self)
        m = [len(t.trace), None, False]
        t.marks.append(m)
        try:
            r = _orig(self)
            m[2] = True
            return r
        finally:
            m[1] = len(t.trace)

    sort.__name__ = "sort"
    sort.__doc__ = orig_sort.__doc__
    _core.Graph.sort = sort


def world_tables(b):
    """input producers and graph-valued attributes of every node the harness knows, read off the real objects
    (no recursion: a graph nested in itself is fine here)"""
    ir = b.ir
    t = Tracer.cur
    ins, attrs = [], []
    for nid_, node in t.all_nodes():
        ps = []
        for v in node.inputs:
            p = None if v is None else v.producer()
            ps.append(None if p is None else t.nid(p))
        ins.append([nid_, ps])
        al = []
        for attr in node.attributes.values():
            if not isinstance(attr, ir.Attr) or attr.is_ref() or attr.value is None:
                continue
            if attr.type == ir.AttributeType.GRAPH:
                al.append({"g": t.gidx(attr.value)})
            elif attr.type == ir.AttributeType.GRAPHS:
                al.append({"gs": [t.gidx(g) for g in attr.value]})
        if al:
            attrs.append([nid_, al])
    return {"e": "tables", "ins": ins, "attrs": attrs}


OUTCOME_CODES = {"ok": "ok", "raised": "valueError", "raised:RecursionError": "recursionError",
                 "raised:AssertionError": "assertionError", "raised:AttributeError": "refused"}


def traced_sort(b, case, root):
    """run the real sort; when a tracer is current, log the tables + the records + the sort (or the pass) as events of
    the history and record what the real objects show: outcome, write trace, every container's sequence, node.graph,
    names, name authorities"""
    t = Tracer.cur
    if t is None:
        return run_real(b, case, root)
    k = t.gidx(root)
    is_pass = case["entry"] == "pass"
    pre = {}
    if is_pass:
        pre = prepare_pass(b, case)
    t.events.append(world_tables(b))
    recs = t.recs_event()
    t.events.append(recs)
    t.in_sort, t.trace, t.marks = True, [], []
    try:
        roots, outcome = run_real(b, case, root, pre)
    finally:
        t.in_sort = False
    trace = t.trace
    wellformed = all(not (isinstance(x[1], list) and x[1] and isinstance(x[1][0], str)) for x in trace)
    if is_pass:
        t.has_pass = True
        orders = []
        for m in t.marks:
            o = [x[0] for x in trace[m[0] : m[1]]]
            orders.append(o if (m[2] and wellformed and len(set(o)) == len(o)) else None)
        t.events.append({"e": "pass", "roots": [t.gidx(g) for g in pre["sortables"]], "orders": orders})
    else:
        order = [x[0] for x in trace]
        t.events.append({"e": "sort", "g": k, "order": order if (outcome == "ok" and wellformed and len(set(order)) == len(order)) else None})
    out = OUTCOME_CODES.get(outcome, outcome)
    o = {"out": out, "trace": trace, "after": [[t.nid(n) for n in c] for c in t.conts], "pass": is_pass}
    o.update(t.observe_recs(recs))
    t.obs.append(o)
    return roots, outcome


def prepare_pass(b, case):
    """the model the pass entry point runs on (built before the tables are read, so that its objects are part of the
    traced world): the tree under test as main graph, or as the body of a function next to a trivial main graph"""
    ir = b.ir
    if case["sub"] % 2:
        x = ir.Value(name="main_x")
        new_id = max(b.node) + 1 if b.node else 0
        nmain = ir.Node("", "Id", [x], name="main_n")
        b.nid[id(nmain)] = new_id
        b.node[new_id] = nmain
        main = ir.Graph([x], nmain.outputs, nodes=[nmain], name="main")
        b.extra_graphs.append(main)
        f = ir.Function("d", "f", graph=b.root, attributes=[])
        model = ir.Model(main, ir_version=10, functions=[f])
        sortables = [main, b.root]
    else:
        model = ir.Model(b.root, ir_version=10)
        sortables = [b.root]
    b.keep.append(model)
    return {"model": model, "sortables": sortables}


# --------------------------------------------------------------------------- real objects


class Built:
    """Real onnx_ir objects for a spec.  `variant` changes the allocation order / construction route
    only (never the structure): 0 bottom-up in spec order, 1 bottom-up in reverse creation order
    with junk allocations in between, 2 nodes first and graph attributes attached afterwards,
    3 values and nodes created in shuffled order."""

    def __init__(self, spec, variant=0, seed=0):
        import random

        import onnx_ir as ir

        self.ir = ir
        self.ref_mismatch = False
        self.nid = {}  # id(node obj) -> spec id
        if Tracer.cur is not None:
            Tracer.cur.b = self  # container calls made while the objects are built belong to this history
        self.gidmap = {}  # id(graph obj) -> gid
        self.node = {}  # spec id -> node obj
        self.graph = {}  # gid -> graph obj
        self.keep = []
        self.extra_graphs = []  # graphs created around the spec's graphs (the trivial main graph of a pass case)
        rng = random.Random(seed)
        self.vals = {}
        all_nodes = list(walk_nodes(spec))
        order = list(all_nodes)
        if variant in (1,):
            order.reverse()
        elif variant == 3:
            rng.shuffle(order)
        # phase 1: values
        for n in order:
            if variant in (1, 3):
                self.keep.append([object() for _ in range(rng.randrange(0, 5))])
            for k in range(n["nout"]):
                self.vals[("n", n["i"], k)] = ir.Value(name=f"v{n['i']}_{k}")
        for g in walk_graphs(spec):
            for k in range(g["nin"]):
                self.vals[("gi", g["g"], k)] = ir.Value(name=f"gi{g['g']}_{k}")
        self.variant = variant
        self.rng = rng
        if variant == 2:
            # nodes first (top-down), attributes afterwards
            for n in order:
                self._mk_node(n, with_attrs=False)
            self.root = self._mk_graph_late(spec)
        else:
            if variant in (1, 3):
                # create node objects in the perturbed order; graphs need their nodes, nodes need
                # their attribute graphs: so only leaf nodes can be pre-created out of order
                for n in order:
                    if not any(a[0] in ("g", "gs") for a in n["attrs"]):
                        self.keep.append(bytearray(rng.randrange(1, 64)))
                        self._mk_node(n, with_attrs=True)
            self.root = self._mk_graph(spec)

    def _val(self, ref):
        if ref is None:
            return None
        key = tuple(ref)
        if key not in self.vals:
            self.vals[key] = self.ir.Value(name="free%d" % key[1] if key[0] == "free" else None)
        return self.vals[key]

    def _attrs(self, n):
        ir = self.ir
        res = []
        for j, a in enumerate(n["attrs"]):
            if a[0] == "int":
                res.append(ir.AttrInt64(f"a{j}", j))
            elif a[0] == "g":
                res.append(ir.AttrGraph(f"a{j}", self._mk_graph(a[1])))
            elif a[0] == "gs":
                res.append(ir.AttrGraphs(f"a{j}", [self._mk_graph(sg) for sg in a[1]]))
            elif a[0] in ("refg", "refgs"):
                res.append(ir.RefAttr(f"a{j}", "outer_attr", ir.AttributeType.GRAPH if a[0] == "refg" else ir.AttributeType.GRAPHS))
        return res

    def _mk_node(self, n, with_attrs):
        if n["i"] in self.node:
            return self.node[n["i"]]
        ir = self.ir
        attrs = self._attrs(n) if with_attrs else []
        node = ir.Node(
            "",
            f"Op{n['i']}",
            [self._val(r) for r in n["in"]],
            attrs,
            outputs=[self.vals[("n", n["i"], k)] for k in range(n["nout"])],
            name=f"n{n['i']}",
        )
        self.nid[id(node)] = n["i"]
        self.node[n["i"]] = node
        return node

    def _mk_graph(self, g):
        ir = self.ir
        if g["g"] in self.graph:  # the same Graph object as the value of several attributes
            return self.graph[g["g"]]
        nodes = [self._mk_node(n, with_attrs=True) for n in g["nodes"]]
        outs = []
        for n in g["nodes"][-2:]:
            if n["nout"]:
                outs.append(self.vals[("n", n["i"], 0)])
        gr = ir.Graph(
            [self.vals[("gi", g["g"], k)] for k in range(g["nin"])], outs, nodes=nodes, name=f"g{g['g']}"
        )
        self.gidmap[id(gr)] = g["g"]
        self.graph[g["g"]] = gr
        return gr

    def _mk_graph_late(self, g):
        ir = self.ir
        if g["g"] in self.graph:
            return self.graph[g["g"]]
        for n in g["nodes"]:
            node = self.node[n["i"]]
            for j, a in enumerate(n["attrs"]):
                if a[0] == "int":
                    node.attributes.add(ir.AttrInt64(f"a{j}", j))
                elif a[0] == "g":
                    node.attributes.add(ir.AttrGraph(f"a{j}", self._mk_graph_late(a[1])))
                elif a[0] == "gs":
                    node.attributes.add(ir.AttrGraphs(f"a{j}", [self._mk_graph_late(sg) for sg in a[1]]))
                elif a[0] in ("refg", "refgs"):
                    node.attributes.add(ir.RefAttr(f"a{j}", "outer_attr", ir.AttributeType.GRAPH if a[0] == "refg" else ir.AttributeType.GRAPHS))
        gr = ir.Graph(
            [self.vals[("gi", g["g"], k)] for k in range(g["nin"])],
            [],
            nodes=[self.node[n["i"]] for n in g["nodes"]],
            name=f"g{g['g']}",
        )
        self.gidmap[id(gr)] = g["g"]
        self.graph[g["g"]] = gr
        return gr

    # ---- reading the real objects (everything below looks only at onnx_ir objects)
    def sub_graphs(self, node):
        """attribute graphs of a real node in attribute order; reference attributes skipped by the code's own
        criterion `is_ref()`; that this coincides with "graph-typed attribute without a value" is cross-checked
        (`ref_mismatch`)"""
        ir = self.ir
        res = []
        for attr in node.attributes.values():
            if not isinstance(attr, ir.Attr):
                continue
            if attr.type in (ir.AttributeType.GRAPH, ir.AttributeType.GRAPHS) and attr.is_ref() != (attr.value is None):
                self.ref_mismatch = True
            if attr.is_ref() or attr.value is None:
                continue
            if attr.type == ir.AttributeType.GRAPH:
                res.append(attr.value)
            elif attr.type == ir.AttributeType.GRAPHS:
                res.extend(attr.value)
        return res

    def has_ref_graph_attr(self, graph):
        ir = self.ir
        for node in graph:
            for attr in node.attributes.values():
                if attr.type in (ir.AttributeType.GRAPH, ir.AttributeType.GRAPHS) and attr.value is None:
                    return True
            for sg in self.sub_graphs(node):
                if self.has_ref_graph_attr(sg):
                    return True
        return False

    def encode(self, graph):
        """the model's input, read off the real objects"""

        def enc_node(node):
            ins = []
            for v in node.inputs:
                p = None if v is None else v.producer()
                ins.append(None if p is None else self.nid[id(p)])
            return {"i": self.nid[id(node)], "in": ins, "s": [self.encode(sg) for sg in self.sub_graphs(node)]}

        return {"g": self.gidmap[id(graph)], "n": [enc_node(n) for n in graph]}

    def orders(self):
        return {gid: [self.nid[id(n)] for n in gr] for gid, gr in self.graph.items()}


# --------------------------------------------------------------------------- oracle (property on real objects)


def span_nodes(b: Built, node):
    yield node
    for sg in b.sub_graphs(node):
        for m in sg:
            yield from span_nodes(b, m)


def tree_graphs(b: Built, graph):
    yield graph
    for n in graph:
        for sg in b.sub_graphs(n):
            yield from tree_graphs(b, sg)


def lifted_deps(b: Built, graph):
    """for the real graph: {consumer node: set of same-graph producers of values used by it or nested in it}"""
    deps = {}
    for c in graph:
        s = set()
        for u in span_nodes(b, c):
            for v in u.inputs:
                if v is None:
                    continue
                p = v.producer()
                if p is not None and p.graph is graph:
                    s.add(b.nid[id(p)])
        deps[b.nid[id(c)]] = s
    return deps


def ordered(b: Built, graph):
    """the property's order clause for one graph: every producer strictly before its (lifted) consumer"""
    pos = {b.nid[id(n)]: k for k, n in enumerate(graph)}
    for c, ps in lifted_deps(b, graph).items():
        for p in ps:
            if not pos[p] < pos[c]:
                return (p, c)
    return None


def has_cycle(deps):
    color = {}
    for s in deps:
        if s in color:
            continue
        stack = [(s, iter(deps[s]))]
        color[s] = 1
        while stack:
            x, it = stack[-1]
            for y in it:
                if color.get(y) == 1:
                    return True
                if y not in color and y in deps:
                    color[y] = 1
                    stack.append((y, iter(deps[y])))
                    break
            else:
                color[x] = 2
                stack.pop()
    return False


def well_scoped(b: Built, root):
    """every used value produced inside the sorted tree is produced in the user's graph or an enclosing one"""
    anc = {}  # id(graph) -> set of id(graph) of itself and enclosing graphs (inside the tree)
    inside = set()

    def rec(graph, chain):
        chain = chain | {id(graph)}
        anc[id(graph)] = chain
        for n in graph:
            inside.add(id(n))
            for sg in b.sub_graphs(n):
                rec(sg, chain)

    rec(root, frozenset())
    for graph in tree_graphs(b, root):
        for u in graph:
            for v in u.inputs:
                p = None if v is None else v.producer()
                if p is not None and id(p) in inside and id(p.graph) not in anc[id(graph)]:
                    return False
    return True


def flat_cycle(b: Built, root):
    """cycle in the flat relation Graph.sort uses (producer -> user, nested node -> owner), computed here by DFS"""
    deps = {}
    for graph in tree_graphs(b, root):
        for c in graph:
            s = set()
            for v in c.inputs:
                p = None if v is None else v.producer()
                if p is not None:
                    s.add(b.nid[id(p)])
            for sg in b.sub_graphs(c):
                for m in sg:
                    s.add(b.nid[id(m)])
            deps[b.nid[id(c)]] = s
    return has_cycle(deps)


# --------------------------------------------------------------------------- one case


def pick_root(b: Built, case):
    """the graph object that is sorted in this case (fixed for the whole sequence)"""
    if case["entry"] == "subgraph":
        subs = [g for g in tree_graphs(b, b.root)][1:]
        if subs:
            return subs[case["sub"] % len(subs)]
    return b.root


class heap_spy:
    """while active, the `heapq` name of onnx_ir._core is a recording proxy: per Graph.sort (= per heapify) the queue as
    positions before every heappop, the popped node, the queue after the last call.  Appended to `b.heap_traces`.
    Exceptions of the real functions pass through; an unexpected queue entry is recorded as the string "?"."""

    def __init__(self, b):
        self.b = b

    def __enter__(self):
        import heapq as real

        import onnx_ir._core as core

        b = self.b
        if not hasattr(b, "heap_traces"):
            b.heap_traces = []

        def pos(q):
            try:
                return [-e[0] for e in q]
            except Exception:  # noqa: BLE001
                return "?"

        class Proxy:
            @staticmethod
            def heapify(q):
                r = real.heapify(q)
                b.heap_traces.append({"steps": [], "final": pos(q)})
                return r

            @staticmethod
            def heappop(q):
                before = pos(q)
                e = real.heappop(q)
                if b.heap_traces:
                    try:
                        nid = b.nid.get(id(e[1]), "?")
                    except Exception:  # noqa: BLE001
                        nid = "?"
                    b.heap_traces[-1]["steps"].append({"heap": before, "pop": nid})
                    b.heap_traces[-1]["final"] = pos(q)
                return e

            @staticmethod
            def heappush(q, x):
                r = real.heappush(q, x)
                if b.heap_traces:
                    b.heap_traces[-1]["final"] = pos(q)
                return r

            def __getattr__(self, name):
                return getattr(real, name)

        self.core = core
        self.saved = core.__dict__.get("heapq")
        if self.saved is real:
            core.heapq = Proxy()
        return self

    def __exit__(self, *exc):
        if self.saved is not None and self.core.__dict__.get("heapq") is not self.saved:
            self.core.heapq = self.saved
        return False


def run_real(b: Built, case, root=None, pre=None):
    """call the real sort through the requested entry point; returns (sorted root graph objects, outcome).
    `case["journal"]`: the call is made while a `Journal` records (the journaling wrappers replace Graph.extend,
    Graph.sort ... by recording versions)"""
    import contextlib

    ir = b.ir
    entry = case["entry"]
    roots = [b.root]
    if case.get("journal"):
        from onnx_ir.journaling import Journal

        ctxm = Journal()
    else:
        ctxm = contextlib.nullcontext()
    try:
        with ctxm, heap_spy(b):
            if entry == "graph":
                b.root.sort()
            elif entry == "function":
                f = ir.Function("d", "f", graph=b.root, attributes=[])
                b.keep.append(f)
                f.sort()
            elif entry == "pass":
                from onnx_ir.passes.common.topological_sort import TopologicalSortPass

                if pre is None:
                    pre = prepare_pass(b, case)
                TopologicalSortPass()(pre["model"])
            elif entry == "subgraph":
                roots = [root if root is not None else pick_root(b, case)]
                roots[0].sort()
        return roots, "ok"
    except ValueError:
        return roots, "raised"
    except Exception as e:  # noqa: BLE001
        return roots, "raised:" + type(e).__name__


def name_state(b: Built):
    """everything besides the node orders that a rejected sort must leave alone: node.graph, node / value / tensor names,
    the name authorities (oracle side; independent of the tracer)"""
    st = {"nodes": {}, "vals": {}, "auth": {}}
    extra = {id(g) for g in b.extra_graphs}
    for i, node in b.node.items():
        if id(node.graph) in extra:  # the trivial main graph a pass case is wrapped in
            continue
        st["nodes"][i] = (b.gidmap.get(id(node.graph), "?") if node.graph is not None else None, node.name)
        for k, v in enumerate(node.outputs):
            c = v.const_value
            st["vals"][(i, k)] = (v.name, None if c is None else c.name)
    for gid, g in b.graph.items():
        a = g._name_authority
        st["auth"][gid] = (a._value_counter, a._node_counter, tuple(sorted(a._value_names)), tuple(sorted(a._node_names)))
    return st


_D392 = None


def d392_fixed() -> bool:
    """does the pass under test restore only the graph-likes whose order changed (proposed fix D392)?  Probed once on
    the real code: main graph out of order, a cyclic function, then an ordered function with an unnamed node - fixed iff
    the main graph is put back AND the never-sorted function keeps its unnamed node.  The driver runs the matching
    transcription (`passFD` / `passWD` when fixed, `passF` / `passW` otherwise; C12_state_pass_atomic[_D392],
    C12_passF_refines_passW[_D392]), so applying the fix needs no change of the model.  Any surprise -> False."""
    global _D392
    if _D392 is None:
        try:
            import onnx_ir as ir
            from onnx_ir.passes.common.topological_sort import TopologicalSortPass

            def chain(tag):
                x = ir.Value(name=f"x{tag}")
                a = ir.Node("", "A", [x], name=f"a{tag}")
                b_ = ir.Node("", "B", [a.outputs[0]], name=f"b{tag}")
                return x, a, b_

            x0, a0, b0 = chain(0)
            main = ir.Graph([x0], [b0.outputs[0]], nodes=[b0, a0], name="g0")
            x1, a1, b1 = chain(1)
            a1.replace_input_with(0, b1.outputs[0])
            g1 = ir.Graph([x1], [b1.outputs[0]], nodes=[a1, b1], name="g1")
            x2, a2, b2 = chain(2)
            g2 = ir.Graph([x2], [b2.outputs[0]], nodes=[a2, b2], name="g2")
            a2.name = None
            model = ir.Model(main, ir_version=10, functions=[ir.Function("d", "f1", graph=g1, attributes=[]),
                                                              ir.Function("d", "f2", graph=g2, attributes=[])])
            try:
                TopologicalSortPass()(model)
                _D392 = False
            except ValueError:
                _D392 = a2.name is None and [n.name for n in main] == ["b0", "a0"]
        except Exception:  # noqa: BLE001
            _D392 = False
    return _D392


def only_named(nb, na):
    """the difference between two name states is 'names were assigned': node.graph unchanged, every node / value / tensor
    name that existed is unchanged (name authorities may have advanced)"""
    for i, (g0, nm0) in nb["nodes"].items():
        g1, nm1 = na["nodes"].get(i, ("?", None))
        if g1 != g0 or (nm0 is not None and nm1 != nm0):
            return False
    for key, (nm0, t0) in nb["vals"].items():
        nm1, t1 = na["vals"].get(key, (None, None))
        if (nm0 is not None and nm1 != nm0) or (t0 is not None and t1 != t0):
            return False
    return True


def inject(b: Built, case, step):
    """deliberate edits before a sort (public API only): `unnamed` - some nodes / node outputs lose their names (the sort
    has to name them again through the name authority); `locked` - additionally one unnamed output is backed by a tensor
    that refuses a name: `_check_node_can_be_added` must reject the whole sort before anything is written (fix D89)"""
    import random

    inj = case.get("inj")
    if not inj:
        return None
    rng = random.Random(inj["seed"] * 7919 + step)
    nodes = _uniq(_pre(b, b.root))
    if not nodes:
        return None
    n_un = 0
    for n in nodes:
        if rng.random() < inj.get("p", 0.3):
            n.name = None
            n_un += 1
        for v in n.outputs:
            if rng.random() < inj.get("p", 0.3) and not v.is_initializer():
                v.name = None
                n_un += 1
    locked = 0
    if inj["kind"] == "locked":
        cands = [v for n in nodes for v in n.outputs if not v.is_initializer()]
        if cands:
            v = rng.choice(cands)
            v.name = None
            v.const_value = RefusingTensor(f"ro{step}")
            locked = 1
    return {"unnamed": n_un, "locked": locked}


def _uniq(objs):
    seen, res = set(), []
    for o in objs:
        if id(o) not in seen:
            seen.add(id(o))
            res.append(o)
    return res


def apply_edit(b: Built, seed):
    """one structural edit of the real object tree between two sorts, chosen deterministically from `seed`
    over the tree as it is now (enumerations are in pre-order, hence independent of allocation order).
    None of these edits adds or moves a node of the *sorted* graph unless it says so: dependencies change
    through input edits, through edits inside nested graphs, and through moving nodes."""
    import random

    if isinstance(seed, dict):  # explicit edit (corpus): {"op": "replace", "node": id, "slot": i, "value": ref | None}
        u = b.node[seed["node"]]
        ref = seed.get("value")
        v = None if ref is None else b.node[ref[1]].outputs[ref[2]]
        u.replace_input_with(seed["slot"], v)
        return f"replace_input_with(n{seed['node']}, {seed['slot']})"
    rng = random.Random(seed)
    ir = b.ir
    nodes = _uniq(_pre(b, b.root))
    graphs = _uniq(tree_graphs(b, b.root))
    owner = {}
    for n in nodes:
        for sg in b.sub_graphs(n):
            owner[id(sg)] = n

    def chain(g):
        res = []
        while g is not None and len(res) < 64:
            res.append(g)
            o = owner.get(id(g))
            g = o.graph if o is not None else None
        return res

    def visible_values(u, ill=False):
        ch = {id(g) for g in chain(u.graph)}
        vals = [v for m in nodes if (ill or id(m.graph) in ch) for v in m.outputs]
        for g in chain(u.graph):
            vals += list(g.inputs)
        return vals

    kind = rng.choice(["replace", "replace", "replace", "replace", "resize", "insert", "insert", "move", "swap"])
    if kind == "replace":
        cands = [n for n in nodes if len(n.inputs)]
        if cands:
            u = rng.choice(cands)
            vals = visible_values(u, ill=rng.random() < 0.1)
            v = None if (not vals or rng.random() < 0.1) else rng.choice(vals)
            i = rng.randrange(len(u.inputs))
            u.replace_input_with(i, v)
            return f"replace_input_with(n{b.nid[id(u)]}, {i})"
        kind = "resize"
    if kind == "resize" and nodes:
        u = rng.choice(nodes)
        k = rng.randrange(0, 5)
        u.resize_inputs(k)
        vals = visible_values(u)
        for i in range(k):
            if u.inputs[i] is None and vals and rng.random() < 0.7:
                u.replace_input_with(i, rng.choice(vals))
        return f"resize_inputs(n{b.nid[id(u)]}, {k})"
    if kind == "insert":
        gr = rng.choice(graphs[1:] if len(graphs) > 1 and rng.random() < 0.8 else graphs)
        new_id = max(b.node) + 1 if b.node else 0
        anchor_nodes = list(gr)
        pool = [v for m in anchor_nodes for v in m.outputs]
        for g in chain(gr)[1:]:
            pool += [v for m in g for v in m.outputs]
        ins = [rng.choice(pool) for _ in range(rng.randrange(0, 3))] if pool else []
        node = ir.Node("", f"Op{new_id}", ins, num_outputs=rng.choice([1, 1, 2]), name=f"n{new_id}")
        b.nid[id(node)] = new_id
        b.node[new_id] = node
        if anchor_nodes:
            a = rng.choice(anchor_nodes)
            (gr.insert_before if rng.random() < 0.7 else gr.insert_after)(a, node)
            # some existing node of the graph starts using the new node
            if rng.random() < 0.6:
                c = rng.choice(anchor_nodes)
                if len(c.inputs):
                    c.replace_input_with(rng.randrange(len(c.inputs)), node.outputs[0])
        else:
            gr.append(node)
        return f"insert n{new_id} into g{b.gidmap[id(gr)]}"
    if kind in ("move", "swap") and nodes:
        # (a node with an unnamed output whose tensor refuses a name can be removed but never added again)
        movable = [n for n in nodes if not any(v.name is None and isinstance(v.const_value, RefusingTensor) for v in n.outputs)]
        if not movable:
            return "noop"
        m = rng.choice(movable)
        inside = {id(g) for g in tree_graphs_of_node(b, m)}
        targets = [g for g in graphs if id(g) not in inside]
        if kind == "swap":
            targets = [m.graph]
        tgt = rng.choice(targets)
        src = m.graph
        src.remove(m)
        others = list(tgt)
        if others and rng.random() < 0.7:
            tgt.insert_before(rng.choice(others), m)
        else:
            tgt.append(m)
        return f"move n{b.nid[id(m)]} g{b.gidmap[id(src)]}->g{b.gidmap[id(tgt)]}"
    return "noop"


def tree_graphs_of_node(b: Built, node):
    for sg in b.sub_graphs(node):
        yield from tree_graphs(b, sg)


def do_case(case, part):
    """build the real objects, then sort; for a stateful case keep editing the same objects and sorting again.
    Every sort is compared with the model applied to the structure as it is at that moment, and followed by
    the property oracle.  Returns one record per sort (None when the case ended early).
    Except for the pass entry points, every container call of the whole history (construction, edits, sorts) is
    traced and replayed afterwards on the stateful model (`state` of the first record)."""
    if case["entry"] == "model":
        return do_model_case(case, part)
    _patch_containers()
    t = Tracer(None)
    Tracer.cur = t
    try:
        if case.get("selfnest"):
            return do_selfnest_case(case, part, t)
        b = Built(case["spec"], case["variant"], seed=case["sub"])
        if case.get("graph_none") is not None:
            return do_graphnone_case(case, part, t, b)
        root = pick_root(b, case)
        recs = []
        r = sort_step(b, case, root, part, 0, [])
        if r is None:
            return None
        recs.append(r)
        edits = []
        for k, seed in enumerate(case.get("steps") or [], start=1):
            edits.append(apply_edit(b, seed))
            r = sort_step(b, case, root, part, k, list(edits))
            if r is None:
                break
            recs.append(r)
    finally:
        Tracer.cur = None
    recs[0]["state"] = state_record(t)
    return {"recs": recs, "outcome": [x["outcome"] for x in recs], "after": [x["after"] for x in recs]}


def state_record(t):
    return {"req": {"m": "sort.full", "events": t.events}, "obs": t.obs, "bad": t.bad, "has_pass": t.has_pass}


def do_graphnone_case(case, part, t, b):
    """invalid stream: `node.graph = None` on a node that a container still lists (ownership inconsistent, C01's
    subject): `assert current_node.graph is not None` fails when the node is popped - or the cycle test fails first; either
    way nothing may be written.  Compared with `sortF` (outcome `assertionError`)."""
    ids = sorted(b.node)
    node = b.node[ids[case["graph_none"] % len(ids)]]
    node.graph = None
    before, nbefore = b.orders(), name_state(b)
    _roots, outcome = traced_sort(b, case, b.root)
    after, nafter = b.orders(), name_state(b)
    part.case(
        {"spec": case["spec"], "entry": case["entry"], "graph_none": case["graph_none"]},
        nontrivial=True,
        sample={"graph_none": case["graph_none"], "entry": case["entry"], "outcome": outcome},
        mode="graph_none", entry=case["entry"], graph_none_outcome=outcome,
    )
    sig_entry = {"graph": "Graph.sort", "function": "Function.sort"}[case["entry"]]
    if outcome != "ok" and (after != before or nafter != nbefore):
        part.fail(f"{sig_entry}:node-graph-none:changed", "sort raised on a node without graph but something was written", {"case": case})
    rec = {"kind": "selfnest", "case": case, "outcome": outcome, "after": {str(k): v for k, v in after.items()}, "state": state_record(t)}
    return {"recs": [rec], "outcome": [outcome], "after": [rec["after"]]}


def do_selfnest_case(case, part, t):
    """a graph nested in itself (see gen_selfnest_case): the real sort must return or raise within the time limit
    (the caller's time_limit reports a hang) and must leave every graph's order as it was; the stateful model
    (`C12_self_nested_recursion`) says RecursionError, no write."""
    b = Built(case["spec"], case["variant"], seed=case["sub"])
    sn = case["selfnest"]
    ir = b.ir
    g = b.graph[sn["graph"]]
    b.node[sn["node"]].attributes.add(ir.AttrGraph("self_g", g) if sn["kind"] == "g" else ir.AttrGraphs("self_g", [g]))
    before = b.orders()
    _roots, outcome = traced_sort(b, case, b.root)
    after = b.orders()
    part.case(
        {"spec": case["spec"], "entry": case["entry"], "selfnest": sn},
        nontrivial=True,
        sample={"selfnest": sn, "entry": case["entry"], "outcome": outcome},
        mode="selfnest", entry=case["entry"], selfnest_outcome=outcome, selfnest_hops=min(sn.get("hops", 1), 4),
    )
    sig_entry = {"graph": "Graph.sort", "function": "Function.sort"}[case["entry"]]
    if after != before:
        part.fail(f"{sig_entry}:self-nested:changed", "sort of a graph nested in itself changed some graph's order", {"case": case})
    rec = {"kind": "selfnest", "case": case, "outcome": outcome, "after": {str(k): v for k, v in after.items()},
           "state": state_record(t)}
    return {"recs": [rec], "outcome": [outcome], "after": [rec["after"]]}


def sort_step(b: Built, case, root, part, step, edits):
    """snapshot, encode, run the real sort, evaluate the oracle; returns the model request + observation"""
    spec = case["spec"]
    entry = case["entry"]
    inj_info = inject(b, case, step)
    before = b.orders()
    nbefore = name_state(b)
    req_graph = b.encode(root)
    tree = [b.gidmap[id(g)] for g in tree_graphs(b, root)]
    pre_universe = [[b.nid[id(n)], b.gidmap[id(n.graph)]] for g in [root] for n in _pre(b, g)]
    ws = well_scoped(b, root)
    refg = b.has_ref_graph_attr(root)
    pre_ordered = {b.gidmap[id(g)]: ordered(b, g) is None for g in tree_graphs(b, root)}
    lifted_cyc = any(has_cycle(lifted_deps(b, g)) for g in tree_graphs(b, root))
    flat_cyc = flat_cycle(b, root)
    n_nodes = sum(len(before[g]) for g in tree)
    try:
        impl_universe = [[b.nid[id(n)], b.gidmap[id(n.graph)]] for n in b.ir.traversal.RecursiveGraphIterator(root)]
    except Exception as e:  # noqa: BLE001
        impl_universe = "raised:" + type(e).__name__
    if b.ref_mismatch:
        part.disagree("a graph-typed attribute has is_ref() != (value is None): harness and code skip different attributes", {"case": case})
    # the scenario the property singles out: a producer placed after the control-flow node whose body uses it
    capture_after_owner = 0
    for g in tree_graphs(b, root):
        pos = {id(n): k for k, n in enumerate(g)}
        for c in g:
            for u in span_nodes(b, c):
                if u is c:
                    continue
                for v in u.inputs:
                    p = None if v is None else v.producer()
                    if p is not None and p.graph is g and pos[id(p)] > pos[id(c)]:
                        capture_after_owner += 1
    dupnodes = len({x[0] for x in pre_universe}) != len(pre_universe)  # a shared Graph object with nodes
    if (dupnodes or len(set(tree)) != len(tree)) and not case.get("shared"):
        part.disagree("encoding not well formed (duplicate node or graph id): hypothesis WF of the theorems", {"case": case})
    b.heap_traces = []
    _roots, outcome = traced_sort(b, case, root)
    heap_impl = b.heap_traces[0] if (b.heap_traces and entry != "pass") else None
    after = b.orders()
    nafter = name_state(b)
    canon = {"spec": spec, "entry": entry, "sub": case["sub"] if entry == "subgraph" else 0,
             "steps": (case.get("steps") or [])[:step]}
    if case.get("inj"):
        canon["inj"] = case["inj"]
    if case.get("journal"):
        canon["journal"] = True
    part.case(
        canon,
        nontrivial=n_nodes >= 2,
        sample={"graph": req_graph, "entry": entry, "outcome": outcome},
        mode=case["mode"],
        perm=case["perm"],
        entry=entry,
        depth=_depth(spec),
        nodes=min(n_nodes, 20) // 4 * 4,
        outcome=outcome.split(":")[0],
        wellscoped=ws,
        preordered=all(pre_ordered.values()),
        shared_graph=("nodes-twice" if dupnodes else ("empty" if len(set(tree)) != len(tree) else "no")),
        shared_depth=(min(case.get("shared_depth", 0), 3) if case.get("shared") else "n/a"),
        fixpoint_clause=("checked" if ws and outcome == "ok" and any(pre_ordered.values()) else "n/a"),
        step=step,
        capture_after_owner=min(capture_after_owner, 3),
        journal=bool(case.get("journal")),
        inj=(case["inj"]["kind"] if case.get("inj") else "none"),
        inj_unnamed=(min(inj_info["unnamed"], 4) if inj_info else 0),
        inj_locked=(inj_info["locked"] if inj_info else 0),
    )
    if edits:
        part.count("edit=" + edits[-1].split("(")[0].split(" ")[0])
    rec = {"case": case, "step": step, "edits": edits}
    sig_entry = {"graph": "Graph.sort", "function": "Function.sort", "pass": "TopologicalSortPass", "subgraph": "Graph.sort(subgraph)"}[entry]

    # ---- oracle
    has_locked = any(
        v.name is None and isinstance(v.const_value, RefusingTensor) for n in _uniq(_pre(b, root)) for v in n.outputs
    )
    if outcome == "raised:AttributeError" and has_locked:
        # a node that cannot be re-added (unnamed output whose tensor refuses a name): the checking phase of fix D89
        # rejects the whole sort; NOTHING may have been written: orders, node.graph, names, name authorities
        if after != before:
            part.fail(f"{sig_entry}:refused:order-changed", "sort rejected a node that cannot be re-added but some graph's order changed", rec)
        if entry == "pass" and (flat_cyc or lifted_cyc):
            # D392: the pass met a CYCLE (ValueError; nothing of this nest was sorted) and its restore loop
            # `graph_like.extend(original_nodes)` re-extended the never-sorted graphs: it was itself rejected at the graph
            # holding the refusing tensor - the caller sees AttributeError instead of the ValueError the property promises
            part.fail(f"{sig_entry}:cycle:raises-AttributeError",
                      "the dependencies contain a cycle but the pass raised AttributeError (restore loop re-extends never-sorted graphs) instead of ValueError", rec)
            if nafter != nbefore:
                part.fail(f"{sig_entry}:cycle:restore-loop-names-assigned",
                          "cycle: the restore loop of the pass assigned names in graphs that were never sorted", rec)
        elif nafter != nbefore:
            part.fail(f"{sig_entry}:refused:names-changed", "sort rejected a node that cannot be re-added but names / node.graph / a name authority changed", rec)
        return {"kind": "refused", "case": case if step == 0 else dict(case, at_step=step, edits=edits), "outcome": outcome,
                "after": {str(k): v for k, v in after.items()}}
    if refg:
        # graph-typed reference attribute: the unfixed traversal iterated `None` (D46, fixed by 31ed6b5)
        if outcome.startswith("raised:"):
            part.fail(f"{sig_entry}:ref-graph-attr:{outcome[7:]}", "sort raises on a reference attribute of graph type", rec)
            if after != before:
                part.fail(f"{sig_entry}:ref-graph-attr:changed", "order changed although sort raised", rec)
            return None
    if outcome.startswith("raised:"):
        part.fail(f"{sig_entry}:raises-{outcome[7:]}", f"sort raised {outcome[7:]} (only ValueError on a cycle is allowed)", rec)
        return None
    if outcome == "ok" and has_locked and entry != "subgraph":
        part.fail(f"{sig_entry}:locked-not-refused", "an unnamed output backed by a tensor that refuses a name was accepted", rec)
    # node.graph never changes; a node / value that had a name keeps it
    for i, (g0, nm0) in nbefore["nodes"].items():
        g1, nm1 = nafter["nodes"].get(i, (None, None))
        if g1 != g0:
            part.fail(f"{sig_entry}:node-graph-changed", "sort changed node.graph", rec)
            break
        if nm0 is not None and nm1 != nm0:
            part.fail(f"{sig_entry}:node-renamed", "sort changed the name of a named node", rec)
            break
    for key, (nm0, _t0) in nbefore["vals"].items():
        if nm0 is not None and nafter["vals"].get(key, (None, None))[0] != nm0:
            part.fail(f"{sig_entry}:value-renamed", "sort changed the name of a named value", rec)
            break
    if outcome == "raised" and nafter != nbefore:
        if entry == "pass" and only_named(nbefore, nafter):
            # D392: the nest has a cycle, so none of its graphs was sorted; the restore loop of the pass re-extends them all
            # the same and thereby names their unnamed nodes / outputs: a cycle does not leave everything unchanged
            part.fail(f"{sig_entry}:cycle:restore-loop-names-assigned",
                      "cycle: ValueError raised but the restore loop of the pass assigned names in graphs that were never sorted", rec)
        else:
            part.fail(f"{sig_entry}:cycle-names-changed", "ValueError raised but names / a name authority changed", rec)
    if outcome == "ok":
        for n in _uniq(_pre(b, root)):
            if n.name is None or any(v.name is None for v in n.outputs):
                part.fail(f"{sig_entry}:unnamed-after-sort", "a node or node output of the sorted nest has no name after a successful sort", rec)
                break
    # each graph keeps exactly its own nodes (graphs outside the sorted tree: untouched)
    for gid in before:
        if gid in tree:
            if sorted(before[gid]) != sorted(after[gid]) or len(set(after[gid])) != len(after[gid]):
                part.fail(f"{sig_entry}:nodes-moved", "a graph does not keep exactly its own nodes", rec)
        elif before[gid] != after[gid]:
            part.fail(f"{sig_entry}:outside-changed", "a graph outside the sorted tree changed", rec)
    for nid_, node in b.node.items():  # node.graph still names the graph whose list holds the node
        gobj = node.graph
        if gobj is not None and any(gobj is g for g in b.extra_graphs):
            continue
        if gobj is None or b.nid[id(node)] not in after.get(b.gidmap.get(id(gobj), -1), []):
            part.fail(f"{sig_entry}:node-graph-mismatch", "node.graph does not name the graph that lists the node", rec)
            break
    if outcome == "raised":
        if after != before:
            part.fail(f"{sig_entry}:cycle-changed", "ValueError raised but some graph's order changed", rec)
        if dupnodes:
            pass  # a shared Graph object: outside the property's quantifier; model (C12_shared_raises) says raise
        elif not flat_cyc:
            part.fail(f"{sig_entry}:raise-without-cycle", "ValueError although the dependencies have no cycle", rec)
        elif ws and not lifted_cyc:
            part.fail(f"{sig_entry}:raise-without-cycle-ws", "ValueError on a well-scoped graph whose per-graph dependencies are acyclic", rec)
    else:
        if lifted_cyc or flat_cyc:
            part.fail(f"{sig_entry}:cycle-not-raised", "dependencies contain a cycle but sort returned", rec)
        for g in tree_graphs(b, root):
            bad = ordered(b, g)
            if bad is not None:
                part.fail(f"{sig_entry}:producer-after-consumer", f"producer {bad[0]} not before consumer {bad[1]}", rec)
                break
        if ws:
            for g in tree_graphs(b, root):
                gid = b.gidmap[id(g)]
                if pre_ordered[gid] and after[gid] != before[gid]:
                    part.fail(f"{sig_entry}:ordered-graph-changed", f"graph {gid} was already ordered but changed", rec)
                    break
        # sorting again changes nothing (the result is in order)
        _r2, outcome2 = traced_sort(b, case, root)
        if outcome2 != "ok" or (ws and b.orders() != after):
            part.fail(f"{sig_entry}:not-idempotent", "second sort changed the order or raised", rec)
    return {
        "req": {"m": "sort.sort", "graph": req_graph},
        "ureq": {"m": "sort.universe", "graph": req_graph},
        "hreq": {"m": "sort.hyp", "graph": req_graph},
        "treq": {"m": "sort.heaptrace", "graph": req_graph},
        "heap_impl": heap_impl,
        # (for a shared Graph object "enclosing graph" is ambiguous: the hypotheses are not compared there)
        "impl_hyp": None if case.get("shared") else {"ws": ws, "ordered": [[gid, pre_ordered[gid]] for gid in tree]},
        "impl": "raised" if outcome == "raised" else [[g, after[g]] for g in tree],
        "impl_after": [[g, after[g]] for g in tree],
        "impl_universe": impl_universe,
        "pre_universe": pre_universe,
        # hypothesis `hroot` of C12_ids_shared_raises / C12_ids_equivariant, on the real objects
        "dup_root": any(sum(1 for x in pre_universe if x[0] == i) != 1 for i in before[b.gidmap[id(root)]]),
        "case": case if step == 0 else dict(case, at_step=step, edits=edits),
        "outcome": outcome,
        "after": {str(k): v for k, v in after.items()},
    }


def _pre(b, graph):
    for n in graph:
        yield n
        for sg in b.sub_graphs(n):
            yield from _pre(b, sg)


def _depth(spec):
    def d(g):
        m = 0
        for n in g["nodes"]:
            for a in n["attrs"]:
                for sg in [a[1]] if a[0] == "g" else (a[1] if a[0] == "gs" else []):
                    m = max(m, 1 + d(sg))
        return m

    return d(spec)


class _Hang(BaseException):
    pass


class time_limit:
    """a real-code call that does not return within `sec` seconds of CPU time (e.g. a corrupted node chain that is
    iterated forever) is reported instead of hanging the check"""

    def __init__(self, sec):
        self.sec = sec

    def _raise(self, *_a):
        raise _Hang()

    def __enter__(self):
        import signal

        # CPU time of this process (user + system), not wall-clock: a loaded machine must not look like a hang
        self.old = signal.signal(signal.SIGPROF, self._raise)
        signal.setitimer(signal.ITIMER_PROF, self.sec)

    def __exit__(self, *exc):
        import signal

        signal.setitimer(signal.ITIMER_PROF, 0)
        signal.signal(signal.SIGPROF, self.old)
        return False


def _chunk(args):
    cases, budget = args
    gc.collect()
    part = Part()
    out = []
    hangs = 0
    import time as _time

    t_end = _time.process_time() + budget  # CPU seconds of this worker
    for case in cases:
        if hangs >= 2:  # a non-terminating sort: reported twice already, do not spend the budget on more
            break
        if _time.process_time() > t_end:  # pathological slowdown of the real code: keep the check bounded
            part.count("cases_skipped_time_budget", 1)
            continue
        try:
            try:
                with time_limit(30):
                    r = do_case(case, part)
            except _Hang:  # retry once with a long limit: a loaded machine must not produce a finding
                part.count("hang_retries", 1)
                pr = Part()
                with time_limit(150):
                    r = do_case(case, pr)
                for f in pr["failures"]:  # findings of the retried run are kept
                    part.fail(**f)
                for d in pr["disagreements"]:
                    part.disagree(**d)
        except _Hang:
            hangs += 1
            part.fail("sort:hang", "the real sort (or iterating its result) did not return within 150 s of CPU time", {"case": case})
            r = None
        except Exception as e:  # noqa: BLE001  harness problem on this case: report as disagreement-like info
            import traceback

            part.disagree("harness error " + type(e).__name__ + ": " + traceback.format_exc()[-400:], {"case": case})
            r = None
        if r is not None:
            # determinism: an isomorphic object graph built in a different allocation order
            case2 = dict(case, variant=(case["variant"] + 1 + case["sub"] % 3) % 4)
            p2 = Part()
            try:
                with time_limit(150):
                    r2 = do_case(case2, p2)
            except _Hang:
                r2 = None
                part.fail("sort:hang", "the real sort of the re-allocated object graph did not return within 150 s of CPU time", {"case": case2})
            except Exception as e:  # noqa: BLE001
                import traceback

                r2 = None
                part.disagree("harness error in the allocation-variant run " + type(e).__name__ + ": " + traceback.format_exc()[-400:], {"case": case2})
            if r2 is None and not p2["failures"]:
                part.disagree("allocation-variant run ended early although the first run did not", {"case": case2})
            if r2 is not None and (r2["outcome"] != r["outcome"] or r2["after"] != r["after"]):
                part.fail(
                    "determinism:allocation-order",
                    "two isomorphic object graphs built in different allocation orders sort differently",
                    {"case": case, "variant2": case2["variant"]},
                )
            out.extend(r["recs"])
    return part, out


def check_cases(ctx: Ctx, cases: list) -> None:
    import onnx_ir  # noqa: F401  (import before forking the workers)
    import onnx_ir.passes.common.topological_sort  # noqa: F401

    k = max(1, min(400, (len(cases) + 15) // 16))
    chunks = [(cases[i : i + k], ctx.pick(120, 600)) for i in range(0, len(cases), k)]
    results = pmap(_chunk, chunks)
    recs, mrecs, srecs = [], [], []
    for part, out in results:
        ctx.merge(part)
        recs += [r for r in out if r.get("kind") is None]
        mrecs += [r for r in out if r.get("kind") == "model"]
        srecs += [r for r in out if r.get("state") is not None]
    skipped = ctx.dist.get("cases_skipped_time_budget", 0)
    newly_skipped = skipped - ctx.extra.get("cases_skipped_time_budget", 0)  # (ctx.dist is cumulative over the blocks)
    ctx.extra["cases_skipped_time_budget"] = skipped
    ctx.extra["hang_retries"] = ctx.dist.get("hang_retries", 0)
    if newly_skipped:
        ctx.notes.append(f"{newly_skipped} generated cases were NOT run: per-chunk time budget exhausted (pathologically slow real code or overloaded machine)")
    for r, o in zip(mrecs, lean_batch_parallel([r["req"] for r in mrecs])):
        # TopologicalSortPass on main graph + functions vs `passEffect` (model of call() with fix D201)
        if o.get("raised") != r["impl_raised"]:
            ctx.disagree("sort.pass: raised-vs-ok differs", r["case"], o.get("raised"), r["impl_raised"])
        elif o.get("after") != r["impl_after"]:
            what = "sort.pass: node orders after the pass differ (passEffect)"
            if r["impl_raised"] and o.get("partial") == r["impl_after"]:
                what += " — the pass is not atomic: graphs sorted before the failing one keep their new order (D201 regressed)"
            ctx.disagree(what, r["case"], o.get("after"), r["impl_after"])
    check_state(ctx, srecs)
    check_full(ctx, srecs)
    reqs = [r["req"] for r in recs] + [r["ureq"] for r in recs] + [r["hreq"] for r in recs] + [r["treq"] for r in recs]
    outs = lean_batch_parallel(reqs)
    n = len(recs)
    for r, to in zip(recs, outs[3 * n :]):
        # the real priority queue (positions, in heapq's list layout) before every heappop, the popped node, the queue
        # at the end of the loop  vs  the Kahn loop on the transcribed binary heap (Model/SortHeap.lean)
        hi = r.get("heap_impl")
        if hi is None:
            ctx.count("heap_trace=" + ("n/a:pass-entry" if r["case"].get("entry") == "pass" else "unobserved"))
            continue
        ctx.count("heap_trace=compared")
        ctx.count("heap_trace_pops=" + str(min(len(hi["steps"]), 16) // 4 * 4))
        msteps = [{"heap": x.get("heap"), "pop": x.get("pop")} for x in (to.get("steps") or [])]

        def content(steps, final):
            # what C12_heap_kahn_refines is about: which positions are queued before every pop, which node is popped
            try:
                return [(sorted(x["heap"]), x["pop"]) for x in steps], sorted(final)
            except Exception:  # noqa: BLE001
                return None

        if content(msteps, to.get("final") or []) != content(hi["steps"], hi["final"]):
            ctx.disagree("sort.heaptrace: queued positions before a heappop / popped node / final queue differ (kahnHeap != Graph.sort's heapq calls)",
                         r["case"], {"steps": msteps, "final": to.get("final")}, hi)
        elif msteps != hi["steps"] or to.get("final") != hi["final"]:
            # same queue contents and pops but another list layout (e.g. a sorted list used as a heap): behaviour-preserving,
            # the layout of heapq itself is compared in heap_cases
            ctx.count("heap_trace_layout=differs")
        elif not to.get("same"):
            ctx.disagree("sort.heaptrace: traced loop != kahnHeap", r["case"], to, hi)
        for x in to.get("steps") or []:
            if not x.get("inv"):
                ctx.disagree("sort.heaptrace: heap invariant false on a queue of the model (contradicts C12_heap_kahn_refines)", r["case"], x, None)
                break
    for r, ho in zip(recs, outs[2 * n :]):
        # the hypotheses of C12_fixpoint* as defined in Lean vs the oracle's own reading on the real objects
        if r["impl_hyp"] is not None and {"ws": ho.get("ws"), "ordered": ho.get("ordered")} != r["impl_hyp"]:
            ctx.disagree("sort.hyp: WellScoped/OrderedG (Lean) != oracle's reading", r["case"], ho, r["impl_hyp"])
    for r, o, uo in zip(recs, outs[:n], outs[n : 2 * n]):
        model = o.get("r", o)
        if model != r["impl"]:
            ctx.disagree("sort.sort: model != Graph.sort", r["case"], model, r["impl"])
        if o.get("after") != r["impl_after"]:
            ctx.disagree("sort.sort: node orders after the call differ (sortEffect)", r["case"], o.get("after"), r["impl_after"])
        if o.get("ids") != r["impl"]:
            # the transcription with identity-keyed dicts and a universe that may list a node twice (sortIds)
            ctx.disagree("sort.sort: identity-keyed transcription (sortIds) != Graph.sort", r["case"], o.get("ids"), r["impl"])
        if o.get("heap") != r["impl"]:
            # the same loop with the priority queue as heapq's binary heap (sortHeap; = sortIds by C12_heap_kahn_refines)
            ctx.disagree("sort.sort: transcription with the binary heap (sortHeap) != Graph.sort", r["case"], o.get("heap"), r["impl"])
        if r.get("dup_root") is not None:
            ctx.count("ids_hyp_root_nodes_listed_once=" + str(not r["dup_root"]))
        mu = uo.get("r", uo)
        if mu != r["impl_universe"] and not isinstance(r["impl_universe"], str):
            ctx.disagree("sort.universe: model != RecursiveGraphIterator", r["case"], mu, r["impl_universe"])
        if mu != r["pre_universe"]:
            ctx.disagree("sort.universe: model != harness pre-order", r["case"], mu, r["pre_universe"])


def check_state(ctx: Ctx, srecs: list) -> None:
    """whole histories (construction, edits, sorts: every public call on a node container, as traced on the real
    objects) replayed on the stateful model `sortW` over C11's pointer-level containers: per sort the outcome, the
    write trace (which container received which `extend`, in the order the code performed them) and the node
    sequence of EVERY container of the world afterwards must coincide; the hypotheses of `C12_state_sort`
    (containers satisfy C11's invariant, re-link order is an arrangement of the keys) are evaluated per sort"""
    good = [r for r in srecs if not r["state"]["bad"] and not r["state"]["has_pass"]
            and all(x["out"] in ("ok", "valueError", "recursionError") for x in r["state"]["obs"])]
    for r in srecs:
        if r["state"]["bad"]:
            ctx.count("state_history_not_replayable")
            if len(ctx.notes) < 5:
                ctx.notes.append("stateful history not replayed: " + r["state"]["bad"])
    # the container-level model: the same history without the records of nodes / values / name authorities
    outs = lean_batch_parallel([{"m": "sort.state", "events": [e for e in r["state"]["req"]["events"] if e["e"] != "recs"]} for r in good])
    for r, o in zip(good, outs):
        obs, sorts = r["state"]["obs"], o.get("sorts")
        ctx.count("state_histories")
        if sorts is None or len(sorts) != len(obs):
            ctx.disagree("sort.state: number of sorts differs / driver error", r["case"], o, len(obs))
            continue
        for i, (m, x) in enumerate(zip(sorts, obs)):
            ctx.count("state_sorts")
            ctx.count("state_out=" + str(x["out"]))
            ctx.count("state_hyp_containers_wf=" + str(m.get("inv")))
            ctx.count("state_hyp_order_is_arrangement=" + str(m.get("order_ok")))
            case = dict(r["case"], state_sort=i)
            if m.get("out") != x["out"]:
                ctx.disagree("sort.state: outcome differs (sortW)", case, m.get("out"), x["out"])
            elif (m.get("trace") != x["trace"]) if m.get("order_ok") else (sorted(m.get("trace")) != sorted(x["trace"])):
                what = "sort.state: write trace differs (which container is extended with what)"
                if x["out"] != "ok" and x["trace"]:
                    what += " - the real sort wrote to a container although it raised"
                ctx.disagree(what, case, m.get("trace"), x["trace"])
            elif not m.get("order_ok"):
                ctx.disagree("sort.state: the graphs the real sort re-linked are not the keys of the model", case, m.get("keys"), [t[0] for t in x["trace"]])
            if m.get("after") != x["after"]:
                ctx.disagree("sort.state: node sequence of some container after the sort differs", case, m.get("after"), x["after"])
            if not m.get("inv"):
                ctx.disagree("sort.state: a container of the model violates C11's representation invariant", case, False, True)


def check_full(ctx: Ctx, srecs: list) -> None:
    """whole histories replayed on the FULL stateful model (`sortF` / `passF`: containers at pointer level + node.graph,
    node / value / tensor names, name authorities, the checking phase of fix D89): per sort or pass the outcome (incl.
    `refused`, `assertionError`), the write trace, every container's sequence, node.graph and name of every node, name
    of every node output and of its backing tensor, counters and name sets of every name authority must coincide.
    Hypotheses evaluated and published: `Consistent` (C12_full_refines_state), `passHypB` (C12_state_pass_atomic)."""
    good = [r for r in srecs if not r["state"]["bad"]]
    fixed = d392_fixed()
    ctx.extra["d392_probe"] = "restore-only-changed (passFD/passWD)" if fixed else "restore-all (passF/passW)"
    outs = lean_batch_parallel([dict(r["state"]["req"], d392=fixed) for r in good])
    for r, o in zip(good, outs):
        obs, sorts = r["state"]["obs"], o.get("sorts")
        ctx.count("full_histories")
        if sorts is None or len(sorts) != len(obs):
            ctx.disagree("sort.full: number of sorts differs / driver error", r["case"], str(o)[:300], len(obs))
            continue
        for i, (m, x) in enumerate(zip(sorts, obs)):
            kind = "pass" if x["pass"] else "sort"
            ctx.count(f"full_{kind}s")
            ctx.count(f"full_{kind}_out=" + str(x["out"]))
            if x["pass"]:
                ctx.count("full_hyp_pass_hyp=" + str(m.get("pass_hyp")))
                # hypotheses of C12_passF_refines_passW (node.graph = listing container at every sort of the pass) and of
                # C12_pass_success_sorted (no later sort writes a container of an earlier graph-like's tree)
                ctx.count("full_hyp_pass_cons=" + str(m.get("pass_cons")))
                ctx.count("full_hyp_pass_disj=" + str(m.get("pass_disj")))
                ctx.count("full_pass_restored_graph_likes=" + str(min(len(m.get("gls") or []), 6) if x["out"] == "valueError" else "n/a"))
            else:
                ctx.count("full_hyp_consistent=" + str(m.get("consistent")))
            ctx.count("full_hyp_order_is_arrangement=" + str(m.get("order_ok")))
            case = dict(r["case"], full_sort=i)
            if m.get("out") != x["out"]:
                ctx.disagree(f"sort.full: outcome of the {kind} differs (sortF / passF)", case, m.get("out"), x["out"])
                continue
            if m.get("out") == "late":
                ctx.disagree("sort.full: the model ended `late` (excluded by C12_full_no_late)", case, "late", x["out"])
            mt, xt = m.get("trace"), x["trace"]
            if (mt != xt) if m.get("order_ok") else (sorted(mt) != sorted(xt)):
                what = f"sort.full: write trace of the {kind} differs (which container is extended with what)"
                if x["out"] not in ("ok",) and not x["pass"] and xt:
                    what += " - the real sort wrote to a container although it raised"
                ctx.disagree(what, case, mt, xt)
            if m.get("after") != x["after"]:
                ctx.disagree(f"sort.full: node sequence of some container after the {kind} differs", case, m.get("after"), x["after"])
            for key, what in (("nodes", "node.graph / node.name"), ("vals", "name of a node output / of its backing tensor"),
                              ("auths", "a name authority (counters, name sets)")):
                if m.get(key) != x[key]:
                    bad = [(a, b_) for a, b_ in zip(m.get(key) or [], x[key]) if a != b_][:3]
                    ctx.disagree(f"sort.full: {what} after the {kind} differs", case, bad, None)
            if not m.get("inv"):
                ctx.disagree("sort.full: a container of the model violates C11's representation invariant", case, False, True)
            if x["pass"]:
                # the container-level pass model the theorem C12_state_pass_atomic is about, on the same history
                if m.get("out") in ("ok", "valueError", "recursionError"):
                    if m.get("w_out") != m.get("out") or m.get("w_after") != x["after"] or m.get("w_trace") != mt:
                        ctx.disagree("sort.full: passW (containers only) differs from the real pass", case,
                                     [m.get("w_out"), m.get("w_after")], [x["out"], x["after"]])
                    ctx.count("full_passW_compared")
                elif m.get("pass_cons") and m.get("out") == "refused":
                    # C12_passF_refines_passW: the writes of a refused pass are a prefix of passW's
                    wt = m.get("w_trace") or []
                    if mt != wt[: len(mt)]:
                        ctx.disagree("sort.full: writes of the refused passF are not a prefix of passW's (contradicts C12_passF_refines_passW)", case, mt, wt)
                    ctx.count("full_pass_refused_prefix_checked")
            elif m.get("consistent") and m.get("out") in ("ok", "valueError", "recursionError") and m.get("sw_out") != m.get("out"):
                ctx.disagree("sort.full: sortW differs from sortF on a consistent world (C12_full_refines_state)", case, m.get("sw_out"), m.get("out"))


def heap_cases(ctx: Ctx) -> None:
    """`heapq.heapify / heappush / heappop` vs the transcription `Model/Heap.lean` on distinct keys (what Graph.sort feeds
    it: one entry per node, keyed by the negative position): the list after every operation, every popped key; the
    heap invariant is evaluated on the model's list after every operation (hypothesis of C12_heappop_min_partial) and
    the oracle checks on the real list that every pop returns the minimum"""
    import heapq

    reqs, impls, cases = [], [], []
    for _ in range(ctx.pick(300, 3000)):
        n = ctx.rng.randrange(0, 24)
        dup = ctx.rng.random() < 0.3  # (the theorems do not need distinct keys: C12_heap_invariant / _extract_min)
        keys = [ctx.rng.randrange(12) for _ in range(n)] if dup else ctx.rng.sample(range(64), n)
        k0 = ctx.rng.randrange(0, n + 1)
        init, rest = keys[:k0], keys[k0:]
        ops, h = [], list(init)
        heapq.heapify(h)
        steps = []
        impl0 = list(h)
        case = {"heap": {"init": init, "ops": ops}}
        while rest or h:
            if rest and (not h or ctx.rng.random() < 0.5):
                x = rest.pop()
                heapq.heappush(h, x)
                ops.append(["push", x])
                steps.append({"heap": list(h)})
            else:
                m = min(h)
                x = heapq.heappop(h)
                if x != m:
                    ctx.fail("heapq.heappop:not-min", "heappop did not return the smallest key", case)
                ops.append(["pop"])
                steps.append({"heap": list(h), "pop": x})
        if ctx.rng.random() < 0.3:
            ops.append(["pop"])  # pop from the empty heap: IndexError
            steps.append({"heap": [], "pop": None})
        reqs.append({"m": "sort.heap", "init": init, "ops": ops})
        impls.append((impl0, steps))
        cases.append(case)
    outs = lean_batch_parallel(reqs)
    for case, (impl0, steps), out in zip(cases, impls, outs):
        ks = case["heap"]["init"] + [o[1] for o in case["heap"]["ops"] if o[0] == "push"]
        ctx.case(case, nontrivial=len(case["heap"]["ops"]) > 1, fn="heap", heap_ops=min(len(case["heap"]["ops"]), 40) // 8 * 8,
                 heap_keys=("repeated" if len(set(ks)) != len(ks) else "distinct"))
        if out.get("heap0") != impl0:
            ctx.disagree("sort.heap: heapify differs", case, out.get("heap0"), impl0)
        ipops = [x["pop"] for x in steps if "pop" in x]
        if out.get("pops") != ipops:
            ctx.disagree("sort.heap: runHeap (popped keys of the whole sequence) != heapq", case, out.get("pops"), ipops)
        if out.get("abs") != ipops:
            # C12_heap_extract_min: the abstract priority queue (remove one smallest key) answers alike
            ctx.disagree("sort.heap: runAbs (abstract priority queue) != heapq", case, out.get("abs"), ipops)
        ms = out.get("steps") or []
        if len(ms) != len(steps):
            ctx.disagree("sort.heap: number of steps differs / driver error", case, str(out)[:200], len(steps))
            continue
        for m, x in zip(ms, steps):
            if m.get("heap") != x["heap"] or ("pop" in x and m.get("pop") != x["pop"]):
                ctx.disagree("sort.heap: list after the operation / popped key differs", case, m, x)
                break
            ctx.count("heap_hyp_invariant=" + str(m.get("inv")))
            if "pop" in x and x["pop"] is not None and m.get("min") != x["pop"]:
                ctx.disagree("sort.heap: the popped key is not the minimum of the model's list", case, m, x)


def exhaustive_small(ctx: Ctx) -> list:
    """all single-graph dependency structures on <= k nodes (each node: subset of the other nodes'
    outputs as inputs, self-loops included) in the given order, plus one-level nesting shapes"""
    cases = []
    k = ctx.pick(3, 4)
    for n in range(1, k + 1):
        pairs = [(a, c) for a in range(n) for c in range(n)]
        for mask in range(1 << len(pairs)):
            nodes = [{"i": i, "nout": 1, "in": [], "attrs": []} for i in range(n)]
            for b_, (a, c) in enumerate(pairs):
                if mask >> b_ & 1:
                    nodes[c]["in"].append(["n", a, 0])
            spec = {"g": 0, "nin": 0, "nodes": nodes}
            cases.append({"spec": spec, "mode": "exh", "perm": "id", "entry": "graph", "variant": 0, "sub": mask})
    ctx.exhaustive_scopes.append(f"single graph: every dependency relation (self-loops included) on <= {k} nodes")
    # one level of nesting: outer nodes a,b (b owns a body with x,y); every subset of the visible-by-scope uses
    outer = [0, 1]
    inner = [2, 3]
    uses = [(p, c) for p in outer + inner for c in inner] + [(0, 1), (1, 0)]
    for first in (0, 1):
        for mask in range(1 << len(uses)):
            nd = {i: {"i": i, "nout": 1, "in": [], "attrs": []} for i in outer + inner}
            for b_, (p, c) in enumerate(uses):
                if mask >> b_ & 1:
                    nd[c]["in"].append(["n", p, 0])
            nd[1]["attrs"] = [["g", {"g": 1, "nin": 0, "nodes": [nd[2], nd[3]]}]]
            spec = {"g": 0, "nin": 0, "nodes": [nd[0], nd[1]] if first == 0 else [nd[1], nd[0]]}
            cases.append({"spec": spec, "mode": "exh-nest", "perm": "id", "entry": "graph", "variant": 0, "sub": mask})
    ctx.exhaustive_scopes.append("two outer nodes, the second owning a two-node body: every set of scope-visible uses, both outer orders")
    return cases


def relink_cases(ctx: Ctx) -> None:
    """`Graph.extend` with nodes the graph already holds (what step 5 of Graph.sort does) vs `relink`:
    arbitrary selections with repeats, not only permutations"""
    import onnx_ir as ir

    reqs, impls, cases = [], [], []
    for _ in range(ctx.pick(400, 4000)):
        n = ctx.rng.randrange(0, 7)
        nodes = [ir.Node("", "Op", [], name=f"n{i}") for i in range(n)]
        g = ir.Graph([], [], nodes=nodes, name="g")
        xs = [ctx.rng.randrange(n) for _ in range(ctx.rng.randrange(0, 2 * n + 1))] if n else []
        if ctx.rng.random() < 0.3:
            xs = list(range(n))
            ctx.rng.shuffle(xs)
        idx = {id(nd): i for i, nd in enumerate(nodes)}
        case = {"relink": {"n": n, "xs": xs}}
        try:
            with time_limit(120):
                g.extend([nodes[i] for i in xs])
                impl = [idx[id(nd)] for nd, _ in zip(g, range(4 * n + 4))]
        except _Hang:
            ctx.fail("Graph.extend:hang", "re-linking existing nodes does not terminate (120 s of CPU time)", case)
            continue
        reqs.append({"m": "sort.relink", "cur": list(range(n)), "xs": xs})
        impls.append(impl)
        cases.append(case)
    outs = lean_batch_parallel(reqs)
    for case, impl, out in zip(cases, impls, outs):
        ctx.case(case, nontrivial=len(case["relink"]["xs"]) > 0, fn="relink", relink_len=min(len(case["relink"]["xs"]), 8))
        if out.get("r") != impl:
            ctx.disagree("sort.relink: model != Graph.extend", case, out, impl)
        xs = case["relink"]["xs"]
        if sorted(impl) != list(range(case["relink"]["n"])):
            ctx.fail("Graph.extend:nodes-lost", "re-linking existing nodes lost or duplicated a node", case)
        if sorted(xs) == list(range(case["relink"]["n"])) and impl != xs:
            ctx.fail("Graph.extend:perm", "extending with a permutation of the graph's nodes does not yield that permutation", case)


def run(ctx: Ctx) -> None:
    ctx.rule = (
        "a case = (graph tree spec, entry point, sub-graph selector); non-trivial when the sorted tree has >= 2 nodes; "
        "distinct by canonical JSON of the spec + entry point"
    )
    cases = []
    for obj in load_corpus("C12"):
        if "case" in obj:
            cases.append(obj["case"])
    cases += exhaustive_small(ctx)
    for _ in range(ctx.pick(5000, 60000)):
        cases.append(gen_case(ctx.rng, ctx.quick))
    for _ in range(ctx.pick(600, 6000)):
        cases.append(gen_model_case(ctx.rng))
    for _ in range(ctx.pick(150, 1500)):
        cases.append(gen_selfnest_case(ctx.rng))
    for _ in range(ctx.pick(500, 5000)):
        cases.append(gen_nest_case(ctx.rng))
    for _ in range(ctx.pick(100, 1000)):
        cases.append(gen_graphnone_case(ctx.rng))
    # in blocks: the traced histories (events + observations of every sort) of a block are dropped before the next one
    # is generated (thorough tier: ~200k cases; one block kept the parent at ~16 GB)
    block = 16000
    for i in range(0, len(cases), block):
        check_cases(ctx, cases[i : i + block])
        gc.collect()
    heap_cases(ctx)
    relink_cases(ctx)
    if not ctx.dist.get("heap_trace=compared"):
        ctx.notes.append("the heapq calls of Graph.sort were NOT observed on this run (onnx_ir._core has no `heapq` module global or never "
                         "calls heapq.heapify): kahnHeap is tied to the code by the sort results only")


def replay(ctx: Ctx, obj: dict) -> None:
    case = obj.get("case", obj)
    if "case" in case and "spec" not in case:
        case = case["case"]
    check_cases(ctx, [case])

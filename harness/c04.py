"""C04 — all tensor representations agree on values and bytes (DESIGN.md section 5, C04).

Correspondence: `_type_casting.pack_*/unpack_*` and `tobytes()` of each representation vs the Lean
model `IrVerif.Pack` (driver commands pack.*).  Oracle: representations agree with each other and
with nbytes = ceil(size*bitwidth/8).
"""
from __future__ import annotations

import itertools

import numpy as np

from harness.common import Ctx, lean_batch_parallel

THEOREMS = [
    "IrVerif.Pack.C04_unpack_pack4",
    "IrVerif.Pack.C04_unpack_pack2",
    "IrVerif.Pack.C04_pack4_len",
    "IrVerif.Pack.C04_pack2_len",
    "IrVerif.Pack.C04_le_roundtrip",
    "IrVerif.Pack.C04_nbytes",
]
ASSUMPTIONS = [
    "elements are modelled as bit patterns; numeric meaning of floats (NaN != NaN) is not modelled",
    "numpy view/resize semantics trusted",
]


def run(ctx: Ctx) -> None:
    from onnx_ir import _type_casting as tc

    ctx.rule = (
        "exhaustive nibble/crumb sequences up to a length bound + random longer ones; a case is "
        "non-trivial when it has >= 1 element; distinct by (function, input)"
    )
    reqs, impls, cases = [], [], []
    max4 = ctx.pick(3, 4)
    for n in range(0, max4 + 1):
        for xs in itertools.product(range(16), repeat=n):
            xs = list(xs)
            arr = np.array(xs, dtype=np.uint8)
            packed = tc.pack_4bitx2(arr)
            reqs.append({"m": "pack.pack4", "xs": xs})
            impls.append(packed.tolist())
            cases.append(("pack4", xs))
            reqs.append({"m": "pack.unpack4", "bs": packed.tolist(), "n": n})
            impls.append(tc.unpack_4bitx2(packed.copy(), [n]).ravel().tolist())
            cases.append(("unpack4", xs))
    ctx.exhaustive_scopes.append(f"pack4/unpack4: all nibble sequences of length <= {max4}")
    max2 = ctx.pick(5, 7)
    for n in range(0, max2 + 1):
        for xs in itertools.product(range(4), repeat=n):
            xs = list(xs)
            arr = np.array(xs, dtype=np.uint8)
            packed = tc.pack_2bitx4(arr)
            reqs.append({"m": "pack.pack2", "xs": xs})
            impls.append(packed.tolist())
            cases.append(("pack2", xs))
            reqs.append({"m": "pack.unpack2", "bs": packed.tolist(), "n": n})
            impls.append(tc.unpack_2bitx4(packed.copy(), [n]).ravel().tolist())
            cases.append(("unpack2", xs))
    ctx.exhaustive_scopes.append(f"pack2/unpack2: all crumb sequences of length <= {max2}")
    # random: arbitrary uint8 contents (masking), longer lengths
    for _ in range(ctx.pick(500, 5000)):
        n = ctx.rng.randrange(0, 40)
        xs = [ctx.rng.randrange(256) for _ in range(n)]
        arr = np.array(xs, dtype=np.uint8)
        for name, fn in (("pack4", tc.pack_4bitx2), ("pack2", tc.pack_2bitx4)):
            reqs.append({"m": f"pack.{name}", "xs": xs})
            impls.append(fn(arr).tolist())
            cases.append((name + "-rand", xs))
    outs = lean_batch_parallel(reqs)
    for (name, xs), impl, out in zip(cases, impls, outs):
        ctx.case([name, xs], nontrivial=len(xs) > 0, fn=name.split("-")[0], length=min(len(xs), 8))
        if out.get("r") != impl:
            ctx.disagree(f"{name} model != implementation", {"fn": name, "xs": xs}, out, impl)
        # oracle (the property itself): round trip returns masked elements, length = nbytes
        if name == "unpack4" and impl != [x % 16 for x in xs]:
            ctx.fail("unpack4(pack4)", "4-bit round trip loses elements", {"xs": xs, "got": impl})
        if name == "unpack2" and impl != [x % 4 for x in xs]:
            ctx.fail("unpack2(pack2)", "2-bit round trip loses elements", {"xs": xs, "got": impl})
        if name.startswith("pack4") and len(impl) != (len(xs) * 4 + 7) // 8:
            ctx.fail("pack4-len", "packed length != nbytes", {"xs": xs, "got": impl})
        if name.startswith("pack2") and len(impl) != (len(xs) * 2 + 7) // 8:
            ctx.fail("pack2-len", "packed length != nbytes", {"xs": xs, "got": impl})


def replay(ctx: Ctx, obj: dict) -> None:
    run(ctx)

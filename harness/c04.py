"""C04 — all tensor representations agree on values and bytes (DESIGN.md section 5, C04).

Correspondence (model vs implementation, every run)
  * `_type_casting.pack_*/unpack_*` vs `IrVerif.Pack` (driver commands pack.*), including buffers
    whose length does not match the element count (the resize / drop-padding rules);
  * the element-type tables of `_enums` (and the torch dtype map) vs the Lean literals
    (`trepr.tables`, exhaustive);
  * every representation of a logical tensor (dtype, dims, element bit patterns) — `Tensor` over
    numpy arrays in several storage forms, `ir.tensor(...)`, `PackedTensor`, `TensorProtoTensor`
    through every legal storage field (+ non-canonical but congruent integer encodings),
    `ExternalTensor` at several offsets / at the end of the file, `LazyTensor` around each,
    `TorchTensor`, and `deserialize_tensor(serialize_tensor(t))` — vs `IrVerif.TensorRepr`
    (`trepr.obs`, `trepr.deserialize`): dtype, shape, nbytes, numpy() storage units, tobytes(),
    tofile() into BytesIO, tofile() into files / buffers at a position or in append mode, and the
    serialized proto;
  * a stream of illegal / edge protos, external descriptors and packed buffers (model vs
    implementation only);
  * (deepening round) call histories of ONE `ExternalTensor` object over real files in three directories --
    reads through numpy()/__array__/tobytes()/tofile() with or without keeping the array, release(),
    invalidate(), base_dir re-assignment, the data file created / atomically replaced / removed in between --
    vs `IrVerif.ExtLife` (`extlife.run`), call by call;
  * (deepening round) strided array memory: random and derived (transpose / slice / flip / broadcast) numpy
    arrays, arrays behind array-compatible objects in either byte order and `torch.as_strided` tensors are
    sent to the model as RAW memory (shape, byte strides, byte offset, storage bytes) and the model does the
    reduction to logical order (`strided.obs`, `trepr.obs` kinds strided / tstrided);
  * (deepening round) STRING tensors through every representation and `ir.tensor` on text / bytes data vs
    `IrVerif.StrTensor` (`strt.obs`, `strt.py`), legal and ill-formed;
  * (second deepening round) `ir.tensor(value, dtype)` on plain Python data -- None / bool / int / float / complex / str /
    bytes scalars in nested lists and tuples, with and without `dtype=`: which tensor comes back, its dtype (inferred or
    declared), shape and elements bit for bit -- vs `IrVerif.PyTensor` (`pyt.run`): exhaustively over all nestings up to a
    size bound x all assignments of the seven scalar kinds, a conversion table (boundary scalars x all 27 dtypes) and
    random regular arrays;
  * (second deepening round) the bounds checks of `np.ndarray(shape, dtype, buffer, offset, strides)` and
    `torch.as_strided` vs their model (`strided.check`), on random descriptions incl. out-of-bounds ones;
  * (third deepening round) conversion of Python floats / ints INTO the six 8-bit / 4-bit float types through `ir.tensor`
    vs `IrVerif.PyTensor.encF8` (`pyt.castmany`): ALL 65,536 binary16 values per type + every value / midpoint / threshold
    of the type + random binary32 / binary64 values; the model's value specification (`pyt.dec8`) vs ml_dtypes' decoding;
    `Tensor(array, dtype)` acceptance vs `ctorAccepts` (`pyt.ctor`) over every array dtype x every code; BOOL storage bytes
    0..255; lazily conjugated / negated torch views (D385), 2-D packed raw arrays (D386), float_data with signalling NaNs
    built on the wire.

Oracle (the property itself on the real objects, independent of the model): declared dtype and
shape, nbytes = ceil(size*bitwidth/8), numpy() bits = the logical bits, tobytes()/tofile bytes =
the little-endian packed reference bytes computed by a spec-level encoder in this file AND by
`onnx.numpy_helper.from_array`; `onnx.numpy_helper.to_array` decodes every proto involved to the
logical bits; a write at position p changes exactly [p, p+nbytes).
"""
from __future__ import annotations

import io
import hashlib
import itertools
import math
import os
import re
import struct
import tempfile

import numpy as np

from harness.common import Ctx, Infra, Part, load_corpus, pmap
from harness.common import lean_batch_parallel as _lean_batch_parallel


def lean_batch_balanced(requests: list[dict], shards: int = 16) -> list[dict]:
    """Like lean_batch_parallel, but the few very large requests (1 MiB tensors) are spread over the shards."""
    from concurrent.futures import ThreadPoolExecutor

    from harness.common import lean_batch

    if len(requests) < 4 * shards:
        return lean_batch_parallel(requests)

    def weight(r):
        m = r.get("repr") or {}
        return 1 + sum(len(v) for v in m.values() if isinstance(v, list)) // 2000 + (50 if "inner" in m and isinstance(m["inner"].get("file"), list) and len(m["inner"]["file"]) > 100000 else 0)

    order = sorted(range(len(requests)), key=lambda i: -weight(requests[i]))
    loads, parts = [0] * shards, [[] for _ in range(shards)]
    for i in order:
        k = loads.index(min(loads))
        parts[k].append(i)
        loads[k] += weight(requests[i])

    def run(part):
        for attempt in range(12):
            try:
                return lean_batch([requests[i] for i in part])
            except Infra:
                if attempt == 11:
                    raise
                import time

                time.sleep(5)

    with ThreadPoolExecutor(shards) as ex:
        outs = list(ex.map(run, parts))
    res: list = [None] * len(requests)
    for part, out in zip(parts, outs):
        for i, o in zip(part, out):
            res[i] = o
    return res


def lean_batch_parallel(requests: list[dict]) -> list[dict]:
    """The model driver, retried while another check's `lake build` is relinking the binary."""
    import time

    for attempt in range(12):
        try:
            return _lean_batch_parallel(requests)
        except Infra:
            if attempt == 11:
                raise
            time.sleep(5)
    raise Infra("unreachable")

THEOREMS = [
    "IrVerif.Pack.C04_unpack_pack4",
    "IrVerif.Pack.C04_unpack_pack2",
    "IrVerif.Pack.C04_pack4_len",
    "IrVerif.Pack.C04_pack2_len",
    "IrVerif.Pack.C04_pack_unpack4",
    "IrVerif.Pack.C04_pack_unpack2",
    "IrVerif.Pack.C04_le_roundtrip",
    "IrVerif.Pack.C04_nbytes",
    "IrVerif.Pack.C04_pack_bitstream",
    "IrVerif.TensorRepr.C04_tables",
    "IrVerif.TensorRepr.C04_field_agree",
    "IrVerif.TensorRepr.C04_all_agree",
    "IrVerif.TensorRepr.C04_bytes_len",
    "IrVerif.TensorRepr.C04_tofile_at",
    "IrVerif.TensorRepr.C04_tofile_paths",
    "IrVerif.TensorRepr.C04_tofile_repr",
    "IrVerif.TensorRepr.C04_serialize_roundtrip",
    "IrVerif.ExtLife.C04_ext_history_read",
    "IrVerif.ExtLife.C04_ext_history_agree",
    "IrVerif.ExtLife.C04_ext_quiet_coherent",
    "IrVerif.ExtLife.C04_ext_invalidated",
    "IrVerif.ExtLife.C04_ext_release_fresh",
    "IrVerif.ExtLife.C04_ext_release_neutral",
    "IrVerif.ExtLife.C04_ext_basedir",
    "IrVerif.ExtLife.C04_ext_history_legal",
    "IrVerif.ExtLife.C04_ext_stale_witness",
    "IrVerif.Strided.C04_strided_rowmajor",
    "IrVerif.Strided.C04_strided_index",
    "IrVerif.Strided.C04_strided_agree",
    "IrVerif.Strided.C04_strided_torch",
    "IrVerif.StrTensor.C04_string_bytes_raise",
    "IrVerif.StrTensor.C04_string_agree",
    "IrVerif.StrTensor.C04_string_pytensor",
    "IrVerif.Strided.C04_strided_npcheck",
    "IrVerif.Strided.C04_strided_npcheck_empty_witness",
    "IrVerif.Strided.C04_strided_agree_npcheck",
    "IrVerif.PyTensor.C04_pytensor_declared",
    "IrVerif.PyTensor.C04_pytensor_rowmajor",
    "IrVerif.PyTensor.C04_pytensor_agree",
    "IrVerif.PyTensor.C04_pytensor_float_depth",
    "IrVerif.PyTensor.C04_pytensor_int_depth",
    "IrVerif.PyTensor.C04_pytensor_errors",
    "IrVerif.PyTensor.C04_pytensor_string",
    "IrVerif.PyTensor.C04_pytensor_f8_total",
    "IrVerif.PyTensor.C04_pytensor_f8_roundtrip",
    "IrVerif.PyTensor.C04_pytensor_f8_sign",
    "IrVerif.PyTensor.C04_pytensor_f8_agree",
    "IrVerif.PyTensor.C04_ctor_accepts",
    "IrVerif.PyTensor.C04_pytensor_f8_halfulp",
    "IrVerif.PyTensor.C04_pytensor_f8_decode_encode",
]
ASSUMPTIONS = [
    "elements are modelled as bit patterns; numeric meaning of floats (NaN != NaN) is not modelled",
    "numpy / ml_dtypes view, astype (two's complement wrap), frombuffer, resize and tofile semantics are "
    "modelled, not verified; they are exercised by the correspondence on every run",
    "little-endian host (the _IS_LITTLE_ENDIAN false branches are not modelled)",
    "DIFFERENTIAL ONLY (the theorems say nothing about them; only the correspondence and the oracle check them): "
    "read-only flags of arrays, torch tensors "
    "that need .cpu()/.detach(), sign-extended vs ml_dtypes storage of 2/4-bit elements beyond 'the low bits are the element'. "
    "Modelled with content: byte order of whole-byte array memory, the storage offset of a contiguous torch view, the three "
    "delivery mechanisms of tofile, the packed bit layout (against an independent bit-stream specification), and since the "
    "deepening round: the lifecycle of one ExternalTensor object (Model/ExtLife.lean), strided array / torch memory "
    "(Model/Strided.lean: the harness sends raw memory, the model reduces it to logical order) and STRING tensors "
    "(Model/StrTensor.lean)",
    "ExternalTensor histories: the environment replaces (os.replace: new inode) or removes the data file; in-place modification "
    "or truncation of a mapped file is outside the model (truncation kills the process with SIGBUS); _check_path_containment is "
    "C10's subject and is modelled as passing. The agreement theorems for histories carry the decidable hypothesis `coherent` "
    "(no complete load is held, or the mapped file is still the file the path names), evaluated by the driver before every read "
    "of every generated history (share in the histogram: hist_read_coherent=...). Incoherent reads (observation D380: the code "
    "answers numpy()/tobytes() from the stale mapping and tofile() from the path) are compared model-vs-code only and counted "
    "(stale_mapping_divergence); they are outside C04's quantifier by decision of the maintainer",
    "strided memory: C04_strided_agree / C04_strided_torch assume every item lies inside the storage (`inBounds`, decidable, "
    "evaluated by the driver on every generated array: strided_hypotheses_hold=...). Second deepening round: C04_strided_npcheck "
    "proves `inBounds` from a MODEL of the bounds check of numpy's ndarray(shape, dtype, buffer, offset, strides) constructor "
    "(PyArray_CheckStrides, over a non-empty buffer) and of torch.as_strided; the model of the checks is compared with the "
    "installed numpy / torch on random descriptions, about a third of them out of bounds (bounds_accepted=...), and evaluated on "
    "every generated strided array (strided_constructor_check_holds=..., strided_nonempty_storage=...). Still a hypothesis: that "
    "DERIVED views (transpose / slice / flip / broadcast_to of an in-bounds array) stay in bounds -- numpy's own invariant, not "
    "modelled view operation by view operation -- and a non-empty buffer (numpy accepts out-of-bounds strides over an EMPTY buffer, "
    "observation D383, witness theorem C04_strided_npcheck_empty_witness). BOOL memory bytes other than 0/1 are not generated in the STRIDED stream (a by-value copy of a strided bool array normalises them); the logical-tensor stream places all 256 byte values (observation D388)",
    "ir.tensor on plain Python data (Model/PyTensor.lean, second deepening round): values are trees of None / bool / int / float "
    "(binary64 bit pattern) / complex / str / bytes scalars in lists and tuples; numpy's shape discovery, dtype discovery and "
    "scalar conversion (numpy ints: must fit; ml_dtypes 2/4-bit ints: wrap; binary16/32/64 and bfloat16: round to nearest even with "
    "the double roundings numpy / ml_dtypes perform; complex64/128) are MODELLED and compared bit for bit on every run, not verified. "
    "Third deepening round: conversion INTO FLOAT8E4M3FN / E4M3FNUZ / E5M2 / E5M2FNUZ / E8M0 / FLOAT4E2M1 is modelled (`encF8`: one "
    "round-to-nearest-even from binary64, ints through float32, per-type overflow / infinity / NaN / signed-zero rules) and compared "
    "with the installed ml_dtypes through ir.tensor on ALL 65,536 binary16 values per type plus thresholds and random binary32 / "
    "binary64 patterns (check_f8_tables; NaN payloads included there, the result does not depend on them); the value specification "
    "`decF8` of C04_pytensor_f8_roundtrip is compared with ml_dtypes' decoding of all patterns. None converts to NaN / False or raises, "
    "text converts to its truth value for BOOL and raises TypeError for every ml_dtypes type. Observation D384 (ml_dtypes, not onnx_ir): "
    "float8_e8m0fnu(x) for x in [1.5 * 2^128, 2^129) wraps to 0x00 (2^-127) instead of NaN; transcribed, counted. "
    "Not modelled (the driver answers `unmodelled`, counted as pyt_unmodelled_conversion): text PARSED into the numpy int / float / "
    "complex types (np.array('1.5', dtype=float32)). Not generated: numpy scalars inside lists, bytearray / memoryview / range "
    "values, NaNs with a payload into binary16/32/64/bfloat16/complex, nesting deeper than numpy's limit. C04_pytensor_agree assumes well-formed scalars (64-bit patterns; "
    "decidable, evaluated: pyt_hyp_leaves_wf=...). Observations, not findings: D381 (float default depends on the nesting depth; "
    "theorem C04_pytensor_float_depth), D382 (None / mixed text+number / ints beyond 64 bits give a Tensor that reports STRING over an "
    "object or fixed-width text array: compared model-vs-code only, counted as pyt_degenerate_string_tensor)",
    "string tensors: elements are byte strings; UTF-8 encoding of text is Lean's String.toUTF8, compared with Python's on every "
    "generated text; text with lone surrogates (not encodable) is not generated",
    "the model follows the repaired code for D20 D21 D22 D44 D45 D48 D49 D140 D141 D142 D143",
]

M64 = (1 << 64) - 1

# The ONNX specification's element types, written down independently of onnx_ir (the oracle and the
# generators never ask the code under test what a type looks like): code -> (name, bits, numpy name)
SPEC = {
    1: ("FLOAT", 32, "float32"), 2: ("UINT8", 8, "uint8"), 3: ("INT8", 8, "int8"), 4: ("UINT16", 16, "uint16"),
    5: ("INT16", 16, "int16"), 6: ("INT32", 32, "int32"), 7: ("INT64", 64, "int64"), 9: ("BOOL", 8, "bool"),
    10: ("FLOAT16", 16, "float16"), 11: ("DOUBLE", 64, "float64"), 12: ("UINT32", 32, "uint32"),
    13: ("UINT64", 64, "uint64"), 14: ("COMPLEX64", 64, "complex64"), 15: ("COMPLEX128", 128, "complex128"),
    16: ("BFLOAT16", 16, "bfloat16"), 17: ("FLOAT8E4M3FN", 8, "float8_e4m3fn"), 18: ("FLOAT8E4M3FNUZ", 8, "float8_e4m3fnuz"),
    19: ("FLOAT8E5M2", 8, "float8_e5m2"), 20: ("FLOAT8E5M2FNUZ", 8, "float8_e5m2fnuz"), 21: ("UINT4", 4, "uint4"),
    22: ("INT4", 4, "int4"), 23: ("FLOAT4E2M1", 4, "float4_e2m1fn"), 24: ("FLOAT8E8M0", 8, "float8_e8m0fnu"),
    25: ("UINT2", 2, "uint2"), 26: ("INT2", 2, "int2"),
}
TORCH_NAME = {
    "FLOAT": "float32", "UINT8": "uint8", "INT8": "int8", "UINT16": "uint16", "INT16": "int16", "INT32": "int32",
    "INT64": "int64", "BOOL": "bool", "FLOAT16": "float16", "DOUBLE": "float64", "UINT32": "uint32", "UINT64": "uint64",
    "COMPLEX64": "complex64", "COMPLEX128": "complex128", "BFLOAT16": "bfloat16", "FLOAT8E4M3FN": "float8_e4m3fn",
    "FLOAT8E4M3FNUZ": "float8_e4m3fnuz", "FLOAT8E5M2": "float8_e5m2", "FLOAT8E5M2FNUZ": "float8_e5m2fnuz",
    "FLOAT8E8M0": "float8_e8m0fnu", "UINT2": "uint2", "INT2": "int2",
}


def spec_np(code: int):
    import ml_dtypes

    nm = SPEC[code][2]
    return np.dtype(getattr(ml_dtypes, nm)) if hasattr(ml_dtypes, nm) and not hasattr(np, nm) else np.dtype(nm)


def is_int(name: str) -> bool:
    return name.startswith(("INT", "UINT"))
SHAPES = [[], [0], [1], [3], [5], [2, 3], [1, 1, 1, 1, 7]]
UINT = {1: np.uint8, 2: np.uint16, 4: np.uint32, 8: np.uint64}


def _prod(dims):
    n = 1
    for x in dims:
        n *= x
    return n


def _nbytes(n, bw):
    return (n * bw + 7) // 8


def ref_bytes(bw: int, xs: list[int]) -> bytes:
    """Spec-level encoder: little-endian items; sub-byte elements low bits first, zero padded."""
    if bw >= 8:
        return b"".join(int(x).to_bytes(bw // 8, "little") for x in xs)
    per = 8 // bw
    out = bytearray(_nbytes(len(xs), bw))
    for i, x in enumerate(xs):
        out[i // per] |= (x & ((1 << bw) - 1)) << (bw * (i % per))
    return bytes(out)


def units_of(arr) -> list[int]:
    """Storage units of a numpy array (C order) as Python ints."""
    a = np.asarray(arr)
    if a.dtype.byteorder == ">":  # explicit non-native order: take the values, not the swapped memory
        a = a.astype(a.dtype.newbyteorder("="))
    a = np.ascontiguousarray(a).reshape(-1)
    isz = a.dtype.itemsize
    if isz in UINT:
        return [int(x) for x in a.view(UINT[isz]).tolist()]
    if isz == 16:
        v = a.view(np.uint64).reshape(-1, 2).tolist()
        return [int(lo) | (int(hi) << 64) for lo, hi in v]
    raise TypeError(f"unexpected itemsize {isz}")


def arr_from_bits(npdt, dims, xs):
    isz = np.dtype(npdt).itemsize
    if isz == 16:
        u = np.array([[x & M64, x >> 64] for x in xs], dtype=np.uint64).reshape(-1)
    else:
        u = np.array(xs, dtype=UINT[isz])
    return u.view(npdt).reshape(dims)


def signed(x: int, k: int) -> int:
    return x - (1 << k) if x >> (k - 1) else x


def f32_of_bits(b: int) -> float:
    return struct.unpack("<f", struct.pack("<I", b))[0]


def bits_of_f32(v: float) -> int:
    return struct.unpack("<I", struct.pack("<f", v))[0]


def f64_of_bits(b: int) -> float:
    return struct.unpack("<d", struct.pack("<Q", b))[0]


def bits_of_f64(v: float) -> int:
    return struct.unpack("<Q", struct.pack("<d", v))[0]


def _float_data_bits(tp) -> list:
    """The binary32 patterns stored in `float_data`, read from the WIRE form of a copy that keeps only that field
    (reading the elements as Python floats quiets signalling NaNs; numpy is not involved here)."""
    n = len(tp.float_data)
    if not n:
        return []
    t2 = type(tp)()
    t2.CopyFrom(tp)
    for f in t2.DESCRIPTOR.fields:
        if f.name != "float_data":
            t2.ClearField(f.name)
    wire = t2.SerializeToString()
    body = wire[len(wire) - 4 * n:]
    if len(wire) < 4 * n + 2 or wire[0] != 0x22:
        return [bits_of_f32(v) for v in tp.float_data]
    return [struct.unpack_from("<I", body, 4 * i)[0] for i in range(n)]


def proto_json(tp) -> dict:
    """Canonical form of the data-carrying part of a TensorProto (the model's `Proto`)."""
    import onnx

    ext = None
    if tp.data_location == onnx.TensorProto.EXTERNAL:
        ext = {"offset": None, "length": None}
        for e in tp.external_data:
            if e.key in ("offset", "length"):
                ext[e.key] = int(e.value)
    return {
        "k": "proto",
        "d": int(tp.data_type),
        "dims": [int(x) for x in tp.dims],
        "raw": list(tp.raw_data) if tp.HasField("raw_data") else None,
        "i32": [int(x) for x in tp.int32_data],
        "i64": [int(x) for x in tp.int64_data],
        "u64": [int(x) for x in tp.uint64_data],
        "f32": _float_data_bits(tp),
        "f64": [bits_of_f64(v) for v in tp.double_data],
        "ext": ext,
    }


def canon_model(o: dict) -> dict:
    """Model answer -> the canonical observation (exceptions -> "raised")."""

    def r(v):
        return "raised" if isinstance(v, dict) and "raised" in v and len(v) == 1 else v

    out = {k: r(o.get(k)) for k in ("dtype", "shape", "nbytes", "numpy", "tobytes", "serialize")}
    tf = o.get("tofile")
    out["tofile"] = {"bytes": [], "raised": True} if r(tf) == "raised" else tf
    out["dests"] = o.get("dests", [])  # canonicalised against the request by the caller when raised
    return out


DESTS = ["bytesio0", "bytesio5", "file0", "file5", "filebeyond", "append", "aplus", "wb"]
# destinations used for external tensors only: a regular file with os.copy_file_range shimmed so that the
# kernel-copy loop of ExternalTensor.tofile runs several short rounds / falls back to the chunk loop half-way
EXT_DESTS = ["file5+short", "file0+exdev", "filebeyond+zero", "file5+short1"]
PREFIX = bytes(0xA0 + i for i in range(10))


def dest_request(kind: str) -> dict:
    kind = kind.split("+")[0]
    img = [] if kind in ("bytesio0", "wb") else list(PREFIX)
    pos = {"bytesio0": 0, "bytesio5": 5, "file0": 0, "file5": 5, "filebeyond": 13, "append": 10, "aplus": 10, "wb": 0}[kind]
    return {"img": img, "pos": pos, "append": kind in ("append", "aplus"), "regular": not kind.startswith("bytesio")}


class _CopyFileRangeShim:
    """Replaces os.copy_file_range while one tofile() runs (the harness patches the global from outside)."""

    def __init__(self, mode: str, size: int):
        self.mode, self.calls, self.size = mode, 0, size
        self.real = getattr(os, "copy_file_range", None)

    def __enter__(self):
        if self.real is not None:
            os.copy_file_range = self
        return self

    def __exit__(self, *a):
        if self.real is not None:
            os.copy_file_range = self.real

    def __call__(self, src, dst, count, offset_src=None, offset_dst=None):
        import errno

        self.calls += 1
        if self.mode == "short":  # the kernel copies at most a third of the tensor per call
            count = min(count, max(1, self.size // 3))
        elif self.mode == "short1":  # one byte per call for the first calls, then everything
            count = 1 if self.calls <= 3 else count
        elif self.mode == "exdev" and self.calls > 1:  # cross-device error after the first (short) round
            raise OSError(errno.EXDEV, "shim")
        elif self.mode == "exdev":
            count = min(count, max(1, self.size // 2))
        elif self.mode == "zero":  # nothing copied: the chunk loop has to do everything
            return 0
        return self.real(src, dst, count, offset_src=offset_src, offset_dst=offset_dst)


def run_dest(t, kind: str, workdir: str) -> dict:
    """tofile into a destination of the given kind; returns final image, position, raised."""
    raised = False
    kind, _, shim = kind.partition("+")
    if kind.startswith("bytesio"):
        f = io.BytesIO(b"" if kind == "bytesio0" else PREFIX)
        f.seek(0 if kind == "bytesio0" else 5)
        try:
            t.tofile(f)
        except Exception:
            raised = True
        return {"img": list(f.getvalue()), "pos": f.tell(), "raised": raised}
    path = os.path.join(workdir, "dst.bin")
    if kind != "wb":
        with open(path, "wb") as f:
            f.write(PREFIX)
    mode = {"file0": "r+b", "file5": "r+b", "filebeyond": "r+b", "append": "ab", "aplus": "a+b", "wb": "wb"}[kind]
    with open(path, mode) as f:
        if kind in ("file5", "filebeyond"):
            f.seek(5 if kind == "file5" else 13)
        try:
            if shim:
                try:
                    size = int(t.nbytes)
                except Exception:
                    size = 8
                with _CopyFileRangeShim(shim, size):
                    t.tofile(f)
            else:
                t.tofile(f)
        except Exception:
            raised = True
        f.flush()
        pos = f.tell()
    with open(path, "rb") as f:
        img = list(f.read())
    return {"img": img, "pos": pos, "raised": raised}


def observe(make, dests, workdir, order: int = 0, fresh: bool = False) -> dict:
    """All observables of one real tensor; `make()` constructs it (may raise).

    The same object answers every observable (so state kept between calls is exercised); `order`
    rotates which of numpy()/tobytes()/tofile() is asked first.  `fresh=True` (edge stream) builds a
    new object per observable so that the answer does not depend on an earlier failed call."""
    try:
        t = make()
    except Exception as e:  # constructor rejected the input
        return {"_ctor": type(e).__name__}
    o: dict = {}

    def obj():
        return make() if fresh else t

    try:
        o["dtype"] = int(t.dtype)
    except Exception:
        o["dtype"] = "raised"
    try:
        o["shape"] = [int(x) for x in t.shape.numpy()]
    except Exception:
        o["shape"] = "raised"
    try:
        o["nbytes"] = int(t.nbytes)
    except Exception:
        o["nbytes"] = "raised"

    def do_numpy():
        a = None
        try:
            a = obj().numpy()
            o["numpy"] = units_of(a)
            o["_npdtype"] = a.dtype.name
            o["_npshape"] = [int(x) for x in a.shape]
        except Exception as e:
            o["numpy"] = "raised"
            o["_numpy_exc"] = type(e).__name__

    def do_tobytes():
        try:
            o["tobytes"] = list(obj().tobytes())
        except Exception as e:
            o["tobytes"] = "raised"
            o["_tobytes_exc"] = type(e).__name__

    def do_tofile():
        b = io.BytesIO()
        try:
            obj().tofile(b)
            o["tofile"] = {"bytes": list(b.getvalue()), "raised": False}
        except Exception as e:
            o["tofile"] = {"bytes": list(b.getvalue()), "raised": True}
            o["_tofile_exc"] = type(e).__name__

    steps = [do_numpy, do_tobytes, do_tofile]
    k = order % 3
    for st in steps[k:] + steps[:k]:
        st()
    o["dest"] = {k: run_dest(obj(), k, workdir) for k in dests}
    try:
        from onnx_ir import serde

        tp = serde.serialize_tensor(obj())
        o["serialize"] = proto_json(tp)
        o["_proto"] = tp
    except Exception as e:
        o["serialize"] = "raised"
        o["_serialize_exc"] = type(e).__name__
    rel = getattr(t, "release", None)
    if callable(rel):
        try:
            rel()
        except BufferError:
            pass
    return o


# --------------------------------------------------------------------------- representations


class _ArrayCompat:
    """An array-compatible object that is not an ndarray (only `shape` and `__array__`)."""

    def __init__(self, a):
        self._a = a
        self.shape = a.shape

    def __array__(self, dtype=None, copy=None):
        return self._a if dtype is None else self._a.astype(dtype)


def int32_field(d, bw, xs, alt, salt):
    """ONNX spec encoding of the elements in int32_data (alt: congruent non-canonical values)."""
    name = SPEC[int(d)][0]
    if bw in (2, 4):
        ys = list(ref_bytes(bw, xs))
        if alt:  # the packed byte as a signed int8 value / shifted by 256
            ys = [signed(y, 8) if (i + salt) % 2 else y + 256 for i, y in enumerate(ys)]
        return ys
    if bw == 32:
        return [signed(x, 32) for x in xs]
    sgn = name in ("INT8", "INT16")
    ys = [signed(x, bw) if sgn else x for x in xs]
    if alt:
        ys = [(x if sgn else signed(x, bw)) if (i + salt) % 2 else y + (1 << bw) * ((i + salt) % 3 - 1) for i, (x, y) in enumerate(zip(xs, ys))]
    return ys


_PAD_CACHE: dict = {}


def pad_pattern(n: int) -> bytes:
    """The prefix pattern of large data files: byte i is (37 i + 11) mod 251 (same in the Lean driver)."""
    if n not in _PAD_CACHE:
        _PAD_CACHE[n] = ((37 * np.arange(n, dtype=np.uint64) + 11) % 251).astype(np.uint8).tobytes()
    return _PAD_CACHE[n]


def build_reprs(ir, d, dims, xs, idx, workdir, torch_ok, item_extra=None):
    """Yield (name, make, model_json, legal) for every representation of the logical tensor."""
    import ml_dtypes
    import onnx
    from onnx_ir import serde

    item_extra = item_extra or {}
    code = int(d)
    nm, bw, _ = SPEC[code]
    n = len(xs)
    npdt = spec_np(code)
    shape = ir.Shape(dims)
    rb = ref_bytes(bw, xs)
    out = []

    def add(name, make, model, legal=True):
        out.append((name, make, model, legal))

    # ---- array-backed Tensor
    native = arr_from_bits(npdt, dims, xs)
    add("array", lambda: ir.Tensor(native, dtype=d), {"k": "array", "d": code, "dims": dims, "elems": units_of(native)})
    add("array-nodtype", lambda: ir.Tensor(native), {"k": "array", "d": code, "dims": dims, "elems": units_of(native)})
    add("ir.tensor(array)", lambda: ir.tensor(native, dtype=d), {"k": "array", "d": code, "dims": dims, "elems": units_of(native)})
    if nm in ("BFLOAT16", "FLOAT8E4M3FN", "FLOAT8E4M3FNUZ", "FLOAT8E5M2", "FLOAT8E5M2FNUZ", "FLOAT8E8M0", "UINT4", "FLOAT4E2M1", "UINT2", "INT4", "INT2"):
        u = np.array(xs, dtype=np.uint16 if bw == 16 else np.uint8).reshape(dims)
        add("array-uintbits", lambda: ir.Tensor(u, dtype=d), {"k": "array", "d": code, "dims": dims, "elems": units_of(u)})
    if nm in ("INT4", "INT2"):
        s8 = np.array([signed(x, bw) for x in xs], dtype=np.int8).reshape(dims)  # sign-extended storage
        add("array-int8signext", lambda: ir.Tensor(s8, dtype=d), {"k": "array", "d": code, "dims": dims, "elems": units_of(s8)})
    whole = bw >= 8 and npdt.kind in "iufcb" and nm != "BOOL"

    def mem_model(a, be, nd):
        return {"k": "arraymem", "d": code, "dims": dims, "mem": list(np.ascontiguousarray(a).tobytes()), "be": be, "nd": nd}

    if npdt.itemsize > 1 and npdt.kind in "iufc":
        # the same values held in memory with an explicit non-native (big-endian) dtype ('>f4', '>i8', ...)
        be = native.astype(npdt.newbyteorder(">"))
        if units_of(be) == units_of(native) and be.dtype.byteorder == ">":
            # a real ndarray: rejected (TypeError) or little-endian bytes -- never bytes in memory order
            bm = mem_model(be, True, True)
            add("array-be", lambda: ir.Tensor(be, dtype=d), bm, "be")
            add("array-benodtype", lambda: ir.Tensor(be), bm, "be")
            add("ir.tensor(array-be)", (lambda: ir.tensor(be, dtype=d)) if idx % 2 else (lambda: ir.tensor(be)), bm, "be")
            # behind a non-ndarray array-compatible object nothing checks the dtype: the tensor exists and
            # must serialise the VALUES little-endian (D140)
            wbe = _ArrayCompat(be)
            cm = mem_model(be, True, False)
            add("array-becompat", lambda: ir.Tensor(wbe, dtype=d), cm)
            add("ir.tensor(array-becompat)", lambda: ir.tensor(wbe, dtype=d), cm)
    wrapped = _ArrayCompat(native)  # not an ndarray: Tensor keeps it as is and goes through __array__
    add("array-compat", lambda: ir.Tensor(wrapped, dtype=d),
        mem_model(native, False, False) if whole else {"k": "array", "d": code, "dims": dims, "elems": units_of(native)})
    if whole:
        add("array-mem", lambda: ir.Tensor(native, dtype=d), mem_model(native, False, True))
    ro = native.copy()
    ro.setflags(write=False)
    add("array-readonly", lambda: ir.Tensor(ro, dtype=d), {"k": "array", "d": code, "dims": dims, "elems": units_of(native)})
    if dims and n > 1:
        rev = np.ascontiguousarray(native[::-1])[::-1]  # same logical content, negative stride on axis 0
        add("array-negstride", lambda: ir.Tensor(rev, dtype=d), {"k": "array", "d": code, "dims": dims, "elems": units_of(rev)})
    if len(dims) >= 2:
        # non-contiguous storage: a transposed Fortran-ordered buffer with the same logical content
        nc = np.asfortranarray(native)
        add("array-fortran", lambda: ir.Tensor(nc, dtype=d), {"k": "array", "d": code, "dims": dims, "elems": units_of(nc)})
    # BOOL storage bytes other than 0/1: onnx_ir passes the byte through in every representation; two forms are left out
    # because a LIBRARY copies the element by value before onnx_ir sees it (numpy's scalar extraction, torch's
    # .contiguous() of a strided bool tensor both write 0x01) -- observation D388, counted by the caller
    noncanon_bool = nm == "BOOL" and any(int(x) > 1 for x in xs)
    if dims == [] and not noncanon_bool:
        sc = native[()]
        add("array-npscalar", lambda: ir.Tensor(sc, dtype=d), {"k": "array", "d": code, "dims": dims, "elems": units_of(native)})
    if is_int(nm) and n <= 8:
        vals = [signed(x, bw) if nm.startswith("INT") else x for x in xs]
        nested = np.array(vals, dtype=object).reshape(dims).tolist()
        add("ir.tensor(list)", lambda: ir.tensor(nested, dtype=d), {"k": "array", "d": code, "dims": dims, "elems": units_of(native)})

    # ---- PackedTensor
    if bw in (2, 4):
        pk = np.frombuffer(rb, dtype=np.uint8).copy()
        add("packed", lambda: ir.PackedTensor(pk, d, shape=dims), {"k": "packed", "d": code, "dims": dims, "raw": list(rb)})
        if torch_ok:
            import torch

            pkt = torch.from_numpy(pk.copy())  # an array-compatible, DLPack-capable raw value
            add("packed-torch", lambda: ir.PackedTensor(pkt, d, shape=dims), {"k": "packed", "d": code, "dims": dims, "raw": list(rb)})
        if len(rb) % 2 == 0 and len(rb) > 0:
            pk16 = pk.view(np.uint16)  # "The value MUST be packed in an integer dtype": two packed bytes per item (D142)
            add("packed-u16", lambda: ir.PackedTensor(pk16, d, shape=dims), {"k": "packed", "d": code, "dims": dims, "raw": list(rb)})
        pk8 = pk.view(np.int8)
        add("packed-int8", lambda: ir.PackedTensor(pk8, d, shape=ir.Shape(dims)), {"k": "packed", "d": code, "dims": dims, "raw": list(rb)})
        if len(rb) >= 2 and len(rb) % 2 == 0:
            # the constructor only checks the byte count: a 2-D packed array is accepted (finding D386: numpy() raised)
            pk2d = pk.reshape(2, len(rb) // 2)
            add("packed2d", lambda: ir.PackedTensor(pk2d, d, shape=dims), {"k": "packed", "d": code, "dims": dims, "raw": list(rb)})

    # ---- proto-backed through every legal field
    def tp_base():
        tp = onnx.TensorProto()
        tp.name = "t"
        tp.data_type = code
        tp.dims.extend(dims)
        return tp

    protos = []
    wire_f32: dict = {}  # id(proto built from wire bytes) -> the binary32 patterns written
    tp = tp_base()
    tp.raw_data = rb
    protos.append(("raw_data", tp))
    if nm in ("BFLOAT16", "BOOL", "FLOAT16", "FLOAT4E2M1", "FLOAT8E4M3FN", "FLOAT8E4M3FNUZ", "FLOAT8E5M2", "FLOAT8E5M2FNUZ",
              "FLOAT8E8M0", "INT16", "INT32", "INT2", "INT4", "INT8", "UINT16", "UINT2", "UINT4", "UINT8"):
        tp = tp_base()
        tp.int32_data.extend(int32_field(d, bw, xs, False, idx))
        protos.append(("int32_data", tp))
        if bw < 32 and nm != "BOOL":
            tp = tp_base()
            tp.int32_data.extend(int32_field(d, bw, xs, True, idx))
            protos.append(("int32_data-alt", tp))
    if nm == "INT64":
        tp = tp_base()
        tp.int64_data.extend(signed(x, 64) for x in xs)
        protos.append(("int64_data", tp))
    if nm in ("UINT64", "UINT32"):
        tp = tp_base()
        tp.uint64_data.extend(xs)
        protos.append(("uint64_data", tp))
        if nm == "UINT32":
            tp = tp_base()
            tp.uint64_data.extend(x + (((i + idx) % 3) << 32) for i, x in enumerate(xs))
            protos.append(("uint64_data-alt", tp))
    if nm in ("FLOAT", "COMPLEX64"):
        parts = xs if nm == "FLOAT" else [p for x in xs for p in (x & 0xFFFFFFFF, x >> 32)]
        tp = tp_base()
        tp.float_data.extend(f32_of_bits(p) for p in parts)
        if [bits_of_f32(v) for v in tp.float_data] == parts:  # signalling NaNs cannot be carried by the Python API
            protos.append(("float_data", tp))
        else:
            # ... but they arrive through the WIRE (third deepening round): field 4, packed, the binary32 patterns verbatim
            body = b"".join(struct.pack("<I", p_) for p_ in parts)
            ln, var = len(body), b""
            while True:
                var += bytes([(ln & 0x7F) | (0x80 if ln > 0x7F else 0)])
                ln >>= 7
                if not ln:
                    break
            tp = tp_base()
            tp.MergeFromString(b"\x22" + var + body)
            # (reading float_data element by element as Python floats quiets them again: the patterns are checked on the
            # wire form, and handed to the model as they were written)
            if len(tp.float_data) == len(parts) and body in tp.SerializeToString():
                wire_f32[id(tp)] = list(parts)
                protos.append(("float_data-wire", tp))
    if nm in ("DOUBLE", "COMPLEX128"):
        parts = xs if nm == "DOUBLE" else [p for x in xs for p in (x & M64, x >> 64)]
        tp = tp_base()
        tp.double_data.extend(f64_of_bits(p) for p in parts)
        if [bits_of_f64(v) for v in tp.double_data] == parts:
            protos.append(("double_data", tp))
    def pj(tp):
        j = proto_json(tp)
        if id(tp) in wire_f32:
            j["f32"] = wire_f32[id(tp)]
        return j

    for fname, tp in protos:
        add(f"proto:{fname}", (lambda tp=tp: serde.TensorProtoTensor(tp)), pj(tp))
    add("ir.tensor(proto)", (lambda tp=protos[idx % len(protos)][1]: ir.tensor(tp)), pj(protos[idx % len(protos)][1]))

    # ---- external at several offsets, with and without trailing bytes
    combos = [(0, 0), (1, 0), (7, 3), (0, 3), (5, 0)]
    for j, (pre, post) in enumerate(combos):
        if (j + idx) % 5 >= 3 and not (post == 0 and bw == 2):  # rotate, always keep 2-bit end-of-file
            continue
        content = bytes((37 * i + 11) % 251 for i in range(pre)) + rb + bytes((91 * i + 5) % 253 for i in range(post))
        fn = f"ext_{j}.bin"
        with open(os.path.join(workdir, fn), "wb") as f:
            f.write(content)
        off = None if (pre == 0 and (idx + j) % 2) else pre
        ln = None if (idx + j) % 3 == 0 else len(rb)
        add(
            f"external:pre{pre}post{post}",
            (lambda fn=fn, off=off, ln=ln: ir.ExternalTensor(fn, off, ln, d, shape=ir.Shape(dims), name="x", base_dir=workdir)),
            {"k": "external", "d": code, "dims": dims, "offset": off, "length": ln, "file": list(content)},
        )
    # offsets at / beyond the mmap allocation granularity (4096) and beyond 1 MiB: the prefix is a
    # pattern the model regenerates from `file_pad` (keeps the request small)
    big = list(item_extra.get("ext_pre", []))
    if idx % 7 == 0:
        big.append([4096, 4097, 8192 + 5, 12288, 65536 + 1][(idx // 7) % 5])
    if idx % 41 == 0:
        big.append([1 << 20, (1 << 20) + 7, (1 << 20) + 4096][(idx // 41) % 3])
    for j, pre in enumerate(big):
        post = bytes((91 * i + 5) % 253 for i in range(3 * (j % 2)))
        fn = f"ext_big_{j}.bin"
        with open(os.path.join(workdir, fn), "wb") as f:
            f.write(pad_pattern(pre))
            f.write(rb + post)
        ln = None if (idx + j) % 2 else len(rb)
        add(
            f"external:big{pre}",
            (lambda fn=fn, pre=pre, ln=ln: ir.ExternalTensor(fn, pre, ln, d, shape=ir.Shape(dims), name="x", base_dir=workdir)),
            {"k": "external", "d": code, "dims": dims, "offset": pre, "length": ln, "file_pad": pre, "file": list(rb + post)},
        )
    # the external proto form through deserialize_tensor
    content = b"\x07\x09" + rb
    with open(os.path.join(workdir, "ext_p.bin"), "wb") as f:
        f.write(content)
    tp = tp_base()
    tp.data_location = onnx.TensorProto.EXTERNAL
    for k, v in (("location", "ext_p.bin"), ("offset", "2"), ("length", str(len(rb)))):
        e = tp.external_data.add()
        e.key, e.value = k, v
    add(
        "deserialize(external proto)",
        (lambda tp=tp: serde.deserialize_tensor(tp, base_path=workdir)),
        {"k": "external", "d": code, "dims": dims, "offset": 2, "length": len(rb), "file": list(content)},
    )

    # ---- torch adapter
    if torch_ok:
        import torch

        from onnx_ir import tensor_adapters

        tdt = getattr(torch, TORCH_NAME[nm], None) if nm in TORCH_NAME else None
        if tdt is not None:
            if nm == "BFLOAT16" or nm.startswith("FLOAT8") or bw < 8:
                base_np = np.array(xs, dtype=np.uint16 if bw == 16 else np.uint8).reshape(dims)
                conv = lambda t: t.view(tdt)
            else:
                base_np = arr_from_bits(npdt, dims, xs).copy()
                conv = lambda t: t
            tt = conv(torch.from_numpy(base_np))
            tm = {"k": "torch", "d": code, "dims": dims, "elems": [int(x) for x in xs]}
            add("torch", lambda: tensor_adapters.TorchTensor(tt), tm)
            add("ir.tensor(torch)", lambda: ir.tensor(tt), tm)
            # contiguous views at a non-zero storage_offset of a larger storage (w[k:k+n], a row w[r], a
            # scalar w[k], narrow): the bytes must come from data_ptr(), not from the start of the storage
            umax = 2 if nm == "BOOL" else (1 << bw)
            junk = lambda m, salt: [((73 * i + 29 + salt) * 2654435761) % umax for i in range(m)]
            for vname, k, tail in (("torch-offset", [1, 3, 17, 5][idx % 4], 2), ("torch-row", n * (1 + idx % 2), n)):
                if vname == "torch-row" and n == 0:
                    continue
                units = junk(k, idx) + [int(x) for x in xs] + junk(tail, idx + 7)
                if nm == "BFLOAT16" or nm.startswith("FLOAT8") or bw < 8:
                    flat = np.array(units, dtype=np.uint16 if bw == 16 else np.uint8)
                else:
                    flat = arr_from_bits(npdt, [len(units)], units).copy()
                full = conv(torch.from_numpy(flat))
                if vname == "torch-row":
                    view = full.reshape(k // n + 2, n)[k // n].reshape(dims)
                elif dims == []:
                    view = full[k]
                elif idx % 3 == 0:
                    view = full.narrow(0, k, n).reshape(dims)
                else:
                    view = full[k : k + n].reshape(dims)
                assert view.storage_offset() == k and view.is_contiguous(), (vname, k, view.storage_offset())
                vm = {"k": "torch", "d": code, "dims": dims, "storage": units, "offset": k}
                add(vname, (lambda view=view: tensor_adapters.TorchTensor(view)), vm)
                if vname == "torch-offset":
                    add("ir.tensor(torch-offset)", (lambda view=view: ir.tensor(view)), vm)
            if len(dims) == 2 and not noncanon_bool:
                ttT = conv(torch.from_numpy(np.asfortranarray(base_np)))  # same logical content, column-major memory
                add("torch-strided", lambda: tensor_adapters.TorchTensor(ttT), tm)
            # lazy conjugate / negative views (finding D385: tobytes() / tofile() read the memory and ignored the bits
            # while numpy() resolves them): the memory holds the value with the sign of the imaginary part (resp. of
            # the number) flipped, the view's logical content is xs
            if nm in ("COMPLEX64", "COMPLEX128"):
                flipped = [int(x) ^ (1 << (bw - 1)) for x in xs]
                ttc = torch.from_numpy(arr_from_bits(npdt, dims, flipped).copy()).conj()
                assert ttc.is_conj()
                add("torchconj", lambda: tensor_adapters.TorchTensor(ttc), tm)
                add("ir.tensor(torchconj)", lambda: ir.tensor(ttc), tm)
            if nm in ("FLOAT", "DOUBLE"):
                cdt = np.dtype(np.complex64 if nm == "FLOAT" else np.complex128)
                cbits = [(((97 * i + 13 + idx) * 2654435761) % (1 << bw)) | ((int(x) ^ (1 << (bw - 1))) << bw) for i, x in enumerate(xs)]
                ttn = torch.from_numpy(arr_from_bits(cdt, dims, cbits).copy()).conj().imag
                assert ttn.is_neg()
                add("torchneg", lambda: tensor_adapters.TorchTensor(ttn), tm)

    # ---- LazyTensor around a rotating selection of the above
    base_reprs = list(out)
    for j, (name, make, model, _legal) in enumerate(base_reprs):
        if (j + idx) % 3 == 0 or name.startswith(("external:pre0post0", "external:big", "packed", "torch")) and (j + idx) % 2 == 0:
            cache = bool((j + idx) % 2)
            add(
                f"lazy>{name}",
                (lambda make=make, cache=cache: (lambda inner: ir.LazyTensor(lambda: inner, dtype=d, shape=ir.Shape(dims), cache=cache))(make())),
                {"k": "lazy", "d": code, "dims": dims, "inner": model},
                _legal,
            )
    return out


def kind_of(name: str) -> str:
    k = name.split(":")[0].replace("ir.tensor(torch-offset)", "torch").replace("ir.tensor(array-becompat)", "array").replace("ir.tensor(array-be)", "array")
    k = k.replace("ir.tensor(array)", "array").replace("ir.tensor(list)", "array").replace("ir.tensor(torch)", "torch")
    k = k.replace("ir.tensor(torchconj)", "torchconj")
    k = k.replace("ir.tensor(proto)", "proto").replace("deserialize(external proto)", "external")
    for p in ("array", "packed", "torch"):
        k = re.sub(rf"{p}-[a-z0-9]+", p, k)
    return k


def oracle(ir, name, d, dims, xs, o, dests, fails, torch_ok, legal=True):
    """The property itself on the real object `o` (observations) for a LEGAL representation."""
    from onnx import numpy_helper

    dname, bw, _ = SPEC[int(d)]
    n = len(xs)
    rb = list(ref_bytes(bw, xs))
    kind = kind_of(name)
    sz = "size0" if n == 0 else "n>0"

    def fail(obs, what, extra=""):
        fails.append((f"{kind}.{obs}:bw{bw}:{sz}:{what}{extra}", obs, f"{name} {dname}{dims}: {obs} {what}"))

    if "_ctor" in o:
        if not (legal == "be" and o["_ctor"] == "TypeError"):  # a non-native byte order may be rejected
            fail("ctor", "raised", ":" + name.split(">")[-1].split(":")[0])
        return
    if o["dtype"] != int(d):
        fail("dtype", "wrong")
    if o["shape"] != dims:
        fail("shape", "wrong")
    if o["nbytes"] != _nbytes(n, bw):
        fail("nbytes", "raised" if o["nbytes"] == "raised" else "wrong")
    if o["numpy"] == "raised":
        fail("numpy", "raised")
    else:
        if [u & ((1 << bw) - 1) for u in o["numpy"]] != [int(x) for x in xs]:
            fail("numpy", "wrong-bits")
        if o["_npshape"] != dims:
            fail("numpy", "wrong-shape")
        if o["_npdtype"] != spec_np(int(d)).name:
            fail("numpy", "wrong-npdtype")
    if o["tobytes"] == "raised":
        fail("tobytes", "raised")
    elif o["tobytes"] != rb:
        fail("tobytes", "wrong-bytes" if len(o["tobytes"]) == len(rb) else "wrong-len")
    if o["tofile"]["raised"]:
        fail("tofile", "raised")
    elif o["tofile"]["bytes"] != rb:
        fail("tofile", "wrong-bytes")
    for dk, res in o["dest"].items():
        rq = dest_request(dk)
        p = len(rq["img"]) if rq["append"] else rq["pos"]
        if rb:
            want = rq["img"][:p] + [0] * (p - len(rq["img"])) + rb + rq["img"][p + len(rb):]
        else:
            want = rq["img"]
        if res["raised"]:
            fail("dest", "raised", f":dest={dk}")
        elif res["img"] != want or res["pos"] != p + len(rb):
            fail("dest", "wrong-image", f":dest={dk}")
    if o["serialize"] == "raised":
        fail("serialize", "raised")
    elif kind_of(name).split(">")[-1] != "external":
        # the ONNX reference decoder reads the repo's serialized proto back to the logical bits
        if onnx_knows(int(d)):
            try:
                back = numpy_helper.to_array(o["_proto"])
                if [u & ((1 << bw) - 1) for u in units_of(back)] != [int(x) for x in xs] or list(back.shape) != dims:
                    fail("serialize", "wrong-bytes", ":onnx-reference-decodes-differently")
            except Exception as e:  # the reference could not decode it
                fail("serialize", "wrong-bytes", f":onnx-reference-raised-{type(e).__name__}")


_ONNX_KNOWS: dict = {}


def onnx_knows(code: int) -> bool:
    """Whether the installed onnx package knows the element type (older releases lack INT2/UINT2, ...)."""
    if code not in _ONNX_KNOWS:
        import onnx

        try:
            onnx.helper.tensor_dtype_to_np_dtype(code)
            _ONNX_KNOWS[code] = True
        except Exception:
            _ONNX_KNOWS[code] = False
    return _ONNX_KNOWS[code]


_TORCH = None


def torch_available() -> bool:
    global _TORCH
    if _TORCH is None:
        try:
            import torch  # noqa: F401

            _TORCH = True
        except Exception:
            _TORCH = False
    return _TORCH


def work_logical(item: dict) -> list:
    """Worker: one logical tensor -> records for every representation."""
    import warnings

    warnings.filterwarnings("ignore")
    import onnx_ir as ir
    from onnx import numpy_helper
    from onnx_ir import serde

    d = ir.DataType(item["d"])
    sbw = SPEC[item["d"]][1]
    dims, xs, idx = item["dims"], item["xs"], item["idx"]
    recs = []
    torch_ok = torch_available()
    with tempfile.TemporaryDirectory(prefix="c04-") as workdir:
        reprs = build_reprs(ir, d, dims, xs, idx, workdir, torch_ok, item)
        big = bool(item.get("big"))
        if big:  # a large tensor: a reduced set of representations, destinations that reach the chunk loops
            keep, seen_ext, seen_lazy = [], 0, 0
            for r in reprs:
                nm_ = r[0]
                if nm_ in ("array", "proto:raw_data", "packed"):
                    keep.append(r)
                elif nm_.startswith("external:") and seen_ext < 3:
                    keep.append(r)
                    seen_ext += 1
                elif nm_.startswith("lazy>external:") and seen_lazy < 1:
                    keep.append(r)
                    seen_lazy += 1
            reprs = keep
        # ONNX reference encoder agrees with the spec-level encoder of this file
        try:
            ref = numpy_helper.from_array(arr_from_bits(spec_np(item["d"]), dims, xs), "x")
            ref_ok = list(ref.raw_data) == list(ref_bytes(sbw, xs)) and ref.data_type == item["d"]
        except Exception:
            ref_ok = None  # element type unknown to the installed onnx
        for j, (name, make, model, legal) in enumerate(reprs):
            dests = [DESTS[(idx + j) % len(DESTS)], DESTS[(idx + 3 * j + 4) % len(DESTS)]]
            if name.startswith(("external", "lazy>external")) and "append" not in dests and (idx + j) % 2 == 0:
                dests[1] = "append"
            is_ext = name.startswith(("external", "lazy>external", "deserialize(external", "lazy>deserialize(external"))
            if is_ext and (idx + j) % 3 != 1:
                dests.append(EXT_DESTS[(idx + j) % len(EXT_DESTS)])
            if big:
                dests = ["append", "bytesio0", "file5+short", "file0+exdev"] if is_ext else ["file5", "bytesio5"][(idx + j) % 2 :][:1]
            dests = sorted(set(dests))
            o = observe(make, dests, workdir, order=idx + j)
            fails: list = []
            if legal:
                oracle(ir, name, d, dims, xs, o, dests, fails, torch_ok, legal)
                if ref_ok is False and j == 0:
                    fails.append((f"reference.encode:bw{sbw}", "reference", "onnx.numpy_helper.from_array differs from the spec-level encoder"))
            # typed-field protos built by this file are legal: the ONNX reference decodes them to the same bits
            if name.startswith("proto:") and "alt" not in name:
                try:
                    back = numpy_helper.to_array(make().raw)
                    if [u & ((1 << sbw) - 1) for u in units_of(back)] != [int(x) for x in xs]:
                        fails.append((f"reference.decode:{name}", "reference", "onnx.numpy_helper.to_array decodes the generated proto differently"))
                except Exception:
                    pass
            reqs = [{"m": "trepr.obs", "repr": model, "dests": [dest_request(k) for k in dests]}]
            rt = None
            if "_proto" in o and not name.startswith("lazy") and (idx + j) % 2 == 0 and not big:
                # deserialize(serialize(t)) observed again (a proto- or external-backed tensor)
                tp = o["_proto"]
                file = model.get("file") if model["k"] == "external" else None
                o2 = observe(lambda: serde.deserialize_tensor(tp, base_path=workdir), [], workdir)
                f2: list = []
                if legal:
                    oracle(ir, "roundtrip>" + name, d, dims, xs, o2, [], f2, torch_ok)
                rt = {"req": {"m": "trepr.deserialize", "proto": proto_json(tp), "file": file, "file_pad": model.get("file_pad")},
                      "impl": strip(o2), "fails": f2}
            recs.append({"name": name, "item": item, "reqs": reqs, "dests": dests, "impl": strip(o), "fails": fails, "rt": rt, "legal": legal})
    return recs


def strip(o: dict) -> dict:
    return {k: v for k, v in o.items() if k != "_proto"}


# --------------------------------------------------------------------------- generators

SPECIAL = {
    16: [0, 1, 0x7FFF, 0x8000, 0xFFFF, 0x7C00, 0xFC00, 0x7E00, 0x7D00, 0x7F80, 0xFF80, 0x7FC0, 0x7FA0, 0x3C00, 0x3F80, 0x00FF, 0xFF00],
    32: [0, 1, 0x7FFFFFFF, 0x80000000, 0xFFFFFFFF, 0x7F800000, 0xFF800000, 0x7FC00000, 0x7FA00000, 0x7F800001, 0x3F800000, 0x00800000, 0x007FFFFF, 0x000000FF, 0xFF000000, 0x01020304],
    64: [0, 1, (1 << 63) - 1, 1 << 63, M64, 0x7FF0000000000000, 0xFFF0000000000000, 0x7FF8000000000000, 0x7FF4000000000000, 0x7FF0000000000001,
         0x3FF0000000000000, 0x0010000000000000, 0x000FFFFFFFFFFFFF, 0x00000000FFFFFFFF, 0xFFFFFFFF00000000, 0x0102030405060708],
}


def gen_logical(ctx: Ctx, ir) -> list[dict]:
    """Logical tensors: every dtype x every shape; all bit patterns of <= 8-bit types are placed."""
    items = []
    rng = ctx.rng
    total = sum(_prod(s) for s in SHAPES)
    for code, (dname, bw, _npn) in SPEC.items():
        if dname == "BOOL":
            pool_rounds = [[0, 1] * 12, [1, 0, 0, 1, 1, 1, 0] * 4]
            # third deepening round: storage bytes OTHER than 0/1 (a BOOL element is its byte in every representation;
            # numpy reads any non-zero byte as True and keeps the byte): all 256 byte values are placed
            allp = list(range(256))
            rounds = (len(allp) + total - 1) // total
            seq = (allp * (rounds * total // len(allp) + 1))[: rounds * total]
            pool_rounds += [seq[i : i + total] for i in range(0, rounds * total, total)]
            pool_rounds.append([rng.randrange(256) for _ in range(total)])
        elif bw <= 8:
            allp = list(range(1 << bw))
            rounds = (len(allp) + total - 1) // total
            seq = (allp * (rounds * total // len(allp) + 1))[: rounds * total]
            pool_rounds = [seq[i : i + total] for i in range(0, rounds * total, total)]
            for _ in range(ctx.pick(1, 6)):
                pool_rounds.append([rng.randrange(1 << bw) for _ in range(total)])
        else:
            def pat(kind):
                if bw <= 64 and dname != "COMPLEX64":
                    return rng.choice(SPECIAL[bw]) if kind == "special" else rng.getrandbits(bw)
                h = 32 if dname == "COMPLEX64" else 64
                a = rng.choice(SPECIAL[h]) if kind == "special" or rng.random() < 0.3 else rng.getrandbits(h)
                b = rng.choice(SPECIAL[h]) if kind == "special" or rng.random() < 0.3 else rng.getrandbits(h)
                return a | (b << h)
            sp = SPECIAL[bw] if (bw <= 64 and dname != "COMPLEX64") else None
            pool_rounds = []
            if sp:
                seq = sp * 3
                pool_rounds.append(seq[:total])
                pool_rounds.append(seq[5 : 5 + total])
            pool_rounds.append([pat("special") for _ in range(total)])
            for _ in range(ctx.pick(2, 10)):
                pool_rounds.append([pat("random") for _ in range(total)])
        for r, pool in enumerate(pool_rounds):
            k = 0
            for s in SHAPES:
                n = _prod(s)
                xs = pool[k : k + n]
                k += n
                if len(xs) < n:
                    xs = xs + [0] * (n - len(xs))
                items.append({"d": code, "dims": list(s), "xs": xs, "round": r})
    return items


SUBBYTE_SHAPES = [[2], [4], [6], [8], [9], [12], [15], [16], [2, 2], [4, 4], [3, 4], [2, 3, 4]]


def gen_more(ctx: Ctx) -> list[dict]:
    """More lengths for the 2/4-bit types (multiples of 2 and 4 and odd tails), and a few large tensors whose
    external form goes through the 1 MiB chunk loop and several kernel-copy rounds."""
    rng = ctx.rng
    items = []
    for code, (dname, bw, _n) in SPEC.items():
        if bw < 8:
            for r in range(ctx.pick(1, 4)):
                for sh in SUBBYTE_SHAPES:
                    items.append({"d": code, "dims": list(sh), "xs": [rng.randrange(1 << bw) for _ in range(_prod(sh))], "round": 100 + r})
    mib = 1 << 20
    bigs = [(2, mib + 5)]  # UINT8: 1 MiB + 5 bytes
    if not ctx.quick:  # INT4 / UINT2 with odd counts (1 MiB + 1 bytes), and >= 3 MiB with odd tails
        bigs += [(22, 2 * mib + 1), (25, 4 * mib + 3), (1, 3 * mib // 4 + 1), (16, 3 * mib // 2 + 7), (7, 3 * mib // 8 + 3)]
    for code, n in bigs:
        bw = SPEC[code][1]
        raw = rng.randbytes(n * max(1, bw // 8))
        if bw < 8:
            xs = [b & ((1 << bw) - 1) for b in raw]
        else:
            w = bw // 8
            xs = [int.from_bytes(raw[i : i + w], "little") for i in range(0, len(raw), w)]
            if SPEC[code][0] == "FLOAT":  # keep signalling-NaN patterns out of the large float tensor
                xs = [x if (x & 0x7F800000) != 0x7F800000 else x & 0x807FFFFF for x in xs]
        items.append({"d": code, "dims": [n], "xs": xs, "big": True, "round": 200})
    return items


def gen_edge(ctx: Ctx, ir) -> list[dict]:
    """Illegal / edge inputs for model-vs-implementation comparison only (no oracle)."""
    rng = ctx.rng
    edge = []
    codes = [0, 8] + list(SPEC)
    for _ in range(ctx.pick(1500, 12000)):
        kind = rng.choice(["proto", "proto", "proto", "external", "packed", "torch", "array-shape"])
        d = rng.choice(codes + [27, 40])
        dims = rng.choice([[], [0], [1], [2], [3], [5], [2, 3], [4], [7]])
        n = _prod(dims)
        if kind == "proto":
            p = {"k": "proto", "d": d, "dims": dims, "raw": None, "i32": [], "i64": [], "u64": [], "f32": [], "f64": [], "ext": None}
            nf = rng.choice([0, 1, 1, 1, 2])
            if d == 8:
                d = p["d"] = 1  # string tensors are outside the model
            for f in rng.sample(["raw", "i32", "i64", "u64", "f32", "f64"], nf):
                ln = rng.choice([n, n, max(0, n - 1), n + 1, 2 * n, (n + 1) // 2, (n + 3) // 4, 0, 1, 8 * n, 4 * n])
                if f == "raw":
                    p["raw"] = [rng.randrange(256) for _ in range(ln)]
                elif f == "i32":
                    p["i32"] = [rng.choice([rng.randrange(-(1 << 31), 1 << 31), rng.randrange(-3, 300)]) for _ in range(ln)]
                elif f == "i64":
                    p["i64"] = [rng.choice([rng.randrange(-(1 << 63), 1 << 63), rng.randrange(-3, 3)]) for _ in range(ln)]
                elif f == "u64":
                    p["u64"] = [rng.choice([rng.getrandbits(64), rng.randrange(0, 5)]) for _ in range(ln)]
                elif f == "f32":
                    p["f32"] = [rng.choice([0x3F800000, 0x7F800000, 0, 0x40490FDB, 0xBF000000]) for _ in range(ln)]
                else:
                    p["f64"] = [rng.choice([0x3FF0000000000000, 0x7FF0000000000000, 0, 0x400921FB54442D18]) for _ in range(ln)]
            if rng.random() < 0.06:
                p["ext"] = {"offset": rng.choice([None, 0, 4]), "length": rng.choice([None, 4])}
            edge.append({"edge": "proto", "repr": p})
        elif kind == "array-shape":
            d = rng.choice([1, 2, 3, 5, 6, 7, 11, 12])
            bw = SPEC[d][1]
            m = rng.choice([n, n + 1, max(0, n - 1), 2 * n, 0])
            edge.append({"edge": "array-shape", "repr": {"k": "array", "d": d, "dims": dims, "elems": [rng.getrandbits(bw) for _ in range(m)]}})
        elif kind == "external":
            if d > 26 or d in (0, 8):
                d = rng.choice([1, 2, 21, 22, 25, 26, 10, 7, 14])
            bw = SPEC[d][1]
            nb = _nbytes(n, bw)
            flen = rng.choice([0, nb, nb, nb + 3, max(0, nb - 1), nb + 8, 1])
            file = None if rng.random() < 0.05 else [rng.randrange(256) for _ in range(flen)]
            off = rng.choice([None, 0, 0, 1, 3, flen, flen + 1])
            ln = rng.choice([None, None, nb, nb, nb + 1, max(0, nb - 1), 0])
            edge.append({"edge": "external", "repr": {"k": "external", "d": d, "dims": dims, "offset": off, "length": ln, "file": file}})
        elif kind == "packed":
            if d > 26:
                d = 21
            bw = SPEC[d][1] if d not in (0, 8) else 8
            nb = _nbytes(n, bw if bw in (2, 4) else 4)
            ln = rng.choice([nb, nb, nb, nb + 1, max(0, nb - 1), n])
            edge.append({"edge": "packed", "repr": {"k": "packed", "d": d, "dims": dims, "raw": [rng.randrange(256) for _ in range(ln)]}})
        else:
            d = rng.choice([21, 22, 23])  # element types without a torch mapping
            edge.append({"edge": "torch", "repr": {"k": "torch", "d": d, "dims": dims, "elems": [rng.randrange(16) for _ in range(n)]}})
    return edge


def make_from_model(ir, m: dict, workdir: str):
    """Construct the real object an edge-case model description denotes."""
    import onnx
    from onnx_ir import serde

    k = m["k"]
    if k == "proto":
        tp = onnx.TensorProto()
        tp.data_type = m["d"]
        tp.dims.extend(m["dims"])
        if m["raw"] is not None:
            tp.raw_data = bytes(m["raw"])
        tp.int32_data.extend(m["i32"])
        tp.int64_data.extend(m["i64"])
        tp.uint64_data.extend(m["u64"])
        tp.float_data.extend(f32_of_bits(b) for b in m["f32"])
        tp.double_data.extend(f64_of_bits(b) for b in m["f64"])
        if m["ext"] is not None:
            tp.data_location = onnx.TensorProto.EXTERNAL
            e = tp.external_data.add()
            e.key, e.value = "location", "nofile.bin"
            for kk in ("offset", "length"):
                if m["ext"][kk] is not None:
                    e = tp.external_data.add()
                    e.key, e.value = kk, str(m["ext"][kk])
        return lambda: serde.TensorProtoTensor(tp)
    if k == "external":
        fn = "edge.bin"
        path = os.path.join(workdir, fn)
        if os.path.exists(path):
            os.remove(path)
        if m["file"] is not None:
            with open(path, "wb") as f:
                f.write(bytes(m["file"]))
        return lambda: ir.ExternalTensor(fn, m["offset"], m["length"], ir.DataType(m["d"]), shape=ir.Shape(m["dims"]), name="x", base_dir=workdir)
    if k == "array":
        arr = arr_from_bits(spec_np(m["d"]), [len(m["elems"])], m["elems"])
        return lambda: ir.Tensor(arr, dtype=ir.DataType(m["d"]), shape=ir.Shape(m["dims"]))
    if k == "packed":
        return lambda: ir.PackedTensor(np.array(m["raw"], dtype=np.uint8), ir.DataType(m["d"]), shape=m["dims"])
    if k == "torch":
        import torch

        from onnx_ir import tensor_adapters

        tdt = {21: torch.uint4, 22: torch.int4, 23: torch.float4_e2m1fn_x2}[m["d"]]
        return lambda: tensor_adapters.TorchTensor(torch.from_numpy(np.array(m["elems"], dtype=np.uint8).reshape(m["dims"])).view(tdt))
    raise ValueError(k)


def work_edge(chunk: list) -> list:
    import warnings

    warnings.filterwarnings("ignore")
    import onnx_ir as ir

    recs = []
    with tempfile.TemporaryDirectory(prefix="c04-") as workdir:
        for e in chunk:
            m = e["repr"]
            if m["k"] == "torch" and not torch_available():
                continue
            try:
                make = make_from_model(ir, m, workdir)
            except Exception as ex:  # protobuf rejected the field value: not expressible
                recs.append({"edge": e, "skip": type(ex).__name__})
                continue
            o = observe(make, [], workdir, fresh=True)
            recs.append({"edge": e, "impl": strip(o)})
    return recs


# --------------------------------------------------------------------------- tables


def real_tables(ir) -> dict:
    from onnx_ir import _enums, tensor_adapters

    def opt(f):
        try:
            return f()
        except Exception:
            return None

    per = []
    for d in ir.DataType:
        npn = opt(lambda: d.numpy().name)
        sn = opt(d.short_name)
        per.append({
            "code": int(d),
            "bitwidth": opt(lambda: d.bitwidth),
            "np_name": npn,
            "short_name": sn,
            "from_short": None if sn is None else int(ir.DataType.from_short_name(sn)),
            "from_np": None if npn is None else int(ir.DataType.from_numpy(d.numpy())),
            "np_itembytes": 0 if npn is None else int(d.numpy().itemsize),
            "is_floating_point": d.is_floating_point(),
            "is_integer": d.is_integer(),
            "is_signed": d.is_signed(),
        })
    tm = []
    if torch_available():
        for d in ir.DataType:
            try:
                if tensor_adapters.from_torch_dtype(tensor_adapters.to_torch_dtype(d)) == d:
                    tm.append(int(d))
            except Exception:
                pass
    return {
        "members": [{"code": int(d), "name": d.name} for d in ir.DataType],
        "bitwidth": [[int(k), v] for k, v in _enums._BITWIDTH_MAP.items()],
        "np": [[k.name, int(v)] for k, v in _enums._NP_TYPE_TO_DATA_TYPE.items()],
        "np_itemsize": [[k.name, int(k.itemsize)] for k in _enums._NP_TYPE_TO_DATA_TYPE],
        "short": [[int(k), v] for k, v in _enums._DATA_TYPE_TO_SHORT_NAME.items()],
        "per_type": per,
        "torch_mapped": tm if torch_available() else None,
    }


def check_tables(ctx: Ctx, ir) -> None:
    import onnx

    real = real_tables(ir)
    model = lean_batch_parallel([{"m": "trepr.tables"}])[0]
    for key in ("members", "bitwidth", "np", "np_itemsize", "short", "per_type", "torch_mapped"):
        if real[key] is None:
            continue
        ctx.case(["table", key], nontrivial=True, sample={"table": key, "entries": len(real[key])}, kind="table")
        mval, rval = model.get(key), real[key]
        if key in ("bitwidth", "np", "np_itemsize", "short"):  # dict tables: the order of the entries is irrelevant
            mval, rval = sorted(mval or [], key=str), sorted(rval, key=str)
        if key == "torch_mapped":  # dtypes a (not too old) torch does not have yet are not in its map
            import torch

            lacking = {c for c, (nm_, _b, _n) in SPEC.items() if nm_ in TORCH_NAME and not hasattr(torch, TORCH_NAME[nm_])}
            mval = [c for c in mval if c not in lacking]
        if mval != rval:
            diff = [(a, b) for a, b in itertools.zip_longest(mval or [], rval) if a != b][:3]
            ctx.disagree(f"element-type table '{key}': Lean literal != _enums", {"table": key}, diff, None)
    ctx.exhaustive_scopes.append("element-type tables: every entry of _BITWIDTH_MAP, _NP_TYPE_TO_DATA_TYPE, _DATA_TYPE_TO_SHORT_NAME, "
                                 "the 27 enum members, is_floating_point/is_integer/is_signed and the torch dtype map")
    # oracle on the real tables (independent of the model): against the spec table of this file, the
    # onnx package, and the mutual-consistency claims of the property
    shorts = set()
    ref = dict(onnx.TensorProto.DataType.items())

    def chk(sig, what, f):
        try:
            ok = f()
        except Exception as e:  # a table lookup raised
            ok = False
            what = f"{what} (raised {type(e).__name__})"
        if not ok:
            ctx.fail(sig, what, {"table-entry": sig})

    for d in ir.DataType:
        nm = d.name
        chk(f"tables.member:{nm}", "enum member differs from onnx.TensorProto.DataType", lambda: ref.get(nm) == int(d))
        chk(f"tables.short:{nm}", "short names not invertible", lambda: ir.DataType.from_short_name(d.short_name()) == d and d.short_name() not in shorts)
        try:
            shorts.add(d.short_name())
        except Exception:
            pass
        if nm in ("UNDEFINED", "STRING"):
            continue
        _sn, sbw, snp = SPEC[int(d)]
        chk(f"tables.bitwidth:{nm}", "bit width differs from the ONNX specification", lambda: d.bitwidth == sbw)
        chk(f"tables.itemsize:{nm}", "itemsize*8 != bitwidth", lambda: d.itemsize * 8 == d.bitwidth)
        chk(f"tables.numpy:{nm}", "numpy type wrong or from_numpy(numpy()) != identity",
            lambda: d.numpy() == spec_np(int(d)) and ir.DataType.from_numpy(d.numpy()) == d)
        chk(f"tables.npitemsize:{nm}", "numpy itemsize inconsistent with bitwidth",
            lambda: d.numpy().itemsize == (d.bitwidth // 8 if d.bitwidth >= 8 else 1))
        try:
            onnx_np = onnx.helper.tensor_dtype_to_np_dtype(int(d))
        except Exception:
            ctx.count("tables.onnx-helper-unknown-type")
            onnx_np = None
        if onnx_np is not None:
            chk(f"tables.onnxnp:{nm}", "numpy type differs from onnx.helper.tensor_dtype_to_np_dtype", lambda: onnx_np == d.numpy())


# --------------------------------------------------------------------------- pack/unpack functions


def check_pack_functions(ctx: Ctx) -> None:
    from onnx_ir import _type_casting as tc

    reqs, impls, cases = [], [], []
    max4 = ctx.pick(3, 4)
    for n in range(0, max4 + 1):
        for xs in itertools.product(range(16), repeat=n):
            xs = list(xs)
            arr = np.array(xs, dtype=np.uint8)
            packed = tc.pack_4bitx2(arr)
            reqs.append({"m": "pack.pack4", "xs": xs})
            impls.append(packed.tolist())
            cases.append(("pack4", xs, n))
            reqs.append({"m": "pack.unpack4", "bs": packed.tolist(), "n": n})
            impls.append(tc.unpack_4bitx2(packed.copy(), [n]).ravel().tolist())
            cases.append(("unpack4", xs, n))
    ctx.exhaustive_scopes.append(f"pack4/unpack4: all nibble sequences of length <= {max4}")
    max2 = ctx.pick(5, 7)
    for n in range(0, max2 + 1):
        for xs in itertools.product(range(4), repeat=n):
            xs = list(xs)
            arr = np.array(xs, dtype=np.uint8)
            packed = tc.pack_2bitx4(arr)
            reqs.append({"m": "pack.pack2", "xs": xs})
            impls.append(packed.tolist())
            cases.append(("pack2", xs, n))
            reqs.append({"m": "pack.unpack2", "bs": packed.tolist(), "n": n})
            impls.append(tc.unpack_2bitx4(packed.copy(), [n]).ravel().tolist())
            cases.append(("unpack2", xs, n))
    ctx.exhaustive_scopes.append(f"pack2/unpack2: all crumb sequences of length <= {max2}")
    for _ in range(ctx.pick(500, 5000)):
        n = ctx.rng.randrange(0, 40)
        xs = [ctx.rng.randrange(256) for _ in range(n)]
        arr = np.array(xs, dtype=np.uint8)
        for name, fn in (("pack4", tc.pack_4bitx2), ("pack2", tc.pack_2bitx4)):
            reqs.append({"m": f"pack.{name}", "xs": xs})
            impls.append(fn(arr).tolist())
            cases.append((name + "-rand", xs, n))
    # arbitrary buffers against arbitrary element counts (resize / drop-padding rules), and nbytes
    for _ in range(ctx.pick(1500, 15000)):
        nb = ctx.rng.randrange(0, 9)
        bs = [ctx.rng.randrange(256) for _ in range(nb)]
        n = ctx.rng.choice([2 * nb, 2 * nb - 1, 4 * nb, 4 * nb - 1, 4 * nb - 3, ctx.rng.randrange(0, 40)])
        n = max(n, 0)
        for name, fn in (("unpack4", tc.unpack_4bitx2), ("unpack2", tc.unpack_2bitx4)):
            reqs.append({"m": f"pack.{name}", "bs": bs, "n": n})
            try:
                impls.append(fn(np.array(bs, dtype=np.uint8), [n]).ravel().tolist())
            except Exception:
                impls.append("raised")
            cases.append((name + "-any", bs, n))
    # the layout specification as a bit stream: element i occupies bits [i*w, (i+1)*w) of the little-endian
    # bit stream of the bytes, first element in the LOW bits; computed here with integer arithmetic
    # (independent of the packers), by the Lean specification `elemStream`, and read off the real bytes
    def bits_of_bytes(bs):
        v = int.from_bytes(bytes(bs), "little")
        return [bool((v >> i) & 1) for i in range(8 * len(bs))]

    def spec_bits(w, xs, nb):
        out = []
        for x in xs:
            out += [bool((x >> i) & 1) for i in range(w)]
        return out + [False] * (8 * nb - len(out))

    for _ in range(ctx.pick(300, 3000)):
        n = ctx.rng.randrange(0, 19)
        for w, fn in ((4, tc.pack_4bitx2), (2, tc.pack_2bitx4)):
            xs = [ctx.rng.randrange(1 << w) for _ in range(n)]
            real = fn(np.array(xs, dtype=np.uint8)).tolist()
            nb = (n * w + 7) // 8
            reqs.append({"m": "pack.elembits", "bw": w, "xs": xs, "nb": nb})
            impls.append(bits_of_bytes(real))
            cases.append((f"bitstream{w}", xs, n))
            if bits_of_bytes(real) != spec_bits(w, xs, nb):
                ctx.fail(f"pack{w}-bitstream", "packed bytes are not the specified little-endian bit stream (first element in the low bits)", {"xs": xs, "got": real})
        w = ctx.rng.choice([1, 2, 4, 8])
        xs = [ctx.rng.getrandbits(8 * w) for _ in range(n % 5)]
        real = list(np.array(xs, dtype=UINT[w]).astype(np.dtype(UINT[w]).newbyteorder("<")).tobytes())
        reqs.append({"m": "pack.elembits", "bw": 8 * w, "xs": xs, "nb": len(xs) * w})
        impls.append(bits_of_bytes(real))
        cases.append((f"bitstream{8 * w}", xs, len(xs)))
    outs = lean_batch_parallel(reqs)
    for (name, xs, n), impl, out in zip(cases, impls, outs):
        ctx.case([name, xs, n], nontrivial=len(xs) > 0, fn=name, length=min(len(xs), 8))
        if out.get("r") != impl:
            ctx.disagree(f"{name} model != implementation", {"fn": name, "xs": xs, "n": n}, out, impl)
        if name == "unpack4" and impl != [x % 16 for x in xs]:
            ctx.fail("unpack4(pack4)", "4-bit round trip loses elements", {"xs": xs, "got": impl})
        if name == "unpack2" and impl != [x % 4 for x in xs]:
            ctx.fail("unpack2(pack2)", "2-bit round trip loses elements", {"xs": xs, "got": impl})
        if name.startswith("pack4") and len(impl) != (len(xs) * 4 + 7) // 8:
            ctx.fail("pack4-len", "packed length != nbytes", {"xs": xs, "got": impl})
        if name.startswith("pack2") and len(impl) != (len(xs) * 2 + 7) // 8:
            ctx.fail("pack2-len", "packed length != nbytes", {"xs": xs, "got": impl})


# --------------------------------------------------------------------------- string tensors (oracle only)


def check_strings(ctx: Ctx, ir) -> None:
    """String tensors have no byte form (tobytes raises by design) and are outside the Lean model:
    every representation must report STRING, the shape, and equal element values (oracle only)."""
    import onnx
    from onnx_ir import serde

    pool = [b"", b"a", b"abc", "\u00e9\u4e2d".encode(), b"\xff\xfe", b"a\x00", b"\x00", b"\xff\x00\x00", b"x" * 40, b"tail\x00\x00"]
    rng = ctx.rng
    for rnd in range(ctx.pick(6, 40)):
        for dims in SHAPES:
            n = _prod(dims)
            vals = [pool[(rnd * 7 + i * 3 + len(dims)) % len(pool)] if rnd < 3 else rng.choice(pool) for i in range(n)]
            has_nul = any(v.endswith(b"\x00") for v in vals)
            tp = onnx.TensorProto()
            tp.data_type = 8
            tp.dims.extend(dims)
            tp.string_data.extend(vals)
            obj = np.empty(n, dtype=object)
            obj[:] = vals
            obj = obj.reshape(dims)
            reps = {
                "StringTensor(list)": lambda: ir.StringTensor(list(vals), shape=ir.Shape(dims)),
                "StringTensor(object array)": lambda: ir.StringTensor(obj),
                "deserialize(proto)": lambda: serde.deserialize_tensor(tp),
                "ir.tensor(proto)": lambda: ir.tensor(tp),
                "TensorProtoTensor": lambda: serde.TensorProtoTensor(tp),
                "lazy>deserialize(proto)": lambda: ir.LazyTensor(lambda: serde.deserialize_tensor(tp), dtype=ir.DataType.STRING, shape=ir.Shape(dims)),
                "roundtrip": lambda: serde.deserialize_tensor(serde.serialize_tensor(serde.deserialize_tensor(tp))),
            }
            # ir.tensor() on plain text / bytes values (D141)
            nested = obj.tolist()  # nested lists of bytes (a bytes object for a scalar)
            reps["ir.tensor(py:bytes)"] = lambda: ir.tensor(nested) if (n > 0 or dims == []) else ir.tensor(nested, dtype=ir.DataType.STRING)
            reps["ir.tensor(py:bytes,dtype)"] = lambda: ir.tensor(nested, dtype=ir.DataType.STRING)
            reps["ir.tensor(py:ndarray-object)"] = lambda: ir.tensor(obj)
            try:
                texts = [v.decode("utf-8") for v in vals]
            except UnicodeDecodeError:
                texts = None
            if texts is not None:
                tobj = np.empty(n, dtype=object)
                tobj[:] = texts
                tnested = tobj.reshape(dims).tolist()
                reps["ir.tensor(py:str)"] = lambda: ir.tensor(tnested) if (n > 0 or dims == []) else ir.tensor(tnested, dtype=ir.DataType.STRING)
                reps["ir.tensor(py:str,dtype)"] = lambda: ir.tensor(tnested, dtype=ir.DataType.STRING)
                if not has_nul:  # fixed-width numpy string arrays cannot hold trailing NULs in the first place
                    reps["ir.tensor(py:ndarray-U)"] = lambda: ir.tensor(np.array(texts, dtype=str).reshape(dims))
                    reps["ir.tensor(py:ndarray-S)"] = lambda: ir.tensor(np.array(vals, dtype=np.bytes_).reshape(dims))
            for name, make in reps.items():
                case = {"string": True, "dims": dims, "values": [v.hex() for v in vals], "repr": name}
                ctx.case(["string", name, dims, case["values"]], nontrivial=n > 0, dtype="STRING", representation="string:" + name, shape=str(dims))
                nul = ":trailing-nul" if has_nul else ""
                try:
                    t = make()
                    if int(t.dtype) != 8 or [int(x) for x in t.shape.numpy()] != dims:
                        ctx.fail(f"string.dtype-shape:{name}", "string tensor reports wrong dtype/shape", case)
                    a = t.numpy()
                    got = [bytes(x) if not isinstance(x, str) else x.encode() for x in np.asarray(a).reshape(-1).tolist()]
                    if list(a.shape) != dims:
                        ctx.fail(f"string.numpy-shape:{name}", "numpy() has the wrong shape", case)
                    elif got != vals:
                        ctx.fail(f"string.numpy{nul}:{name}", f"numpy() element values differ from the stored strings: {got[:3]}", case)
                    if hasattr(t, "string_data") and list(t.string_data()) != vals:
                        ctx.fail(f"string.string_data:{name}", "string_data() differs", case)
                    if name.startswith("ir.tensor(py:") or name.startswith(("StringTensor", "deserialize")):
                        # a string tensor made by the constructors is usable as one: nbytes, string_data()
                        try:
                            ok = int(t.nbytes) == sum(len(v) for v in vals) and hasattr(t, "string_data")
                        except Exception:
                            ok = False
                        if not ok:
                            ctx.fail(f"string.not-a-string-tensor:{name}", "nbytes raises / no string_data(): not a usable string tensor", case)
                    if name != "TensorProtoTensor":
                        sp = serde.serialize_tensor(t)
                        if list(sp.string_data) != vals or list(sp.dims) != dims or sp.data_type != 8:
                            ctx.fail(f"string.serialize:{name}", "serialized string_data differs", case)
                    try:
                        t.tobytes()
                        ctx.fail(f"string.tobytes:{name}", "tobytes() of a string tensor did not raise", case)
                    except (ValueError, TypeError):
                        pass
                except Exception as e:
                    ctx.fail(f"string.raised{nul}:{name}:{type(e).__name__}", "string tensor representation raised", case)


# --------------------------------------------------------------------------- external tensor: call histories (oracle only)


def check_external_state(ctx: Ctx, ir) -> None:
    """An ExternalTensor keeps state (mapping, array, validity).  Whatever was called before -- reads in any
    order, a read that failed because the data file is too short, release() -- a read must answer exactly
    what a fresh tensor answers; after invalidate() every read raises ValueError.  (The Lean model describes
    the fresh tensor; this stream is what ties the stateful object to it.)"""
    rng = ctx.rng

    def read(t, op):
        try:
            if op == "numpy":
                return ("ok", units_of(t.numpy()))
            if op == "tobytes":
                return ("ok", list(t.tobytes()))
            b = io.BytesIO()
            try:
                t.tofile(b)
                return ("ok", list(b.getvalue()))
            except Exception as e:
                return ("raised", type(e).__name__, list(b.getvalue()))
        except Exception as e:
            return ("raised", type(e).__name__)

    with tempfile.TemporaryDirectory(prefix="c04-") as wd:
        for i in range(ctx.pick(200, 2000)):
            code = rng.choice([1, 2, 5, 7, 10, 14, 21, 25])
            _nm, bw, _ = SPEC[code]
            dims = rng.choice([[1], [3], [5], [2, 3], [0]])
            n = _prod(dims)
            xs = [rng.getrandbits(bw) for _ in range(n)]
            rb = ref_bytes(bw, xs)
            pre = rng.choice([0, 0, 3])
            fkind = rng.choice(["legal", "legal", "short", "short1", "empty"]) if n else "legal"
            content = bytes(range(1, pre + 1)) + rb + (b"\x09\x08" if rng.random() < 0.5 else b"")
            if fkind == "short":
                content = content[: pre + len(rb) // 2]
            elif fkind == "short1":
                content = content[: pre + len(rb) - 1]
            elif fkind == "empty":
                content = b""
            fn = f"st_{i % 7}.bin"
            with open(os.path.join(wd, fn), "wb") as f:
                f.write(content)
            length = rng.choice([None, len(rb)])

            def mk():
                return ir.ExternalTensor(fn, pre or rng.choice([0, None]), length, ir.DataType(code), shape=ir.Shape(dims), name="x", base_dir=wd)

            fresh = {op: read(mk(), op) for op in ("numpy", "tobytes", "tofile")}
            seq = [rng.choice(["numpy", "tobytes", "tofile", "numpy", "tobytes", "release"]) for _ in range(rng.randrange(2, 7))]
            if rng.random() < 0.25:
                seq.insert(rng.randrange(1, len(seq) + 1), "invalidate")
                seq.append(rng.choice(["numpy", "tobytes", "tofile"]))
            t = mk()
            hist, invalid = "first", False
            case = {"external-state": True, "dtype": SPEC[code][0], "dims": dims, "file": fkind, "offset": pre, "length": length, "calls": seq}
            ctx.case(["external-state", code, dims, xs, fkind, pre, length, seq], nontrivial=True, representation="external-state", state_file=fkind)
            for op in seq:
                if op == "release":
                    try:
                        t.release()
                    except Exception as e:
                        ctx.fail(f"external.state:release-raised:{fkind}", f"release() raised {type(e).__name__}", case)
                    hist = "release"
                    continue
                if op == "invalidate":
                    t.invalidate()
                    invalid, hist = True, "invalidate"
                    continue
                got = read(t, op)
                want = ("raised", "ValueError") if invalid else fresh[op]
                okay = got[:2] == want[:2] if invalid else (got[0] == want[0] and (got[0] == "raised" or got == want))
                if not okay:
                    ctx.fail(f"external.state:{op}-after-{hist}:{fkind}",
                             f"{op}() after {hist} answers differently from a fresh tensor ({str(got)[:60]} vs {str(want)[:60]})", case)
                ctx.count(f"state_call={op}-after-{hist}")
                if got[0] == "raised" and not invalid:
                    hist = "failed-load" if op != "tofile" else "failed-tofile"
                elif not invalid:
                    hist = "reads"
            try:
                t.release()
            except Exception:
                pass


# --------------------------------------------------------------------------- string tensors vs the string model


def _srep_obs(t, is_string_tensor_expected=None) -> dict:
    """Observables of a real STRING tensor in the model's vocabulary."""
    o: dict = {}

    def elems(a):
        return [list(x.encode() if isinstance(x, str) else bytes(x)) for x in np.asarray(a, dtype=object).reshape(-1).tolist()]

    try:
        o["dtype"] = int(t.dtype)
    except Exception:
        o["dtype"] = "raised"
    try:
        o["shape"] = [int(x) for x in t.shape.numpy()]
    except Exception:
        o["shape"] = "raised"
    try:
        a = t.numpy()
        o["numpy"] = elems(a)
        o["_npshape"] = [int(x) for x in a.shape]
    except Exception as e:
        o["numpy"] = "raised"
        o["_numpy_exc"] = type(e).__name__
    try:
        o["string_data"] = [list(bytes(x)) for x in t.string_data()]
    except Exception:
        o["string_data"] = "raised"
    try:
        o["nbytes"] = int(t.nbytes)
    except Exception:
        o["nbytes"] = "raised"
    try:
        t.tobytes()
        o["tobytes"] = "returned"
    except Exception as e:
        o["tobytes"] = "raised"
        o["_tobytes_exc"] = type(e).__name__
    try:
        b = io.BytesIO()
        t.tofile(b)
        o["tofile"] = "returned"
    except Exception:
        o["tofile"] = "raised"
    try:
        from onnx_ir import serde

        sp = serde.serialize_tensor(t)
        o["serialize"] = {"dims": [int(x) for x in sp.dims], "string_data": [list(x) for x in sp.string_data], "raw": sp.HasField("raw_data")}
        if sp.data_type != 8:
            o["serialize"]["data_type"] = int(sp.data_type)
    except Exception:
        o["serialize"] = "raised"
    return o


def _canon_srep_model(m: dict) -> dict:
    def r(v):
        return "raised" if isinstance(v, dict) and set(v) == {"raised"} else v

    return {k: r(m.get(k)) for k in ("dtype", "shape", "numpy", "string_data", "nbytes", "tobytes", "tofile", "serialize")}


def check_strings_model(ctx: Ctx, ir) -> None:
    """STRING tensors against Model/StrTensor.lean (strt.obs / strt.py), representation by representation --
    legal ones and a deliberate stream of ill-formed ones (element count != prod(shape), raw_data on a STRING
    proto, lazy wrappers around those) -- plus the property on the real objects: every legal representation of
    the same elements reports STRING, the shape, exactly the elements (trailing NULs kept) and raises from
    tobytes()/tofile()."""
    import onnx
    from onnx_ir import serde

    rng = ctx.rng
    pool = [b"", b"a", b"abc", "é中".encode(), b"\xff\xfe", b"a\x00", b"\x00", b"\xff\x00\x00", b"x" * 40, b"tail\x00\x00", b"\x00\x00"]
    texts = ["", "a", "é中", "nul\x00", "\x00", "\U0001F600x", "tail\x00\x00", "plain ascii"]
    reqs, reals, metas = [], [], []

    def tp_of(vals, dims, raw=False):
        tp = onnx.TensorProto()
        tp.data_type = 8
        tp.dims.extend(dims)
        tp.string_data.extend(vals)
        if raw:
            tp.raw_data = b"\x01\x02"
        return tp

    def add(name, model, make, vals, dims, legal):
        try:
            t = make()
            o = _srep_obs(t)
        except Exception as e:
            o = {"_ctor": type(e).__name__}
        reqs.append({"m": "strt.obs", "repr": model})
        reals.append(o)
        metas.append((name, vals, dims, legal))

    for rnd in range(ctx.pick(40, 300)):
        dims = rng.choice(SHAPES + [[2, 2], [0, 3], [4]])
        n = _prod(dims)
        vals = [rng.choice(pool) for _ in range(n)]
        vl = [list(v) for v in vals]
        # legal representations
        obj = np.empty(n, dtype=object)
        obj[:] = vals
        obj = obj.reshape(dims)
        tp = tp_of(vals, dims)
        seq_m = {"k": "seq", "vals": vl, "dims": dims}
        add("StringTensor(list)", seq_m, lambda: ir.StringTensor(list(vals), shape=ir.Shape(dims)), vals, dims, True)
        add("StringTensor(object array)", {"k": "objarr", "vals": vl, "dims": dims}, lambda: ir.StringTensor(obj), vals, dims, True)
        add("TensorProtoTensor", {"k": "proto", "vals": vl, "dims": dims, "raw": False}, lambda: serde.TensorProtoTensor(tp), vals, dims, True)
        add("deserialize(proto)", seq_m, lambda: serde.deserialize_tensor(tp), vals, dims, True)
        add("ir.tensor(proto)", seq_m, lambda: ir.tensor(tp), vals, dims, True)
        add("lazy>StringTensor", {"k": "lazy", "dims": dims, "inner": seq_m},
            lambda: ir.LazyTensor(lambda: ir.StringTensor(list(vals), shape=ir.Shape(dims)), dtype=ir.DataType.STRING, shape=ir.Shape(dims)), vals, dims, True)
        add("lazy>TensorProtoTensor", {"k": "lazy", "dims": dims, "inner": {"k": "proto", "vals": vl, "dims": dims, "raw": False}},
            lambda: ir.LazyTensor(lambda: serde.TensorProtoTensor(tp), dtype=ir.DataType.STRING, shape=ir.Shape(dims), cache=bool(rnd % 2)), vals, dims, True)
        add("roundtrip", seq_m, lambda: serde.deserialize_tensor(serde.serialize_tensor(ir.StringTensor(obj))), vals, dims, True)
        # ill-formed: wrong element count, raw_data on a STRING proto, lazy around them
        if rnd % 2 == 0:
            bad = vals + [b"extra"] if rnd % 4 == 0 else vals[:-1] if vals else [b"x"]
            bl = [list(v) for v in bad]
            bad_m = {"k": "seq", "vals": bl, "dims": dims}
            add("edge:StringTensor(wrong count)", bad_m, lambda: ir.StringTensor(list(bad), shape=ir.Shape(dims)), bad, dims, False)
            tpb = tp_of(bad, dims)
            add("edge:TensorProtoTensor(wrong count)", {"k": "proto", "vals": bl, "dims": dims, "raw": False}, lambda: serde.TensorProtoTensor(tpb), bad, dims, False)
            add("edge:lazy>StringTensor(wrong count)", {"k": "lazy", "dims": dims, "inner": bad_m},
                lambda: ir.LazyTensor(lambda: ir.StringTensor(list(bad), shape=ir.Shape(dims)), dtype=ir.DataType.STRING, shape=ir.Shape(dims)), bad, dims, False)
            tpr = tp_of(vals, dims, raw=True)
            add("edge:TensorProtoTensor(raw_data)", {"k": "proto", "vals": vl, "dims": dims, "raw": True}, lambda: serde.TensorProtoTensor(tpr), vals, dims, False)
    outs = lean_batch_parallel(reqs)
    for (name, vals, dims, legal), o, mo in zip(metas, reals, outs):
        case = {"string-model": True, "repr": name, "dims": dims, "values": [bytes(v).hex() for v in vals]}
        ctx.case(["string-model", name, dims, case["values"]], nontrivial=len(vals) > 0, representation="strmodel:" + name, strmodel_legal=legal)
        if "err" in mo:
            ctx.disagree("string model rejected the request", case, mo, None)
            continue
        if "_ctor" in o:
            ctx.disagree(f"string {name}: constructor raised {o['_ctor']}", case, mo, o)
            continue
        m = _canon_srep_model(mo)
        for k in ("dtype", "shape", "numpy", "string_data", "nbytes", "tobytes", "tofile", "serialize"):
            if m[k] != o[k]:
                ctx.disagree(f"string {name}: {k} model != implementation", case, m[k], o[k])
        if legal:
            want = [list(v) for v in vals]
            has_nul = ":trailing-nul" if any(v.endswith(b"\x00") for v in vals) else ""
            if o["dtype"] != 8 or o["shape"] != dims:
                ctx.fail(f"string.dtype-shape:{name}", "string tensor reports wrong dtype/shape", case)
            if o["numpy"] != want or o.get("_npshape") != dims:
                ctx.fail(f"string.numpy{has_nul}:{name}", "numpy() elements / shape differ from the stored strings", case)
            if o["tobytes"] != "raised" or o.get("_tobytes_exc") not in ("ValueError", "TypeError"):
                ctx.fail(f"string.tobytes:{name}", "tobytes() of a string tensor did not raise ValueError/TypeError", case)
            if o["tofile"] != "raised":
                ctx.fail(f"string.tofile:{name}", "tofile() of a string tensor did not raise", case)
            if o["serialize"] == "raised" or o["serialize"].get("string_data") != want or o["serialize"].get("dims") != dims or "data_type" in o["serialize"]:
                ctx.fail(f"string.serialize:{name}", "serialized string_data / dims differ", case)
            if o["string_data"] != "raised" and o["string_data"] != want:
                ctx.fail(f"string.string_data:{name}", "string_data() differs", case)
            if o["nbytes"] != "raised" and o["nbytes"] != sum(len(v) for v in vals):
                ctx.fail(f"string.nbytes:{name}", "nbytes differs from the sum of the element lengths", case)
    # ir.tensor on python text / bytes data (strt.py): flattened elements + the shape numpy infers
    reqs, reals, metas = [], [], []
    for rnd in range(ctx.pick(150, 1200)):
        dims = rng.choice(SHAPES + [[2, 2], [0, 3], [2, 0], [4]])
        n = _prod(dims)
        kind = rng.choice(["bytes", "text", "mixed"])
        elems = []
        for _ in range(n):
            if kind == "bytes" or (kind == "mixed" and rng.random() < 0.5):
                elems.append({"b": list(rng.choice(pool))})
            else:
                elems.append({"s": rng.choice(texts)})
        pyvals = [bytes(e["b"]) if "b" in e else e["s"] for e in elems]
        objn = np.empty(n, dtype=object)
        objn[:] = pyvals
        nested = objn.reshape(dims).tolist()
        dims = [int(x) for x in np.array(nested, dtype=object).shape]  # the shape numpy infers from the nesting ([] for [0, 3])
        dts = rng.random() < 0.4
        try:
            t = ir.tensor(nested, dtype=ir.DataType.STRING) if dts else ir.tensor(nested)
            real = {"kind": "str" if int(t.dtype) == 8 else "numeric", "obs": _srep_obs(t) if int(t.dtype) == 8 else None, "cls": type(t).__name__}
        except ValueError:
            real = {"kind": "valueError"}
        except Exception as e:
            real = {"kind": "raised:" + type(e).__name__}
        reqs.append({"m": "strt.py", "elems": elems, "dims": dims, "dtype_string": dts})
        reals.append(real)
        metas.append((elems, dims, dts, [list(v.encode("utf-8")) if isinstance(v, str) else list(v) for v in pyvals]))
    outs = lean_batch_parallel(reqs)
    for (elems, dims, dts, want), real, mo in zip(metas, reals, outs):
        case = {"string-py": True, "dims": dims, "elems": elems, "dtype_string": dts}
        ctx.case(["string-py", dims, elems, dts], nontrivial=len(elems) > 0, representation="strmodel:ir.tensor(py)", strpy_kind=real["kind"], strpy_dtype_arg=dts)
        if "err" in mo:
            ctx.disagree("string model rejected the request", case, mo, None)
            continue
        if mo["kind"] != real["kind"]:
            ctx.disagree("ir.tensor(text/bytes): outcome kind model != implementation", case, mo["kind"], real["kind"])
            continue
        if real["kind"] == "str":
            m = _canon_srep_model(mo["obs"])
            for k in ("dtype", "shape", "numpy", "string_data", "nbytes", "tobytes", "tofile", "serialize"):
                if m[k] != real["obs"][k]:
                    ctx.disagree(f"ir.tensor(text/bytes): {k} model != implementation", case, m[k], real["obs"][k])
            o = real["obs"]
            if real["cls"] != "StringTensor" or o["numpy"] != want or o["shape"] != dims or o["string_data"] != want or o["tobytes"] != "raised":
                ctx.fail("string.py:not-the-elements", "ir.tensor(text/bytes) is not the StringTensor of the UTF-8 / bytes elements", case)


# --------------------------------------------------------------------------- strided array memory (the model does the reduction)

STRIDED_CODES = [1, 2, 3, 5, 7, 9, 10, 11, 12, 14, 15, 16, 17, 21, 22, 23, 25, 26]


def _storage_np_dtype(code: int, rng, holder: str):
    """The numpy dtype of the memory: the type's own (ml_dtypes) dtype, or the raw-bits forms Tensor accepts."""
    nm = SPEC[code][0]
    own = spec_np(code)
    if holder != "ndarray":
        return own
    alts = [own]
    if nm in ("UINT4", "FLOAT4E2M1", "UINT2") or nm.startswith("FLOAT8"):
        alts.append(np.dtype(np.uint8))
    if nm in ("INT4", "INT2"):
        alts += [np.dtype(np.uint8), np.dtype(np.int8)]
    if nm == "BFLOAT16":
        alts.append(np.dtype(np.uint16))
    return rng.choice(alts)


def gen_strided(ctx: Ctx) -> list[dict]:
    """Strided arrays as raw memory descriptions (shape, byte strides, byte offset, storage bytes, byte order)."""
    rng = ctx.rng
    items = []
    torch_ok = torch_available()
    for i in range(ctx.pick(700, 6000)):
        code = rng.choice(STRIDED_CODES)
        nm, bw, _ = SPEC[code]
        isz = max(1, bw // 8)
        holder = rng.choice(["ndarray", "ndarray", "compat", "torch"] if torch_ok and nm in TORCH_NAME else ["ndarray", "ndarray", "compat"])
        be = holder != "torch" and isz > 1 and nm not in ("BFLOAT16",) and rng.random() < 0.25
        family = rng.choice(["random", "random", "derived"])
        rank = rng.choice([0, 1, 1, 2, 2, 3, 4])
        shape = [rng.choice([1, 2, 2, 3, 3, 4, 5]) if rng.random() < 0.93 else 0 for _ in range(rank)]
        if family == "random":
            unaligned = holder != "torch" and isz > 1 and rng.random() < 0.1
            strides = []
            for _n in shape:
                k = rng.choice([0, 1, 1, 2, 3, 5, 6, -1, -1, -2, -3]) if holder != "torch" else rng.choice([0, 1, 1, 2, 3, 5, 6])
                strides.append(k * isz + (rng.choice([1, -1]) if unaligned and k else 0))
            lo = sum(min(0, (n - 1) * st) for n, st in zip(shape, strides) if n > 0)
            hi = sum(max(0, (n - 1) * st) for n, st in zip(shape, strides) if n > 0)
            pad = rng.choice([0, 0, 1, 2, 7]) * isz + (1 if unaligned and rng.random() < 0.5 else 0)
            offset = -lo + pad
            total = offset + hi + isz + rng.choice([0, 0, isz, 3])
            if holder == "torch":
                total += (-total) % isz
            derive = None
        else:
            base_shape = [n + rng.choice([0, 0, 1, 2]) for n in shape] if shape else []
            total = max(isz, _prod(base_shape) * isz) if base_shape else isz
            derive = {"base": base_shape, "seed": rng.getrandbits(32)}
            strides, offset = None, None
        if nm == "BOOL":
            storage = [rng.randrange(2) for _ in range(total)]
        else:
            storage = list(rng.randbytes(total))
        items.append({"strided": True, "family": family, "d": code, "shape": shape, "strides": strides, "offset": offset, "storage": storage,
                      "be": be, "holder": holder, "derive": derive, "sidx": i})
    return items


def _derive_view(base, seed: int):
    """A random chain of view operations (no copies) on a C-contiguous base array."""
    import random

    r = random.Random(seed)
    a = base
    for _ in range(r.randrange(1, 4)):
        op = r.choice(["T", "perm", "slice", "flip", "bcast", "newaxis", "slice"])
        if op == "T":
            a = a.T
        elif op == "perm" and a.ndim >= 2:
            perm = list(range(a.ndim))
            r.shuffle(perm)
            a = a.transpose(perm)
        elif op == "slice" and a.ndim >= 1:
            sl = []
            for n in a.shape:
                step = r.choice([1, 1, 2, -1, -2, 3])
                lo = r.randrange(0, n + 1)
                hi = r.randrange(lo, n + 1)
                sl.append(slice(lo, hi, step) if step > 0 else slice(hi - 1 if hi > 0 else None, lo - 1 if lo > 0 else None, step))
            a = a[tuple(sl)]
        elif op == "flip" and a.ndim >= 1:
            a = np.flip(a, axis=r.randrange(a.ndim))
        elif op == "bcast" and a.ndim <= 3:
            a = np.broadcast_to(a, (r.choice([1, 2, 3]),) + a.shape)
        elif op == "newaxis" and a.ndim <= 3:
            a = a[..., None] if r.random() < 0.5 else a[None]
    return a


def work_strided(item: dict) -> list:
    """Worker: one strided array -> one record (same layout as work_logical's records)."""
    import warnings

    warnings.filterwarnings("ignore")
    import onnx_ir as ir

    code, holder, be = item["d"], item["holder"], item["be"]
    nm, bw, _ = SPEC[code]
    d = ir.DataType(code)
    isz = max(1, bw // 8)
    rng_local = __import__("random").Random(item["sidx"])
    npdt = _storage_np_dtype(code, rng_local, holder)
    if be:
        npdt = npdt.newbyteorder(">")
    buf = bytearray(bytes(item["storage"]))
    if item["derive"] is not None:
        bshape = item["derive"]["base"]
        base = np.frombuffer(buf, dtype=npdt, count=_prod(bshape) if bshape else 1).reshape(bshape)
        arr = _derive_view(base, item["derive"]["seed"])
        offset = arr.__array_interface__["data"][0] - base.__array_interface__["data"][0] if arr.size or True else 0
        if arr.size == 0:
            offset = max(0, min(offset, len(buf)))
        strides, shape = [int(x) for x in arr.strides], [int(x) for x in arr.shape]
    else:
        shape, strides, offset = item["shape"], item["strides"], item["offset"]
        arr = np.ndarray(shape, dtype=npdt, buffer=buf, offset=offset, strides=strides)
    model = {"d": code, "dims": shape, "strides": strides, "offset": offset, "storage": item["storage"], "itemsize": isz,
             "be": bool(be), "cplx": nm.startswith("COMPLEX"), "nd": holder == "ndarray"}
    torch_ok = torch_available()
    if holder == "torch":
        import torch

        from onnx_ir import tensor_adapters

        tdt = getattr(torch, TORCH_NAME[nm], None)
        if tdt is None or any(st % isz for st in strides) or offset % isz or any(st < 0 for st in strides):
            return []
        try:
            flat = torch.frombuffer(buf, dtype={1: torch.uint8, 2: torch.uint16, 4: torch.uint32, 8: torch.uint64, 16: torch.complex128}[isz])
            flat = flat.view(tdt)
            tt = torch.as_strided(flat, shape, [st // isz for st in strides], offset // isz)
        except Exception:
            return []
        make = lambda: tensor_adapters.TorchTensor(tt)
        model["k"] = "tstrided"
        name = "torch-asstrided"
    elif holder == "compat":
        wrapped = _ArrayCompat(arr)
        make = lambda: ir.Tensor(wrapped, dtype=d)
        model["k"] = "strided"
        name = "array-stridedcompat"
    else:
        make = lambda: ir.Tensor(arr, dtype=d)
        model["k"] = "strided"
        name = "array-strided"
    ref = np.ascontiguousarray(arr)  # numpy as the reference for the logical order (independent of onnx_ir)
    xs = [u & ((1 << bw) - 1) for u in units_of(ref)]
    legal = "be" if (be and holder == "ndarray") else True
    idx = item["sidx"]
    dests = sorted({DESTS[idx % len(DESTS)], DESTS[(3 * idx + 4) % len(DESTS)]})
    with tempfile.TemporaryDirectory(prefix="c04s-") as workdir:
        o = observe(make, dests, workdir, order=idx)
    fails: list = []
    oracle(ir, name, d, shape, xs, o, dests, fails, torch_ok, legal)
    hist = {"strided_family": item["family"], "strided_holder": holder, "strided_rank": len(shape), "strided_be": bool(be),
            "strided_neg": any(st < 0 for st in strides), "strided_zero_stride": any(st == 0 and n > 1 for st, n in zip(strides, shape)),
            "strided_size0": _prod(shape) == 0, "strided_offset>0": offset > 0,
            "strided_unaligned": any(st % isz for st in strides) or offset % isz != 0,
            "strided_ccontig": bool(arr.flags["C_CONTIGUOUS"]), "strided_storage_dtype": npdt.name}
    reqs = [{"m": "trepr.obs", "repr": model, "dests": [dest_request(k) for k in dests]}, {"m": "strided.obs", "repr": model}]
    return [{"name": name, "item": {"d": code, "dims": shape, "xs": xs, "idx": idx, "strided": {k: model[k] for k in ("strides", "offset", "be", "nd", "itemsize")}},
             "reqs": reqs, "dests": dests, "impl": strip(o), "fails": fails, "rt": None, "legal": legal, "hist": hist, "strided": holder}]


# --------------------------------------------------------------------------- strided memory: the constructors' bounds checks


def check_strided_bounds(ctx: Ctx) -> None:
    """The hypothesis `inBounds` of the strided theorems is discharged by `C04_strided_npcheck` /
    `C04_strided_torchcheck` from a MODEL of the bounds check numpy's `ndarray(...)` constructor and
    `torch.as_strided` perform.  This stream ties that model to the installed numpy / torch: random descriptions
    (shape, byte strides, offset, buffer length), about half of them out of bounds, are offered to the real
    constructors; accepted <=> the model's check passes.  Oracle (arithmetic of this file): whatever numpy accepts
    over a NON-EMPTY buffer keeps every item inside the buffer (numpy accepts out-of-bounds strides over an empty
    buffer: observation D383, the reason for the `storage != []` hypothesis)."""
    rng = ctx.rng
    torch_ok = torch_available()
    reqs, reals, metas = [], [], []
    for i in range(ctx.pick(1500, 12000)):
        isz = rng.choice([1, 1, 2, 4, 8])
        rank = rng.choice([0, 1, 1, 2, 2, 3])
        shape = [rng.choice([1, 2, 3, 4]) if rng.random() < 0.9 else 0 for _ in range(rank)]
        holder = "torch" if torch_ok and rng.random() < 0.3 else "numpy"
        strides = [rng.choice([0, 1, 2, 3, 5]) * isz if holder == "torch" else rng.choice([0, 1, 1, 2, 3, -1, -2, 5]) * isz + rng.choice([0, 0, 0, 1, -1]) for _ in shape]
        lo = sum(min(0, (n - 1) * st) for n, st in zip(shape, strides))
        hi = sum(max(0, (n - 1) * st) for n, st in zip(shape, strides))
        offset = max(0, -lo + rng.choice([0, 0, isz, -isz, 1, -1, 3 * isz]))
        need = offset + hi + isz
        total = max(0, need + rng.choice([0, 0, 0, isz, -1, -isz, -2 * isz, 1, 4 * isz]))
        if rng.random() < 0.06:
            total = 0
        if holder == "torch":
            offset -= offset % isz
            total -= total % isz
        buf = bytearray(total)
        if holder == "numpy":
            try:
                a = np.ndarray(shape, dtype=UINT[isz], buffer=buf, offset=offset, strides=strides)
                accepted = True
                del a
            except (ValueError, TypeError):
                accepted = False
        else:
            import torch

            flat = torch.frombuffer(buf, dtype={1: torch.uint8, 2: torch.uint16, 4: torch.uint32, 8: torch.uint64}[isz]) if total else torch.zeros(0, dtype=torch.uint8)
            try:
                torch.as_strided(flat, shape, [st // isz for st in strides], offset // isz)
                accepted = True
            except RuntimeError:
                accepted = False
        empty = 0 in shape
        inside = empty or (offset + lo >= 0 and offset + hi + isz <= total)
        reqs.append({"m": "strided.check", "repr": {"dims": shape, "strides": strides, "offset": offset, "storage": [0] * total, "itemsize": isz, "be": False, "cplx": False}})
        reals.append(accepted)
        metas.append((holder, shape, strides, offset, total, isz, inside))
    outs = lean_batch_parallel(reqs)
    for (holder, shape, strides, offset, total, isz, inside), accepted, mo in zip(metas, reals, outs):
        case = {"strided-bounds": True, "holder": holder, "shape": shape, "strides": strides, "offset": offset, "buffer_len": total, "itemsize": isz}
        ctx.case(["strided-bounds", holder, shape, strides, offset, total, isz], nontrivial=True, representation="strided-bounds",
                 bounds_holder=holder, bounds_accepted=accepted, bounds_inside=inside, bounds_empty_buffer=total == 0)
        if "err" in mo:
            ctx.disagree("strided bounds: model rejected the request", case, mo, None)
            continue
        key = "np_check" if holder == "numpy" else "torch_check"
        if mo[key] != accepted:
            ctx.disagree(f"strided bounds: {holder} constructor check model != implementation", case, mo[key], accepted)
        if mo["in_bounds"] != inside:
            ctx.disagree("strided bounds: inBounds of the model != corner arithmetic of the harness", case, mo["in_bounds"], inside)
        if accepted and not inside:
            if holder == "numpy" and total == 0:
                ctx.count("bounds_numpy_accepts_oob_over_empty_buffer")  # observation D383 (numpy, not onnx_ir)
            else:
                ctx.fail(f"strided.bounds:{holder}:accepted-out-of-bounds", "the constructor accepted a description whose items leave the buffer", case)
        if accepted and (total > 0 or holder == "torch") and not mo["in_bounds"]:
            ctx.disagree("strided bounds: the driver's answer contradicts C04_strided_npcheck / C04_strided_torchcheck", case, mo, accepted)


# --------------------------------------------------------------------------- external tensor: call histories vs the lifecycle model


EXT_HIST_CODES = [1, 2, 5, 7, 10, 14, 15, 16, 21, 22, 25, 26, 9]
EXT_HIST_DIMS = [[1], [3], [5], [2, 3], [0], [], [4], [1, 0, 2]]


def ref_units(bw: int, data: bytes, n: int) -> list[int]:
    """Spec-level decoder (inverse of ref_bytes): the element bit patterns held by little-endian packed bytes."""
    if bw >= 8:
        w = bw // 8
        return [int.from_bytes(data[i * w : (i + 1) * w], "little") for i in range(n)]
    per = 8 // bw
    return [(data[i // per] >> (bw * (i % per))) & ((1 << bw) - 1) for i in range(n)]


def gen_ext_history(rng, i: int) -> dict:
    """One call history of one ExternalTensor over three directories (pure data; the worker executes it)."""
    code = rng.choice(EXT_HIST_CODES)
    bw = SPEC[code][1]
    dims = rng.choice(EXT_HIST_DIMS)
    n = _prod(dims)
    nb = _nbytes(n, bw)
    pre = rng.choice([0, 0, 1, 3, 4096 + 5])
    if pre > 100 and rng.random() < 0.8:
        pre = 2

    def content(kind=None):
        kind = kind or rng.choice(["legal", "legal", "legal", "legal", "short", "short1", "empty", "tail"])
        xs = [1 if rng.random() < 0.5 else 0 for _ in range(n)] if SPEC[code][0] == "BOOL" else [rng.getrandbits(bw) for _ in range(n)]
        body = bytes((37 * k + 11) % 251 for k in range(pre)) + ref_bytes(bw, xs)
        if kind == "tail":
            body += bytes(rng.randrange(256) for _ in range(rng.randrange(1, 4)))
        elif kind == "short":
            body = body[: pre + nb // 2]
        elif kind == "short1":
            body = body[: max(0, pre + nb - 1)]
        elif kind == "empty":
            body = b""
        return list(body)

    fs = []
    for d in range(3):
        if rng.random() < (0.85 if d == 0 else 0.6):
            fs.append({"d": d, "c": content("legal" if d == 0 and rng.random() < 0.6 else None)})
    offset = pre if (pre or rng.random() < 0.5) else None
    r = rng.random()
    length = None if r < 0.45 else nb if r < 0.9 else rng.choice([0, nb + 1, max(0, nb - 1)])
    ops = []
    for _ in range(rng.randrange(3, 13)):
        k = rng.random()
        if k < 0.50:
            en = rng.choice(["numpy", "asarray", "tobytes", "tobytes", "tofile"])
            ops.append({"op": "read", "en": en, "hold": en in ("numpy", "asarray") and rng.random() < 0.35})
        elif k < 0.62:
            ops.append({"op": "release"})
        elif k < 0.66:
            ops.append({"op": "invalidate"})
        elif k < 0.76:
            ops.append({"op": "basedir", "d": rng.randrange(3)})
        elif k < 0.82:
            ops.append({"op": "drop"})
        elif k < 0.94:
            ops.append({"op": "put", "d": rng.choice([0, 0, 1, 2]), "c": content()})
        else:
            ops.append({"op": "del", "d": rng.randrange(3)})
    ops.append({"op": "read", "en": rng.choice(["numpy", "tobytes", "tofile"]), "hold": False})
    return {"i": i, "ext": {"d": code, "dims": dims, "offset": offset, "length": length}, "fs": fs, "d0": 0, "ops": ops}


def _put_file(path: str, data: bytes) -> None:
    """Create or atomically REPLACE (new inode; never truncate a possibly mapped file in place)."""
    tmp = path + ".tmp"
    with open(tmp, "wb") as f:
        f.write(data)
    os.replace(tmp, path)


def exec_ext_history(h: dict, wd: str) -> list:
    """Run one history on the real code; one canonical observation per call."""
    import onnx_ir as ir

    dirs = [os.path.join(wd, f"h{h['i']}_d{k}") for k in range(3)]
    for d in dirs:
        os.makedirs(d, exist_ok=True)
    for ent in h["fs"]:
        _put_file(os.path.join(dirs[ent["d"]], "w.bin"), bytes(ent["c"]))
    e = h["ext"]
    t = ir.ExternalTensor("w.bin", e["offset"], e["length"], ir.DataType(e["d"]), shape=ir.Shape(e["dims"]), name="x", base_dir=dirs[h["d0"]])
    holds, out = [], []
    for k, op in enumerate(h["ops"]):
        kind = op["op"]
        cur_path = os.path.join(os.fspath(t.base_dir), "w.bin")
        try:
            with open(cur_path, "rb") as f:
                curfile = f.read()
        except FileNotFoundError:
            curfile = None
        rec = {"cur": None if curfile is None else len(curfile)}
        try:
            if kind == "read":
                en = op["en"]
                if en in ("numpy", "asarray"):
                    a = t.numpy() if en == "numpy" else np.asarray(t)
                    rec["obs"] = {"units": units_of(a)}
                    rec["npdtype"], rec["npshape"] = a.dtype.name, [int(x) for x in a.shape]
                    if op["hold"]:
                        holds.append(a)
                    del a
                elif en == "tobytes":
                    rec["obs"] = {"bytes": list(t.tobytes())}
                else:
                    regular = (h["i"] + k) % 3 == 0
                    if regular:
                        dst = open(os.path.join(wd, f"dst{h['i']}.bin"), "w+b")
                    else:
                        dst = io.BytesIO()
                    raised = None
                    try:
                        t.tofile(dst)
                    except Exception as ex:
                        raised = type(ex).__name__
                    dst.flush()
                    dst.seek(0)
                    rec["obs"] = {"wrote": list(dst.read()), "raised": raised is not None}
                    rec["exc"] = raised
                    dst.close()
                # the expected answer of the property, from the file on disk (independent of the model)
                rec["curbytes"] = curfile  # bytes (compact), None when there is no file
            elif kind == "release":
                t.release()
                rec["obs"] = "done"
            elif kind == "invalidate":
                t.invalidate()
                rec["obs"] = "done"
            elif kind == "basedir":
                t.base_dir = dirs[op["d"]]
                rec["obs"] = "done"
            elif kind == "drop":
                holds.clear()
                rec["obs"] = "done"
            elif kind == "put":
                _put_file(os.path.join(dirs[op["d"]], "w.bin"), bytes(op["c"]))
                rec["obs"] = "done"
            elif kind == "del":
                try:
                    os.unlink(os.path.join(dirs[op["d"]], "w.bin"))
                except FileNotFoundError:
                    pass
                rec["obs"] = "done"
        except Exception as ex:
            rec["obs"] = {"raised": type(ex).__name__}
        rec["valid"] = bool(t.valid())
        rec["basedir"] = dirs.index(os.fspath(t.base_dir))
        out.append(rec)
    holds.clear()
    try:
        t.release()
    except Exception:
        pass
    return out


def work_ext_histories(chunk: list) -> list:
    import warnings

    warnings.filterwarnings("ignore")
    with tempfile.TemporaryDirectory(prefix="c04h-") as wd:
        return [exec_ext_history(h, wd) for h in chunk]


def _canon_ext_obs(o, is_tofile: bool):
    """Model or implementation observation -> comparable form (exception types are information only)."""
    if isinstance(o, dict) and "raised" in o and len(o) == 1:
        return {"wrote": [], "raised": True} if is_tofile else "raised"
    return o


def ext_expected(ext: dict, en: str, cur) -> object:
    """The property's answer for a read of the file content `cur` (None: no file), spec-level."""
    bw = SPEC[ext["d"]][1]
    n = _prod(ext["dims"])
    nb = _nbytes(n, bw)
    off = ext["offset"] or 0
    if en == "tofile":
        if cur is None:
            return {"wrote": [], "raised": True}
        avail = cur[off : off + nb]
        return {"wrote": list(avail), "raised": len(avail) < nb}
    if n == 0:
        return {"units": []} if en != "tobytes" else {"bytes": []}
    if cur is None or len(cur) == 0 or off + nb > len(cur):
        return "raised"
    sl = bytes(cur[off : off + nb])
    return {"bytes": list(sl)} if en == "tobytes" else {"units": ref_units(bw, sl, n)}


def check_external_histories(ctx: Ctx, ir, corpus: list | None = None) -> None:
    """Call histories of ONE ExternalTensor object on real files vs the lifecycle model (extlife.run), call by
    call; and the property itself on the real object: whenever the harness has not replaced / removed the named
    file under a possibly held mapping, every read must answer exactly the bytes [offset, offset+nbytes) of the
    file currently named by (base_dir, location) -- the same through numpy()/__array__/tobytes()/tofile() -- or
    raise; after invalidate() every read raises ValueError; release() and base_dir changes never leave anything
    behind that a later read answers from."""
    rng = ctx.rng
    hists = [dict(c["hist"], i=10_000 + j) for j, c in enumerate(corpus or [])]
    ncorpus = len(hists)
    hists += [gen_ext_history(rng, i) for i in range(ctx.pick(1500, 12000))]
    chunks = [hists[i : i + 60] for i in range(0, len(hists), 60)]
    reals = [r for rs in pmap(work_ext_histories, chunks) for r in rs]
    outs = lean_batch_parallel([{"m": "extlife.run", "ext": h["ext"], "fs": h["fs"], "d0": h["d0"], "ops": h["ops"]} for h in hists])
    nquiet = 0
    for hi, (h, real, mo) in enumerate(zip(hists, reals, outs)):
        ext = h["ext"]
        dname, bw, _ = SPEC[ext["d"]]
        n = _prod(ext["dims"])
        nb = _nbytes(n, bw)
        legal_desc = ext["length"] in (None, 0, nb)
        case = {"hist": {k: h[k] for k in ("ext", "fs", "d0", "ops")}}
        ctx.case(["ext-history", ext, h["fs"], h["ops"]], nontrivial=True,
                 sample={"external-history": [o["op"] + (":" + o["en"] if o["op"] == "read" else "") for o in h["ops"]], "dtype": dname, "dims": ext["dims"]},
                 representation="external-history", hist_dtype=dname, hist_len=min(len(h["ops"]), 12), hist_corpus=hi < ncorpus)
        if "err" in mo:
            ctx.disagree("external history: model rejected the request", case, mo, None)
            continue
        nquiet += bool(mo["quiet"])
        ctx.count(f"hist_quiet={bool(mo['quiet'])}")
        invalidated, maybe_loaded, touched = False, False, False
        for k, (op, r, m) in enumerate(zip(h["ops"], real, mo["trace"])):
            kind = op["op"]
            is_tofile = kind == "read" and op["en"] == "tofile"
            got, want_m = _canon_ext_obs(r["obs"], is_tofile), _canon_ext_obs(m["obs"], is_tofile)
            label = kind + (":" + op["en"] if kind == "read" else "")
            ctx.count(f"hist_op={label}")
            if got != want_m:
                ctx.disagree(f"external history call {k} ({label}): model != implementation", dict(case, call=k), m["obs"], r["obs"])
            if r["valid"] == (not m["valid"]) and kind != "invalidate":
                pass  # `valid` in the trace is the state BEFORE the call; compared below through the reads
            if kind == "read":
                ctx.count(f"hist_read_coherent={m['coherent']}")
                ctx.count(f"hist_read_outcome={'raised' if got == 'raised' or (isinstance(got, dict) and got.get('raised')) else 'ok'}")
                cur = r.get("curbytes")
                exp = ext_expected(ext, op["en"], cur)
                # the instance of C04_ext_history_agree in the model: coherent & valid => obs = fresh(current file)
                if m["coherent"] and m["valid"] and _canon_ext_obs(m["fresh"], is_tofile) != want_m:
                    ctx.disagree("external history: the driver's answer contradicts C04_ext_history_agree", dict(case, call=k), m["obs"], m["fresh"])
                if invalidated:
                    ok = (got == "raised" or (is_tofile and got == {"wrote": [], "raised": True})) and (r["obs"].get("raised") == "ValueError" or r.get("exc") == "ValueError")
                    if not ok:
                        ctx.fail(f"external.history:{op['en']}-after-invalidate", f"{op['en']}() after invalidate() did not raise ValueError: {str(r['obs'])[:60]}", dict(case, call=k))
                elif legal_desc and not touched:
                    ctx.count("hist_oracle_reads")
                    g = got
                    if isinstance(g, dict) and "units" in g:
                        g = {"units": [u & ((1 << bw) - 1) for u in g["units"]]}
                        if r["npshape"] != ext["dims"] or r["npdtype"] != spec_np(ext["d"]).name:
                            ctx.fail(f"external.history:{op['en']}:wrong-shape-or-dtype", "array of the wrong shape / numpy dtype", dict(case, call=k))
                    if g != exp:
                        ctx.fail(f"external.history:{op['en']}:bw{bw}:{'size0' if n == 0 else 'n>0'}:not-the-current-file",
                                 f"{op['en']}() call {k} does not answer the bytes of the file currently named: {str(g)[:50]} vs {str(exp)[:50]}", dict(case, call=k))
                elif legal_desc and touched:
                    ctx.count("hist_reads_after_replacement_under_mapping")
                    g = got
                    if isinstance(g, dict) and "units" in g:
                        g = {"units": [u & ((1 << bw) - 1) for u in g["units"]]}
                    if g != exp:
                        ctx.count("stale_mapping_divergence")  # observation D380: outside the property's quantifier
                if op["en"] != "tofile" and not (got == "raised"):
                    maybe_loaded = True
            elif kind == "release":
                maybe_loaded, touched = False, False
            elif kind == "basedir":
                if op["d"] != r0_basedir(real, k, h["d0"]):
                    maybe_loaded, touched = False, False
            elif kind == "invalidate":
                invalidated = True
            elif kind in ("put", "del"):
                if maybe_loaded and op["d"] == r["basedir"]:
                    touched = True
                if m["disturbs"]:
                    ctx.count("hist_disturbing_ops")
        if bool(mo["final_coherent"]) is False:
            ctx.count("hist_final_incoherent")
    ctx.count("hist_total", len(hists))
    ctx.notes.append(f"external histories: {nquiet}/{len(hists)} quiet (hypothesis of C04_ext_quiet_coherent); coherence of the state before every read is in the histogram (hist_read_coherent=...)")


def r0_basedir(real: list, k: int, d0: int) -> int:
    """The base directory (index) before call k."""
    return d0 if k == 0 else real[k - 1]["basedir"]


# --------------------------------------------------------------------------- ir.tensor on plain Python data vs Model/PyTensor.lean

_F64 = {
    "0.0": 0x0000000000000000, "-0.0": 0x8000000000000000, "1.0": 0x3FF0000000000000, "-1.5": 0xBFF8000000000000,
    "0.5": 0x3FE0000000000000, "1.7": 0x3FFB333333333333, "-1.7": 0xBFFB333333333333, "0.1": 0x3FB999999999999A,
    "2.5": 0x4004000000000000, "300.5": 0x4072C80000000000, "17.9": 0x4031E66666666666, "-9.0": 0xC022000000000000,
    "1e10": 0x4202A05F20000000, "2^63": 0x43E0000000000000, "-2^63": 0xC3E0000000000000, "2^64": 0x43F0000000000000,
    "1e19": 0x43E158E460913D00, "inf": 0x7FF0000000000000, "-inf": 0xFFF0000000000000, "nan": 0x7FF8000000000000,
    "-nan": 0xFFF8000000000000, "min-sub": 0x0000000000000001, "max": 0x7FEFFFFFFFFFFFFF, "1e39": 0x48078287F49C4A1D,
    # ties and near-ties of the narrower formats
    "f32max": 0x47EFFFFFE0000000, "f32max+half": 0x47EFFFFFF0000000, "f32max+half-": 0x47EFFFFFEFFFFFFF,
    "f32sub-min": 0x36A0000000000000, "f32sub-half": 0x3690000000000000, "f32sub-half+": 0x3690000000000001,
    "f32sub-1.5": 0x36A8000000000000, "f32norm-min-": 0x380FFFFFFFFFFFFF, "f32 1+2^-24": 0x3FF0000010000000,
    "f32 1+3*2^-24": 0x3FF0000030000000, "f32 1+2^-24+": 0x3FF0000010000001,
    "f16max": 0x40EFFC0000000000, "f16 65519": 0x40EFFDE000000000, "f16 65520": 0x40EFFE0000000000,
    "f16sub-min": 0x3E70000000000000, "f16sub-half": 0x3E60000000000000, "f16sub-half+": 0x3E60000000000001,
    "f16 1+2^-11": 0x3FF0020000000000, "f16 1+2^-11+": 0x3FF0020000000001, "f16 1+3*2^-11": 0x3FF0060000000000,
    "bf16 1+2^-8": 0x3FF0100000000000, "bf16 1+2^-8+2^-30": 0x3FF0100004000000, "bf16 1+3*2^-8": 0x3FF0300000000000,
    "bf16max+": 0x47EFF00000000000, "bf16sub-half": 0x3780000000000000, "bf16sub-half+": 0x3780000000000001,
}
_PY_INTS = [0, 1, -1, 2, 3, 4, 7, 8, -8, -9, 15, 16, 127, 128, -128, -129, 255, 256, 257, 2049, 2051, 65504, 65519, 65520, 65535, 65536,
            2**24 + 1, 2**24 + 3, 2**31 - 1, 2**31, -(2**31), -(2**31) - 1, 2**32 - 1, 2**32, 2**53 + 1, 2**60 + 2**36 + 1,
            2**60 + 2**52 + 2**36 + 1, 2**63 - 1, 2**63, -(2**63), -(2**63) - 1, 2**64 - 1, 2**64, 2**100, 2**127 + 2**103,
            2**128, 2**1023, 2**1024 - 2**970, 2**1024 - 2**970 - 1, 2**1024]
_PY_TEXT = [{"s": "a"}, {"s": ""}, {"s": "\u00e9\u4e2d"}, {"s": "nul\x00"}, {"b": [97, 98]}, {"b": [97, 0]}, {"b": []}]
_PY_COMPLEX = [{"c": [_F64["1.0"], _F64["2.5"]]}, {"c": [_F64["0.1"], _F64["-0.0"]]}, {"c": [_F64["0.0"], _F64["0.0"]]},
               {"c": [_F64["nan"], _F64["0.0"]]}, {"c": [_F64["inf"], _F64["-1.5"]]}, {"c": [_F64["f32max+half"], _F64["f16 65520"]]}]
_PY_KINDS = ["none", "bool", "int", "float", "complex", "str", "bytes"]


def _py_leaf(rng, kind: str):
    """One scalar (in the JSON form the model driver reads) of the given kind."""
    if kind == "none":
        return None
    if kind == "bool":
        return rng.random() < 0.5
    if kind == "int":
        r = rng.random()
        return {"i": rng.choice(_PY_INTS) if r < 0.5 else rng.randrange(-20, 21) if r < 0.8 else rng.choice([1, -1]) * rng.getrandbits(rng.choice([8, 16, 31, 33, 62, 64, 70]))}
    if kind == "float":
        r = rng.random()
        if r < 0.6:
            return {"f": rng.choice(list(_F64.values()))}
        b = rng.getrandbits(64)
        if (b >> 52) & 0x7FF == 0x7FF and b & ((1 << 52) - 1):  # only the canonical quiet NaNs
            b = (b & (1 << 63)) | 0x7FF8000000000000
        return {"f": b}
    if kind == "complex":
        return rng.choice(_PY_COMPLEX)
    if kind == "str":
        return rng.choice([t for t in _PY_TEXT if "s" in t])
    return rng.choice([t for t in _PY_TEXT if "b" in t])


def _py_value(spec, depth=0):
    """JSON form -> the Python object handed to ir.tensor (lists at even depth, tuples at odd depth)."""
    if isinstance(spec, list):
        items = [_py_value(x, depth + 1) for x in spec]
        return tuple(items) if depth % 2 else items
    if spec is None or isinstance(spec, bool):
        return spec
    if "i" in spec:
        return spec["i"]
    if "f" in spec:
        return f64_of_bits(spec["f"])
    if "c" in spec:
        return complex(f64_of_bits(spec["c"][0]), f64_of_bits(spec["c"][1]))
    if "s" in spec:
        return spec["s"]
    return bytes(spec["b"])


def _py_shapes(max_nodes: int, max_len: int, max_depth: int) -> list:
    """Every nesting (tree of lists with leaf slots "L") up to the bounds, inhomogeneous ones included."""
    from functools import lru_cache

    @lru_cache(None)
    def trees(nodes: int, depth: int):
        out = [("L", 1)] if nodes >= 1 else []
        if depth > 0 and nodes >= 1:
            def seqs(k, budget):  # sequences of k trees using at most budget nodes
                if k == 0:
                    return [((), 0)]
                res = []
                for t, n in trees(budget - (k - 1), depth - 1):
                    for rest, m in seqs(k - 1, budget - n):
                        res.append(((t,) + rest, n + m))
                return res
            for k in range(0, max_len + 1):
                for items, n in seqs(k, nodes - 1) if k else [((), 0)]:
                    out.append((items, n + 1))
        # distinct
        seen, res = set(), []
        for t, n in out:
            if t not in seen and n <= nodes:
                seen.add(t)
                res.append((t, n))
        return tuple(res)

    return [t for t, _n in trees(max_nodes, max_depth)]


def _py_fill(shape, leaves: list):
    """Replace the leaf slots of a nesting by the given scalars (consumed left to right)."""
    if shape == "L":
        return leaves.pop(0)
    return [_py_fill(c, leaves) for c in shape]


def _py_nslots(shape) -> int:
    return 1 if shape == "L" else sum(_py_nslots(c) for c in shape)


def _py_depth(spec) -> int:
    return 1 + max([_py_depth(x) for x in spec], default=0) if isinstance(spec, list) else 0


def _py_leaves(spec) -> list:
    return [l for x in spec for l in _py_leaves(x)] if isinstance(spec, list) else [spec]


def _py_kind(leaf) -> str:
    if leaf is None:
        return "none"
    if isinstance(leaf, bool):
        return "bool"
    return {"i": "int", "f": "float", "c": "complex", "s": "str", "b": "bytes"}[next(iter(leaf))]


def gen_pytensor(ctx: Ctx) -> list[dict]:
    rng = ctx.rng
    cases = []
    codes = list(range(27))
    # (1) exhaustive small scope: every nesting x every assignment of the 7 scalar kinds, without a dtype and with
    #     two dtypes each (rotating through all 27 codes)
    shapes = _py_shapes(ctx.pick(6, 7), 3, 3)
    k = 0
    for sh in shapes:
        ns = _py_nslots(sh)
        if ns > 3:
            continue
        for kinds in itertools.product(_PY_KINDS, repeat=ns):
            spec = _py_fill(sh, [_py_leaf(rng, kd) for kd in kinds])
            cases.append({"v": spec, "dtype": None, "fam": "exhaustive"})
            for _ in range(2):
                cases.append({"v": _py_fill(sh, [_py_leaf(rng, kd) for kd in kinds]), "dtype": codes[k % 27], "fam": "exhaustive"})
                k += 1
    # (2) the conversion table: every pool scalar x every dtype, as a scalar and inside a list
    pool = [None, True, False] + [{"i": i} for i in _PY_INTS] + [{"f": b} for b in _F64.values()] + _PY_COMPLEX + _PY_TEXT
    for j, leaf in enumerate(pool):
        for c in codes:
            cases.append({"v": leaf if (j + c) % 2 else [leaf], "dtype": c, "fam": "cast"})
        cases.append({"v": leaf, "dtype": None, "fam": "cast"})
        cases.append({"v": [leaf], "dtype": None, "fam": "cast"})
        cases.append({"v": [[leaf, leaf]], "dtype": None, "fam": "cast"})
    # (3) random regular arrays of one or two kinds (mostly convertible), larger shapes
    for _ in range(ctx.pick(5000, 40000)):
        dims = [rng.choice([0, 1, 2, 2, 3, 4]) for _ in range(rng.choice([0, 1, 1, 2, 2, 3]))]
        kd = rng.choice(["bool", "int", "int", "float", "float", "complex", "str", "bytes"])
        kd2 = rng.choice([kd, kd, kd, rng.choice(_PY_KINDS)])
        small = rng.random() < 0.5

        def leaf():
            k_ = kd if rng.random() < 0.8 else kd2
            if small and k_ == "int":
                return {"i": rng.randrange(-8, 8)}
            return _py_leaf(rng, k_)

        def build(ds):
            return leaf() if not ds else [build(ds[1:]) for _ in range(ds[0])]

        spec = build(dims)
        if rng.random() < 0.06 and isinstance(spec, list) and spec:  # make it inhomogeneous
            spec = spec + [leaf()] if isinstance(spec[0], list) else spec + [[leaf()]]
        r = rng.random()
        dt = None if r < 0.4 else rng.choice([1, 2, 3, 5, 6, 7, 9, 10, 11, 12, 13, 14, 15, 16, 21, 22, 25, 26]) if r < 0.9 else rng.choice(codes)
        cases.append({"v": spec, "dtype": dt, "fam": "random"})
    return cases


def _pyt_real(ir, case: dict, workdir: str) -> dict:
    """ir.tensor(value, dtype) on the real code: outcome kind + observables."""
    v = _py_value(case["v"])
    dt = None if case["dtype"] is None else ir.DataType(case["dtype"])
    try:
        t = ir.tensor(v, dtype=dt)
    except Exception as e:
        return {"kind": "raised", "exc": type(e).__name__}
    cls = type(t).__name__
    if cls == "StringTensor":
        return {"kind": "str", "obs": _srep_obs(t), "cls": cls}
    if int(t.dtype) == 8:
        return {"kind": "degenerate", "dims": [int(x) for x in t.shape.numpy()], "cls": cls, "npkind": np.asarray(t.numpy()).dtype.kind}
    o = observe(lambda: t, [], workdir)
    return {"kind": "numeric", "d": int(t.dtype), "dims": [int(x) for x in t.shape.numpy()], "obs": strip(o), "cls": cls}


def _pyt_reference(ir, case: dict):
    """The array-backed tensor of the same elements, built WITHOUT ir.tensor: numpy converts the nested value to the
    declared numpy dtype, `ir.Tensor` wraps the array.  None when numpy itself rejects the value."""
    if case["dtype"] is None or case["dtype"] in (0, 8):
        return None
    try:
        arr = np.array(_py_value(case["v"]), dtype=spec_np(case["dtype"]))
        t = ir.Tensor(arr, dtype=ir.DataType(case["dtype"]))
        return {"dims": [int(x) for x in arr.shape], "bytes": list(t.tobytes()), "units": units_of(arr)}
    except Exception:
        return None


def work_pytensor(chunk: list) -> list:
    import warnings

    warnings.filterwarnings("ignore")
    np.seterr(all="ignore")
    import onnx_ir as ir

    out = []
    with tempfile.TemporaryDirectory(prefix="c04p-") as wd:
        for case in chunk:
            out.append({"real": _pyt_real(ir, case, wd), "ref": _pyt_reference(ir, case)})
    return out


def check_pytensor(ctx: Ctx, ir, cases: list | None = None) -> None:
    """`ir.tensor(value, dtype)` on plain Python data (None / bool / int / float / complex / str / bytes scalars in
    nested lists and tuples) vs Model/PyTensor.lean (`pyt.run`): which tensor comes back (array-backed with the
    inferred or declared dtype, StringTensor, the degenerate STRING Tensor, or an exception), its shape, its
    elements bit for bit (the conversion rules of numpy / ml_dtypes), and every observable of that tensor.
    Oracle on the real objects, independent of the model: with a dtype the tensor reports exactly that dtype and is
    byte-identical to `ir.Tensor(np.array(value, dtype))`; integer data converts to its two's complement in row-major
    order of the nesting (computed here); without a dtype the reported dtype is the one of the array it holds."""
    cases = cases if cases is not None else gen_pytensor(ctx)
    chunks = [cases[i : i + 400] for i in range(0, len(cases), 400)]
    reals = [r for rs in pmap(work_pytensor, chunks) for r in rs]
    outs = lean_batch_parallel([{"m": "pyt.run", "v": c["v"], "dtype": c["dtype"]} for c in cases])
    for case, rr, mo in zip(cases, reals, outs):
        real, ref = rr["real"], rr["ref"]
        spec = case["v"]
        lv = _py_leaves(spec)
        kinds = sorted({_py_kind(l) for l in lv})
        depth = _py_depth(spec)
        cj = {"pytensor": True, "v": spec, "dtype": case["dtype"]}
        dname = "None" if case["dtype"] is None else (SPEC[case["dtype"]][0] if case["dtype"] in SPEC else str(case["dtype"]))
        ctx.case(["pytensor", spec, case["dtype"]], nontrivial=True,
                 sample={"ir.tensor": repr(_py_value(spec))[:80], "dtype": dname},
                 representation="ir.tensor(py)", pyt_family=case["fam"], pyt_dtype_arg=dname, pyt_outcome=real["kind"],
                 pyt_depth=min(depth, 4), pyt_kinds="+".join(kinds) if len(kinds) <= 2 else "3+kinds", pyt_leaves=min(len(lv), 8))
        if "err" in mo:
            ctx.disagree("ir.tensor(py): model rejected the request", cj, mo, None)
            continue
        ctx.count(f"pyt_hyp_leaves_wf={mo['leaves_wf']}")
        m = mo["r"]
        # the decidable hypotheses of the inference theorems, evaluated by the driver; when one holds, the model's
        # answer must be the theorem's conclusion (and the real outcome is compared with the model's below)
        for hyp, want in (("hyp_nested_float", ("numeric", 11)), ("hyp_int64", ("numeric", 7)), ("hyp_text", ("str", None)), ("hyp_ragged", ("raised", None))):
            if mo.get(hyp):
                ctx.count(f"pyt_thm_{hyp}")
                if m["kind"] != want[0] or (want[1] is not None and m.get("d") != want[1]):
                    ctx.disagree(f"ir.tensor(py): the driver's answer contradicts the theorem behind {hyp}", cj, m, want)
        if m["kind"] == "unmodelled":
            ctx.count("pyt_unmodelled_conversion")
            continue
        if m["kind"] != real["kind"]:
            ctx.disagree("ir.tensor(py): outcome kind model != implementation", cj, m, {k: v for k, v in real.items() if k != "obs"})
            continue
        if m["kind"] == "raised":
            ctx.count(f"pyt_exc_type_match={m['exc'] == real['exc']}")
            if m["exc"] != real["exc"] and os.environ.get("C04_DEBUG"):
                print("EXC-TYPE", cj, m["exc"], real["exc"])
            ctx.count(f"pyt_exc={real['exc']}")
        elif m["kind"] == "degenerate":
            ctx.count("pyt_degenerate_string_tensor")  # observation D382
            if m["dims"] is not None and m["dims"] != real["dims"]:
                ctx.disagree("ir.tensor(py): degenerate tensor shape model != implementation", cj, m["dims"], real["dims"])
        elif m["kind"] == "str":
            mm = _canon_srep_model(m["obs"])
            for k in ("dtype", "shape", "numpy", "string_data", "nbytes", "tobytes", "tofile", "serialize"):
                if mm[k] != real["obs"][k]:
                    ctx.disagree(f"ir.tensor(py) string: {k} model != implementation", cj, mm[k], real["obs"][k])
            want = [list(l["s"].encode("utf-8")) if "s" in l else list(l["b"]) for l in lv]
            if real["cls"] != "StringTensor" or real["obs"]["numpy"] != want or real["obs"]["string_data"] != want or real["obs"]["tobytes"] != "raised":
                ctx.fail("pytensor.string:not-the-elements", "ir.tensor(text/bytes) is not the StringTensor of the UTF-8 / bytes elements", cj)
        else:
            ctx.count(f"pyt_result_dtype={SPEC[real['d']][0]}")
            ctx.count(f"pyt_conclusion_legal={m['legal']}")  # conclusion of C04_pytensor_agree, evaluated
            if (m["d"], m["dims"]) != (real["d"], real["dims"]):
                ctx.disagree("ir.tensor(py): dtype / shape model != implementation", cj, [m["d"], m["dims"]], [real["d"], real["dims"]])
                continue
            bw = SPEC[real["d"]][1]
            mask = (1 << bw) - 1
            if "_ctor" not in real["obs"] and real["obs"]["numpy"] != "raised" and [u & mask for u in real["obs"]["numpy"]] != [u & mask for u in m["elems"]]:
                ctx.disagree("ir.tensor(py): elements model != implementation", cj, m["elems"][:8], real["obs"]["numpy"][:8])
                continue
            impl = dict(real["obs"])
            mobs = dict(m["obs"])
            if bw < 8 and impl.get("numpy") != "raised":  # the upper bits of a sub-byte element's storage byte are free
                impl["numpy"] = [u & mask for u in impl["numpy"]]
                mobs["numpy"] = [u & mask for u in mobs["numpy"]]
            for obs, a, b in compare_obs([mobs], impl, [], []):
                ctx.disagree(f"ir.tensor(py) {SPEC[real['d']][0]}{real['dims']}: {obs} model != implementation", cj, a, b)
            # ---- oracle (independent of the model)
            o = real["obs"]
            if case["dtype"] is not None and real["d"] != case["dtype"]:
                ctx.fail(f"pytensor.dtype:declared-{dname}", "ir.tensor(value, dtype=d) does not report the declared dtype", cj)
            if o.get("_npdtype") != spec_np(real["d"]).name:
                ctx.fail(f"pytensor.dtype:array-{SPEC[real['d']][0]}", "the reported dtype is not the dtype of the array the tensor holds", cj)
            if o["nbytes"] != _nbytes(_prod(real["dims"]), bw) or o["tobytes"] == "raised" or len(o["tobytes"]) != o["nbytes"]:
                ctx.fail(f"pytensor.nbytes:bw{bw}", "nbytes / tobytes length differ from ceil(size*bitwidth/8)", cj)
            if ref is not None:
                ctx.count("pyt_oracle_reference_compared")
                if ref["dims"] != real["dims"] or o["tobytes"] != ref["bytes"] or [u & mask for u in o["numpy"]] != [u & mask for u in ref["units"]]:
                    ctx.fail(f"pytensor.agree:{dname}", "ir.tensor(value, dtype) differs from the array-backed tensor of np.array(value, dtype)", cj)
            if case["dtype"] is not None and is_int(dname) and kinds and set(kinds) <= {"int", "bool"}:
                ints = [int(l) if isinstance(l, bool) else l["i"] for l in lv]
                if o["tobytes"] != "raised" and o["tobytes"] != list(ref_bytes(bw, [i & mask for i in ints])):
                    ctx.fail(f"pytensor.int-bytes:bw{bw}", "integer data is not its two's complement in row-major order of the nesting", cj)
            if case["dtype"] is None and kinds == ["float"] and real["d"] == 11:
                ctx.count("pyt_nested_float_is_DOUBLE")  # observation D381: a flat list of floats is FLOAT
            if case["dtype"] is None and kinds == ["float"] and real["d"] == 1:
                ctx.count("pyt_flat_float_is_FLOAT")
    ctx.count("pyt_total", len(cases))


# --------------------------------------------------------------------------- ir.tensor into the 8-bit / 4-bit floats

_F8_CODES = [17, 18, 19, 20, 24, 23]  # E4M3FN, E4M3FNUZ, E5M2, E5M2FNUZ, E8M0, FLOAT4E2M1


def _f8_value_of(d: dict) -> float:
    """The float named by the driver's decoded form (pyt.dec8)."""
    if d["k"] == "zero":
        return -0.0 if d["neg"] else 0.0
    if d["k"] == "inf":
        return -math.inf if d["neg"] else math.inf
    if d["k"] == "nan":
        return math.nan
    v = math.ldexp(d["m"], d["e"])
    return -v if d["neg"] else v


def _f8_inputs(ctx: Ctx, code: int, decoded: list[float]) -> tuple[list[float], list[str]]:
    """Python floats offered to ir.tensor(..., dtype=code): ALL 65,536 binary16 values, every value of the target
    type, every midpoint between neighbouring values and its two binary64 / binary32 neighbours, the overflow
    thresholds, the binary32 / binary64 extremes, and random binary32 / binary64 patterns."""
    h = np.arange(65536, dtype=np.uint16).view(np.float16).astype(np.float64)
    xs = [float(v) for v in h]
    tags = ["f16"] * len(xs)
    fin = sorted({abs(v) for v in decoded if math.isfinite(v)})
    edge = []
    top = fin[-1]
    for a, b in zip(fin, fin[1:] + [2 * top if top else 1.0]):
        mid = (a + b) / 2
        for v in (a, mid, math.nextafter(mid, 0.0), math.nextafter(mid, math.inf),
                  float(np.nextafter(np.float32(mid), np.float32(0))), float(np.nextafter(np.float32(mid), np.float32(np.inf)))):
            edge += [v, -v]
    lo = fin[1] if len(fin) > 1 and fin[0] == 0 else fin[0]
    for k in range(1, 6):
        edge += [lo / 2**k, -lo / 2**k, lo / 2**k * 1.5, lo * (1 + 2.0**-52) / 2**k]
    for v in (top, 2 * top):
        for f in (1.0, 1.0625, 1.125, 1.25, 1.4999999, 1.5, 1.5000001, 1.75, 1.9999999, 2.0, 3.0, 4.0):
            edge += [v * f, -v * f]
    edge += [math.inf, -math.inf, math.nan, -math.nan, 5e-324, -5e-324, 1.7976931348623157e308, -1.7976931348623157e308,
             3.4028234663852886e38, 3.4028235677973366e38, 2.0**128, 1.5 * 2.0**128, 1.75 * 2.0**128, 2.0**129, 2.0**-126, 2.0**-127,
             2.0**-127 * (1 + 2.0**-52), 2.0**-128, 2.0**-149, 2.0**-150, 1.401298464324817e-45, 2.2250738585072014e-308]
    xs += edge
    tags += ["edge"] * len(edge)
    n = ctx.pick(20000, 200000)
    r64 = [f64_of_bits(ctx.rng.getrandbits(64)) for _ in range(n)]
    r32 = [struct.unpack("<f", struct.pack("<I", ctx.rng.getrandbits(32)))[0] for _ in range(n)]
    # random values inside the range of the type (log-uniform magnitude, random significand)
    span = (math.frexp(lo)[1] - 3, math.frexp(top)[1] + 2)
    rin = [math.ldexp(1 + ctx.rng.random(), ctx.rng.randrange(span[0], span[1])) * ctx.rng.choice([1, -1]) for _ in range(n)]
    xs += r64 + r32 + rin
    tags += ["rand64"] * n + ["rand32"] * n + ["in-range"] * n
    return xs, tags


_F8_INTS = sorted(set(_PY_INTS + [0, 1, -1, 2, 3, 5, 6, 7, -6, 13, 15, 17, 240, 248, 256, 448, 464, 465, 480, 57344, 61440, 61441, 65536,
                                   2**24 + 1, 2**25 + 2**24 - 1, 2**40 + 2**39 - 1, -(2**40 + 2**39 - 1), 2**62 + 2**61 - 1]))


def check_f8_tables(ctx: Ctx, ir) -> None:
    """Conversion of Python floats / ints INTO FLOAT8E4M3FN / E4M3FNUZ / E5M2 / E5M2FNUZ / E8M0 / FLOAT4E2M1 by
    `ir.tensor(value, dtype)` (numpy + ml_dtypes do the conversion) vs `IrVerif.PyTensor.castLeaf` (`pyt.castmany`):
    EXHAUSTIVE over all 65,536 binary16 values per type, plus every value / midpoint / threshold of the type and random
    binary32 / binary64 patterns.  `pyt.dec8` (the value specification `decF8` behind C04_pytensor_f8_roundtrip) is
    compared with ml_dtypes' own decoding of all 2^bits patterns.  Oracle on the real objects (model-free): the tensor
    reports the declared dtype and shape, is byte-identical to ir.Tensor(np.array(values, dtype)), and converting the
    value of EVERY bit pattern of the type returns that pattern (NaNs: a NaN)."""
    import ml_dtypes  # noqa: F401

    reqs, metas = [], []
    for code in _F8_CODES:
        name, bw, _ = SPEC[code]
        npdt = spec_np(code)
        mask = (1 << bw) - 1
        cj0 = {"f8_table": True, "dtype": code}
        try:
            pats = np.arange(1 << bw, dtype=np.uint8)
            decoded = [float(v) for v in pats.view(npdt).astype(np.float64)]
        except Exception as e:
            ctx.disagree(f"f8 {name}: ml_dtypes cannot decode the patterns", cj0, None, type(e).__name__)
            continue
        xs, tags = _f8_inputs(ctx, code, decoded)
        # ---- the real code: ONE ir.tensor call over the whole list, scalars for the ints
        try:
            t = ir.tensor(xs, dtype=ir.DataType(code))
            real = [int(u) & mask for u in np.asarray(t.numpy()).view(np.uint8).tolist()]
            rbytes = t.tobytes()
            rd, rshape = int(t.dtype), [int(x) for x in t.shape.numpy()]
        except Exception as e:
            ctx.disagree(f"f8 {name}: ir.tensor(list of floats, dtype) raised", cj0, "numeric", type(e).__name__)
            continue
        rints = []
        for i in _F8_INTS:
            try:
                rints.append(int(np.asarray(ir.tensor(i, dtype=ir.DataType(code)).numpy()).view(np.uint8)) & mask)
            except Exception as e:
                rints.append(type(e).__name__)
        # ---- oracle, independent of the model
        if rd != code or rshape != [len(xs)]:
            ctx.fail(f"pytensor.f8:declared-{name}", "ir.tensor(floats, dtype=T) does not report the declared dtype / shape", cj0)
        try:
            ref = ir.Tensor(np.array(xs, dtype=npdt), dtype=ir.DataType(code)).tobytes()
            if ref != rbytes or len(rbytes) != _nbytes(len(xs), bw):
                ctx.fail(f"pytensor.f8:agree-{name}", "ir.tensor(floats, dtype=T) differs from ir.Tensor(np.array(floats, T)) / nbytes", cj0)
        except Exception as e:
            ctx.disagree(f"f8 {name}: the reference tensor raised", cj0, None, type(e).__name__)
        try:
            back = [int(u) & mask for u in np.asarray(ir.tensor(decoded, dtype=ir.DataType(code)).numpy()).view(np.uint8).tolist()]
            for p_, (v, b) in enumerate(zip(decoded, back)):
                okp = (b == p_) if not math.isnan(v) else math.isnan(float(np.array([b], dtype=np.uint8).view(npdt).astype(np.float64)[0]))
                if not okp:
                    ctx.fail(f"pytensor.f8:roundtrip-{name}", "converting the value of a bit pattern does not give the pattern back",
                             {**cj0, "pattern": p_, "back": b})
                    break
            ctx.count("f8_oracle_roundtrip_patterns", len(decoded))
        except Exception as e:
            ctx.disagree(f"f8 {name}: ir.tensor(values of all patterns) raised", cj0, None, type(e).__name__)
        # round-to-nearest on the real code (model-free): for a finite input inside the range of the type the result
        # decodes (ml_dtypes) to a value of the type nearest to the input; a tie goes to the pattern with an even last bit
        try:
            fin = sorted({v for v in decoded if math.isfinite(v)})
            lo_pos = min(v for v in fin if v > 0)
            span_lo = 2.0 * lo_pos if code == 24 else lo_pos  # E8M0: the field 0 is treated as a subnormal field (D384)
            nbad_near = 0
            import bisect
            for x, r in zip(xs, real):
                if not math.isfinite(x) or not (span_lo <= abs(x) <= fin[-1]) or (x < 0 and fin[0] >= 0):
                    continue
                got = decoded[r] if r < len(decoded) else math.nan
                k_ = bisect.bisect_left(fin, x)
                cands = [fin[j_] for j_ in (k_ - 1, k_) if 0 <= j_ < len(fin)]
                best = min(abs(c - x) for c in cands)
                ctx.count("f8_oracle_nearest_checked")
                if math.isnan(got) or abs(got - x) != best or (code != 24 and len(cands) == 2 and abs(cands[0] - x) == abs(cands[1] - x) and r % 2 == 1):
                    nbad_near += 1
                    if nbad_near <= 2:
                        ctx.fail(f"pytensor.f8:not-nearest-{name}", "a finite in-range float does not convert to the nearest value of the type (ties to even)",
                                 {**cj0, "f": bits_of_f64(x), "got": r})
        except Exception as e:
            ctx.disagree(f"f8 {name}: the nearest-value oracle raised", cj0, None, type(e).__name__)
        reqs.append({"m": "pyt.castmany", "d": code, "f": [bits_of_f64(x) for x in xs], "i": _F8_INTS})
        reqs.append({"m": "pyt.dec8", "d": code})
        metas.append((code, xs, tags, real, rints, decoded))
    outs = lean_batch_parallel(reqs) if reqs else []
    for j, (code, xs, tags, real, rints, decoded) in enumerate(metas):
        name, bw, _ = SPEC[code]
        mo, md = outs[2 * j], outs[2 * j + 1]
        cj0 = {"f8_table": True, "dtype": code}
        if "err" in mo or "err" in md:
            ctx.disagree(f"f8 {name}: model rejected the request", cj0, [mo.get("err"), md.get("err")], None)
            continue
        # the value specification vs ml_dtypes' decoding, and the conclusion of C04_pytensor_f8_roundtrip evaluated
        for p_, (dm, v) in enumerate(zip(md["vals"], decoded)):
            mv = _f8_value_of(dm)
            same = (math.isnan(mv) and math.isnan(v)) or bits_of_f64(mv) == bits_of_f64(v)
            ctx.count(f"f8_decode_match={same}")
            if not same:
                ctx.disagree(f"f8 {name}: value of pattern {p_} model != ml_dtypes", {**cj0, "pattern": p_}, repr(mv), repr(v))
        if md["roundtrip"] != md["canon"]:
            ctx.disagree(f"f8 {name}: the driver contradicts C04_pytensor_f8_roundtrip", cj0, md["roundtrip"], md["canon"])
        # element by element; one registered case per (type, input family, block of 256 inputs)
        nbad = 0
        for b0 in range(0, len(xs), 256):
            blk = slice(b0, b0 + 256)
            ctx.case(["f8", code, tags[b0], b0 // 256, hashlib.sha1(repr(xs[blk]).encode()).hexdigest()[:12]], nontrivial=True,
                     sample={"ir.tensor": f"{len(xs[blk])} floats from {xs[b0]!r}", "dtype": name},
                     representation="ir.tensor(py)", pyt_family="f8-table", pyt_dtype_arg=name, f8_inputs=tags[b0])
            for x, r, m in zip(xs[blk], real[blk], mo["f"][blk]):
                if r != m:
                    nbad += 1
                    if nbad <= 3:
                        ctx.disagree(f"f8 {name}: float -> {name} model != implementation", {**cj0, "f": bits_of_f64(x)}, m, r)
        for i, r, m in zip(_F8_INTS, rints, mo["i"]):
            mm = m if isinstance(m, int) else "raised"
            rr = r if isinstance(r, int) else "raised"
            if isinstance(m, str) and isinstance(r, str):
                ctx.count(f"pyt_exc_type_match={m == r}")
            if mm != rr:
                ctx.disagree(f"f8 {name}: int -> {name} model != implementation", {**cj0, "i": i}, m, r)
        ctx.count("f8_table_floats", len(xs))
        ctx.count("f8_table_ints", len(_F8_INTS))
        ctx.count(f"f8_table_mismatches_{name}", nbad)
        if code == 24:  # observation D384 (ml_dtypes): [1.5 * 2^128, 2^129) wraps to the pattern of 2^-127
            ctx.count("f8_e8m0_overflow_wraps_to_0x00", sum(1 for x, r in zip(xs, real) if 1.5 * 2.0**128 <= x < 2.0**129 and r == 0))
    ctx.exhaustive_scopes.append("ir.tensor(float, dtype=T) for the six 8-bit / 4-bit float types: ALL 65,536 binary16 values per type, every "
                                 "value of the type, every midpoint between neighbours with its binary64 / binary32 neighbours, all 2^bits patterns decoded")


def check_ctor_table(ctx: Ctx, ir) -> None:
    """`ir.Tensor(array, dtype=d)`: which array dtypes `_check_numpy_representation_type` accepts for which element type,
    EXHAUSTIVELY over the 26 numpy / ml_dtypes dtypes of the element-type table (+ text, bytes, datetime, longdouble,
    big-endian and structured dtypes) x all 27 codes, vs `IrVerif.PyTensor.ctorAccepts` (`pyt.ctor`).  Oracle on the real
    object (model-free; the conclusion of C04_ctor_accepts on the code): an accepted array keeps its item size, the tensor
    reports the declared dtype, the array's shape, nbytes = ceil(size*bw/8), and tobytes() of that length."""
    import ml_dtypes

    names = [
        "bool", "complex128", "complex64", "float16", "float32", "float64", "int16", "int32", "int64", "int8", "object", "uint16",
        "uint32", "uint64", "uint8", "bfloat16", "float8_e4m3fn", "float8_e4m3fnuz", "float8_e5m2", "float8_e5m2fnuz",
        "float8_e8m0fnu", "int4", "uint4", "float4_e2m1fn", "int2", "uint2"]
    dts = [(n, np.dtype(getattr(ml_dtypes, n)) if hasattr(ml_dtypes, n) and not hasattr(np, n) else np.dtype(n)) for n in names]
    dts += [("str", np.dtype("<U3")), ("bytes", np.dtype("S2")), ("datetime64[s]", np.dtype("datetime64[s]")),
            ("longdouble", np.dtype(np.longdouble)), ("be-float32", np.dtype(">f4")), ("be-int16", np.dtype(">i2")),
            ("struct-bfloat16", np.dtype([("bfloat16", np.uint16)])), ("void", np.dtype("V2"))]
    mo = lean_batch_parallel([{"m": "pyt.ctor", "arrs": [n for n, _ in dts]}])[0]
    if "err" in mo:
        ctx.disagree("ctor table: model rejected the request", {"ctor_table": True}, mo, None)
        return
    for (n, npdt), row in zip(dts, mo["accepts"]):
        for code, macc, msize in row:
            cj = {"ctor_table": True, "array_dtype": n, "dtype": code}
            try:
                arr = np.zeros([2, 3], dtype=npdt)
                t = ir.Tensor(arr, dtype=ir.DataType(code))
                racc = True
            except TypeError:
                racc = False
            except Exception as e:  # any other exception type is a disagreement, never a crash
                racc = type(e).__name__
            ctx.case(["ctor", n, code], nontrivial=True, sample={"ir.Tensor(np.zeros(.., dtype))": n, "dtype": code},
                     representation="Tensor-ctor", ctor_accepted=str(racc), ctor_array_dtype=n if n in names else "other")
            if racc != macc:
                ctx.disagree("Tensor(array, dtype): accepted model != implementation", cj, macc, racc)
                continue
            if racc is True:
                if n in names:  # the hypothesis of C04_ctor_accepts: a dtype of the element-type table
                    ctx.count(f"ctor_thm_itemsize_holds={msize}")  # its conclusion, evaluated by the driver
                if code in SPEC:
                    bw = SPEC[code][1]
                    try:
                        raw = np.asarray(t.numpy())
                        okk = (int(t.dtype) == code and [int(x) for x in t.shape.numpy()] == [2, 3] and raw.itemsize == npdt.itemsize
                               and t.nbytes == _nbytes(6, bw) and len(t.tobytes()) == t.nbytes)
                    except Exception:
                        okk = False
                    if not okk:
                        ctx.fail(f"ctor.accepted:{n}:{SPEC[code][0]}", "an accepted array does not give a tensor with the declared dtype / "
                                 "the array's shape / item size / nbytes", cj)
    ctx.exhaustive_scopes.append("Tensor(array, dtype=d): every numpy / ml_dtypes dtype of the element-type table (+ 8 foreign dtypes) x all 27 codes")


# --------------------------------------------------------------------------- run


def known_sig(ctx: Ctx, sig: str) -> bool:
    return any(k["property"] == ctx.prop and re.fullmatch(k["signature"], sig) for k in ctx._known)


def compare_obs(model_obs: list[dict], impl: dict, dests: list[str], reqs: list[dict]) -> list:
    """[(observable, model, impl)] differences between canonical model output and implementation."""
    diffs = []
    if "_ctor" in impl:
        m = canon_model(model_obs[0])
        for k in ("numpy", "tobytes"):
            if m[k] != "raised":
                diffs.append((k, m[k], "raised(constructor)"))
        if not m["tofile"]["raised"]:
            diffs.append(("tofile", m["tofile"], "raised(constructor)"))
        return diffs
    m = canon_model(model_obs[0])
    for k in ("dtype", "shape", "nbytes", "numpy", "tobytes", "tofile", "serialize"):
        if m[k] != impl[k]:
            diffs.append((k, m[k], impl[k]))
    for md, dk in zip(m["dests"], dests):
        rq = dest_request(dk)
        if isinstance(md, dict) and "raised" in md and len(md) == 1:
            md = {"img": rq["img"], "pos": rq["pos"], "raised": True}
        if md != impl["dest"][dk]:
            diffs.append(("dest", {dk: md}, {dk: impl["dest"][dk]}))
    return diffs


def process_records(ctx: Ctx, recs: list, outs_iter) -> None:
    import onnx_ir as ir

    for rec in recs:
        item, name = rec["item"], rec["name"]
        dname = SPEC[item["d"]][0]
        model_obs = [next(outs_iter) for _ in rec["reqs"]]
        large = len(item["xs"]) > 1000
        case = {"d": item["d"], "dims": item["dims"], "xs": item["xs"][:16] if large else item["xs"], "idx": item["idx"], "repr": name}
        if large:
            case["large"] = "elements truncated; regenerate with the same VERIF_SEED"
        ctx.case(
            [name, item["d"], item["dims"], (len(item["xs"]), item["xs"][:8], item["xs"][-8:]) if large else item["xs"], rec["dests"]],
            nontrivial=len(item["xs"]) > 0,
            sample={"dtype": dname, "dims": item["dims"], "bits": item["xs"][:4], "representation": name, "destinations": rec["dests"]},
            dtype=dname,
            representation=kind_of(name).split(">")[-1] + (":" + name.split(":")[1].split("-")[0] if name.startswith("proto:") else ""),
            lazy=name.startswith("lazy>"),
            form=name.split(">")[-1],
            shape=str(item["dims"]) if len(item["xs"]) < 1000 else "large",
        )
        for dk in rec["dests"]:
            ctx.count(f"destination={dk}")
        if item["d"] == 9 and any(int(x) > 1 for x in item["xs"]):
            ctx.count("bool_noncanonical_byte_records")  # observation D388: storage bytes 2..255, passed through verbatim
        for hk, hv in rec.get("hist", {}).items():
            ctx.count(f"{hk}={hv}")
        if rec.get("strided"):
            so = model_obs[1]
            ctx.count(f"strided_hypotheses_hold={so.get('hyp')}")
            ctx.count(f"strided_constructor_check_holds={so.get('torch_check') if rec['strided'] == 'torch' else so.get('np_check')}")
            ctx.count(f"strided_nonempty_storage={so.get('nonempty_storage')}")
            key = "torch_tobytes" if rec["strided"] == "torch" else "tobytes"
            mt = so.get(key)
            mt = "raised" if isinstance(mt, dict) and "raised" in mt else mt
            it = rec["impl"].get("tobytes", "raised") if "_ctor" not in rec["impl"] else "raised"
            if mt != it:
                ctx.disagree(f"{name} {dname}{item['dims']}: transcribed strided tobytes model != implementation", case, mt, it)
            if so.get("hyp") and "_ctor" not in rec["impl"] and so.get("units") != rec["impl"].get("numpy"):
                ctx.disagree(f"{name} {dname}{item['dims']}: strided units model != numpy()", case, so.get("units"), rec["impl"].get("numpy"))
        known_obs = set()
        for sig, obs, what in rec["fails"]:
            if known_sig(ctx, sig):
                known_obs.add(obs)
            ctx.fail(sig, what, case)
        for obs, m, i in compare_obs(model_obs, rec["impl"], rec["dests"], rec["reqs"]):
            if obs in known_obs:
                ctx.count("disagreements-explained-by-known-finding")
                continue
            ctx.disagree(f"{name} {dname}{item['dims']}: {obs} model != implementation", case, m, i)
        rt = rec["rt"]
        if rt is not None:
            mo = next(outs_iter)
            ctx.case(["roundtrip", name, item["d"], item["dims"], item["xs"]], nontrivial=len(item["xs"]) > 0, representation="deserialize(serialize)")
            known_obs = set()
            for sig, obs, what in rt["fails"]:
                if known_sig(ctx, sig):
                    known_obs.add(obs)
                ctx.fail(sig, what, case)
            if isinstance(mo, dict) and set(mo) == {"raised"}:
                if "_ctor" not in rt["impl"]:
                    ctx.disagree(f"deserialize(serialize({name})): model raised", case, mo, "ok")
            else:
                for obs, m, i in compare_obs([mo], rt["impl"], [], []):
                    if obs in known_obs:
                        continue
                    ctx.disagree(f"deserialize(serialize({name})) {dname}{item['dims']}: {obs} model != implementation", case, m, i)


class _WorkerCtx(Part):
    """A Part (picklable partial result) that also answers what process_records asks of a Ctx."""

    prop = "C04"
    _known: list = []  # set by the parent before the workers are forked


def work_big(item: dict) -> dict:
    """Worker: one LARGE logical tensor, start to finish (real objects, model driver, comparison), so that only
    the counters travel back.  A large tensor costs about 1.5 GB in the Python process that observes it (lists of
    millions of ints) and about 1 GB in the model driver per request; keeping that out of the parent process --
    and running only a few of these at a time -- is what bounds the memory of the thorough tier."""
    from harness.common import lean_batch

    part = _WorkerCtx()
    recs = work_logical(item)
    for rec in recs:  # one request at a time: one driver process, its memory returned before the next
        reqs = list(rec["reqs"]) + ([rec["rt"]["req"]] if rec["rt"] is not None else [])
        outs = None
        for attempt in range(12):
            try:
                outs = lean_batch(reqs)
                break
            except Infra:
                if attempt == 11:
                    raise
                import time

                time.sleep(5)
        process_records(part, [rec], iter(outs))
        rec.clear()
    return dict(part)


BIG_PROCS = 3  # large tensors observed at the same time (about 2.5 GB each, see work_big)
SMALL_BATCH = 2500  # logical tensors per round of the parent process (bounds what it holds at once)


def run_items(ctx: Ctx, items: list) -> None:
    for i, it in enumerate(items):
        it.setdefault("idx", i)
    big = [it for it in items if it.get("big")]
    small = [it for it in items if not it.get("big")]
    if len(big) <= 1:  # quick tier / replay: the one large tensor runs beside the small ones
        small, big = big + small, []
    if big:
        _WorkerCtx._known = ctx._known
        for part in pmap(work_big, big, procs=BIG_PROCS):
            ctx.merge(part)
    for k in range(0, len(small), SMALL_BATCH):
        all_recs = [r for recs in pmap(work_logical, small[k : k + SMALL_BATCH]) for r in recs]
        reqs = []
        for rec in all_recs:
            reqs.extend(rec["reqs"])
            if rec["rt"] is not None:
                reqs.append(rec["rt"]["req"])
        outs = lean_batch_balanced(reqs)
        process_records(ctx, all_recs, iter(outs))
        del all_recs, reqs, outs


def run_strided(ctx: Ctx, sitems: list) -> None:
    recs = [r for rs in pmap(work_strided, sitems) for r in rs]
    reqs = [q for rec in recs for q in rec["reqs"]]
    outs = lean_batch_parallel(reqs)
    process_records(ctx, recs, iter(outs))
    ctx.count("strided_total", len(recs))


def run(ctx: Ctx) -> None:
    import warnings

    warnings.filterwarnings("ignore")
    import onnx_ir as ir

    ctx.rule = (
        "a case = (representation, element type, shape, element bit patterns, destinations); non-trivial when it has "
        ">= 1 element; distinct by that tuple. Exhaustive parts: element-type tables; every bit pattern of every <= 8-bit "
        "type placed in every representation kind; nibble/crumb sequences up to a length bound for pack/unpack"
    )
    ctx.notes.append("torch adapter " + ("covered (torch importable)" if torch_available() else "NOT covered: torch not importable"))
    # corpus first
    allcorpus = load_corpus("C04")
    corpus = [c for c in allcorpus if "d" in c]
    if corpus:
        run_items(ctx, [dict(c) for c in corpus])
        ctx.count("corpus_cases", len(corpus))
    pycorpus = [c for c in allcorpus if c.get("pytensor")]
    if pycorpus:
        check_pytensor(ctx, ir, [{"v": c["v"], "dtype": c["dtype"], "fam": "corpus"} for c in pycorpus])
        ctx.count("corpus_cases", len(pycorpus))
    check_tables(ctx, ir)
    check_strings(ctx, ir)
    check_strings_model(ctx, ir)
    check_external_state(ctx, ir)
    check_external_histories(ctx, ir, [c for c in allcorpus if "hist" in c])
    check_pack_functions(ctx)
    check_pytensor(ctx, ir)
    check_f8_tables(ctx, ir)
    check_ctor_table(ctx, ir)
    items = gen_logical(ctx, ir) + gen_more(ctx)
    items.sort(key=lambda it: not it.get("big"))  # the large tensors first (they take longest)
    run_items(ctx, items)
    run_strided(ctx, gen_strided(ctx))
    check_strided_bounds(ctx)
    ctx.exhaustive_scopes.append("all 2^w bit patterns of every element type with w <= 8 (BOOL: all 256 storage bytes), through every representation kind")
    ctx.exhaustive_scopes.append("ir.tensor(python data): every nesting of lists (<= 3 items per list, depth <= 3, <= 3 scalars, "
                                 f"<= {ctx.pick(6, 7)} nodes, inhomogeneous ones included) x every assignment of the 7 scalar kinds "
                                 "(None/bool/int/float/complex/str/bytes), without a dtype and with two dtypes each; every boundary scalar "
                                 "of the conversion table x all 27 dtype codes")
    # edge / illegal stream: model vs implementation only
    edge = gen_edge(ctx, ir)
    chunks = [edge[i : i + 100] for i in range(0, len(edge), 100)]
    erecs = [r for rs in pmap(work_edge, chunks) for r in rs]
    live = [r for r in erecs if "impl" in r]
    outs = lean_batch_parallel([{"m": "trepr.obs", "repr": r["edge"]["repr"]} for r in live])
    for r, mo in zip(live, outs):
        m = r["edge"]["repr"]
        impl = r["impl"]
        ctx.case(["edge", m], nontrivial=True, representation="edge:" + m["k"],
                 edge_outcome=("ctor-raised" if "_ctor" in impl else "numpy-raised" if impl.get("numpy") == "raised" else "ok"))
        if "err" in mo:
            ctx.disagree("edge: model rejected the request", m, mo, None)
            continue
        for obs, mm, ii in compare_obs([mo], impl, [], []):
            if obs == "serialize" and m["k"] == "proto":
                continue  # metadata/name are copied verbatim; covered by the legal stream
            if m["k"] == "external" and SPEC.get(m["d"], ("", 0, ""))[1] == 2 and obs in ("numpy", "tobytes") and known_sig(ctx, f"external.{obs}:bw2:n>0:raised") and ii == "raised":
                ctx.count("disagreements-explained-by-known-finding")
                continue
            if m["k"] == "external" and obs == "tobytes" and _prod(m["dims"]) == 0 and known_sig(ctx, "external.tobytes:bw8:size0:raised") and ii == "raised":
                ctx.count("disagreements-explained-by-known-finding")
                continue
            if m["k"] == "packed" and SPEC.get(m["d"], ("", 0, ""))[1] == 2 and obs == "numpy" and known_sig(ctx, "packed.numpy:bw2:n>0:wrong-bits"):
                ctx.count("disagreements-explained-by-known-finding")
                continue
            ctx.disagree(f"edge {m['k']}: {obs} model != implementation", m, mm, ii)
    ctx.count("edge_skipped_inexpressible", len(erecs) - len(live))


def replay(ctx: Ctx, obj: dict) -> None:
    case = obj.get("case") or obj
    if isinstance(case, dict) and "hist" in case:
        import onnx_ir as ir

        check_external_histories(ctx, ir, [case])
    elif isinstance(case, dict) and case.get("pytensor"):
        import onnx_ir as ir

        check_pytensor(ctx, ir, [{"v": case["v"], "dtype": case["dtype"], "fam": "replay"}])
    elif isinstance(case, dict) and (case.get("string-model") or case.get("string-py")):
        import onnx_ir as ir

        check_strings_model(ctx, ir)
    elif isinstance(case, dict) and (case.get("string") or case.get("external-state")):
        import onnx_ir as ir

        check_strings(ctx, ir)
        check_external_state(ctx, ir)
    elif isinstance(case, dict) and "d" in case and "dims" in case and "xs" in case:
        run_items(ctx, [{"d": case["d"], "dims": case["dims"], "xs": case["xs"], "idx": case.get("idx", 0)}])
    else:
        run(ctx)
